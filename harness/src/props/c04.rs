//! C04 — a crashed host stops dead, releases everything, and restarts
//! cleanly.  DESIGN.md §6 C04.  SimDriver; crash injected after every step of
//! small workloads (fault enumeration) plus random schedules.

use crate::drivers::trace;
use crate::engine::{replay_as, Ctx, Outcome, Tier};
use proptest::prelude::*;
use serde::{Deserialize, Serialize};
use serde_json::Value;
use std::cell::{Cell, RefCell};
use std::collections::BTreeMap;
use std::os::unix::fs::FileExt;
use std::rc::Rc;
use std::time::{Duration, SystemTime};
use tokio::io::{AsyncReadExt, AsyncWriteExt};
use turmoil::net::{TcpListener, TcpStream, UdpSocket};

pub const PROP: super::Prop = super::Prop {
    id: "C04",
    level: "fault_enumeration",
    check,
    replay,
};

/// Is the finding listed in known_findings.json with status "known"?  Only then is its clause
/// skipped (and counted as excluded) in the main search; "fixed" or no entry re-arms the clause.
fn is_known(id: &str) -> bool {
    static KNOWN: std::sync::OnceLock<Vec<String>> = std::sync::OnceLock::new();
    KNOWN
        .get_or_init(|| crate::engine::load_findings().into_iter().filter(|f| f.property == "C04" && f.status == "known").map(|f| f.id).collect())
        .iter()
        .any(|k| k == id)
}

#[derive(Clone, Copy, Debug, Serialize, Deserialize, PartialEq, Eq)]
pub enum StreamMode {
    /// victim reads and writes back
    Echo,
    /// victim reads and discards
    Sink,
    /// victim holds the stream without reading (unread data piles up)
    Idle,
    /// victim writes periodically, never reads
    Writer,
    /// victim reads 5 bytes at a time and pauses 1 ms after every read (most of the time part of
    /// a received segment is stashed in the stream's read buffer: unread data)
    Nibble,
}

#[derive(Clone, Copy, Debug, Serialize, Deserialize, PartialEq, Eq)]
pub enum PeerKind {
    Reader,
    Writer,
    Both,
    Idle,
}

#[derive(Clone, Copy, Debug, Serialize, Deserialize, PartialEq, Eq)]
pub enum Ctl {
    Crash,
    Bounce,
}

#[derive(Clone, Debug, Serialize, Deserialize)]
pub struct Flags {
    pub accept: bool,
    pub stream_mode: StreamMode,
    pub bg_tasks: bool,
    pub udp: bool,
    pub multicast: bool,
    pub fs: bool,
    pub outgoing: bool,
    pub two_victims: bool,
    /// select the victims with a regex (both) instead of a name
    pub by_regex: bool,
    /// with `outgoing`: the victim dials the peer and then never reads, while the peer's
    /// accepted stream writes continuously (so the parked writer sits on the ACCEPTING side)
    #[serde(default)]
    pub outgoing_flood: bool,
}

#[derive(Clone, Debug, Serialize, Deserialize)]
pub struct Scenario {
    pub tick_ms: u32,
    pub lat_ms: u32,
    pub capacity: usize,
    pub seed: u64,
    pub v6: bool,
    pub flags: Flags,
    /// (step, kind, victim index): connections from the peer to a victim
    pub conns: Vec<(u32, PeerKind, usize)>,
    pub run_steps: u32,
    /// (after this many steps, action)
    pub ctl: Vec<(u32, Ctl)>,
    /// probe mode: also assert the clause that known finding F-C04-2 excludes in the main search
    #[serde(default)]
    pub strict_known: bool,
    /// number of victim hosts `v0..`; 0 = legacy (2 with `flags.two_victims`, else 1)
    #[serde(default)]
    pub nvict: usize,
    /// order in which the victims are registered with the Sim (a permutation of 0..nvict; anything
    /// else = natural order).  A regex resolves to its matches in registration order.
    #[serde(default)]
    pub reg_order: Vec<usize>,
    /// crash / bounce target of `ctl[k]`; missing or mask 0 = legacy selection (all victims by regex with
    /// `flags.by_regex`, all of a single victim by name, else `v0` by name)
    #[serde(default)]
    pub targets: Vec<Target>,
    /// upper bound of the message latency in ms; 0 (or <= lat_ms) = every message takes exactly
    /// lat_ms.  Above lat_ms every message draws its own latency from lat_ms..=lat_max_ms (turmoil's
    /// default distribution, seeded by `seed`), so that a later segment can overtake an earlier one.
    #[serde(default)]
    pub lat_max_ms: u32,
    /// (boundary, victim, ms): after `boundary` steps `Sim::set_link_latency("p", "v<victim>", ms)`
    /// (both directions of that link; applied before the crash / bounce calls of the same boundary).
    /// A message keeps the latency in force when it was sent, so lowering the latency lets later
    /// messages overtake earlier ones.
    #[serde(default)]
    pub link_lat: Vec<(u32, usize, u32)>,
}

/// The harness's own account of the latency configuration of the links peer <-> victim.
struct LinkModel {
    tick: u64,
    lo: u64,
    hi: u64,
    /// per victim: (boundary, ms) in the order in which they are applied
    ch: Vec<Vec<(u64, u64)>>,
}

impl LinkModel {
    fn of(sc: &Scenario, nvict: usize) -> LinkModel {
        let lo = sc.lat_ms.max(1) as u64;
        let hi = (sc.lat_max_ms as u64).max(lo);
        let mut ch = vec![Vec::new(); nvict];
        let mut all: Vec<(u32, usize, u32)> = sc.link_lat.clone();
        all.sort_by_key(|c| c.0); // stable: equal boundaries keep the order of application
        for (at, v, ms) in all {
            ch[v % nvict].push((at as u64, ms.max(1) as u64));
        }
        LinkModel { tick: sc.tick_ms.max(1) as u64, lo, hi, ch }
    }
    /// latency is drawn at random per message somewhere (arrival steps are only known as ranges)
    fn random(&self) -> bool {
        self.hi > self.lo
    }
    /// (min, max) latency in ms of the link p <-> v once the changes of boundaries <= b are made
    fn ms(&self, v: usize, b: u64) -> (u64, u64) {
        match self.ch[v].iter().filter(|(at, _)| *at <= b).last() {
            Some((_, ms)) => (*ms, *ms),
            None => (self.lo, self.hi),
        }
    }
    /// (fewest, most) steps from the step in which a message is sent to the step in which it is
    /// delivered, for a message sent while the configuration of boundary b is in force (a message
    /// sent DURING step s sees the configuration of boundary s - 1; one sent by Sim::crash at
    /// boundary b sees that of b)
    fn steps(&self, v: usize, b: u64) -> (u64, u64) {
        let (lo, hi) = self.ms(v, b);
        (lo.div_ceil(self.tick), hi.div_ceil(self.tick))
    }
    /// a message sent during step s (>= 1) has arrived by this step
    fn arrives_by(&self, v: usize, s: u64) -> u64 {
        s + self.steps(v, s.saturating_sub(1)).1
    }
    /// most steps any message sent at a boundary / during a step in b0..=b1 can take
    fn hi_steps_between(&self, v: usize, b0: u64, b1: u64) -> u64 {
        (b0.min(b1)..=b1).map(|b| self.steps(v, b).1).max().unwrap_or(0)
    }
    fn max_ms(&self) -> u64 {
        self.ch.iter().flatten().map(|c| c.1).max().unwrap_or(0).max(self.hi)
    }
}

/// Account for bytes the victim's application has read: the stream is decoded as a byte stream
/// (read boundaries are unspecified), every completed 16-byte segment is recorded as consumed.
fn note_consumed(sh: &Shared, acc: &mut Vec<u8>, got: &[u8]) {
    acc.extend_from_slice(got);
    while acc.len() >= 16 {
        sh.consumed.borrow_mut().insert((conn_of_byte(acc[0]), u16::from_le_bytes([acc[1], acc[2]])));
        acc.drain(..16);
    }
}

/// 16 bytes = one segment; byte 0 names the connection, bytes 1..3 number the write (from 1)
fn payload(id: u8, n: u16) -> [u8; 16] {
    let mut b = [id; 16];
    b[1..3].copy_from_slice(&n.to_le_bytes());
    b
}

/// connection id of a payload's first byte (streams accepted by the peer are numbered from 1000)
fn conn_of_byte(b: u8) -> usize {
    if b & 0x80 != 0 {
        1000 + (b & 0x7f) as usize
    } else {
        b as usize
    }
}

/// Which hosts one `Sim::crash` / `Sim::bounce` call addresses.
#[derive(Clone, Copy, Debug, Default, Serialize, Deserialize, PartialEq, Eq)]
pub struct Target {
    /// bit v set = victim v is addressed (several bits = one regex matching exactly those hosts)
    pub mask: u8,
    /// a single victim is addressed by its host name instead of a regex
    pub by_name: bool,
}

pub const MAX_VICT: usize = 3;

fn nvict_of(sc: &Scenario) -> usize {
    if sc.nvict > 0 {
        sc.nvict.min(MAX_VICT)
    } else if sc.flags.two_victims {
        2
    } else {
        1
    }
}

fn reg_order_of(sc: &Scenario, nvict: usize) -> Vec<usize> {
    let mut seen = vec![false; nvict];
    let ok = sc.reg_order.len() == nvict && sc.reg_order.iter().all(|v| *v < nvict && !std::mem::replace(&mut seen[*v], true));
    if ok {
        sc.reg_order.clone()
    } else {
        (0..nvict).collect()
    }
}

/// (victims addressed by ctl[k], addressed by name?)
fn target_of(sc: &Scenario, k: usize, nvict: usize) -> (Vec<usize>, bool) {
    let all = ((1u16 << nvict) - 1) as u8;
    match sc.targets.get(k).filter(|t| t.mask & all != 0) {
        Some(t) => {
            let sel: Vec<usize> = (0..nvict).filter(|v| t.mask >> v & 1 == 1).collect();
            let by_name = t.by_name && sel.len() == 1;
            (sel, by_name)
        }
        None => {
            if sc.flags.by_regex {
                ((0..nvict).collect(), false)
            } else {
                (vec![0], true)
            }
        }
    }
}

/// A regex that matches exactly the host names of the selected victims.
fn regex_for(sel: &[usize]) -> regex::Regex {
    let digits: String = sel.iter().map(|v| v.to_string()).collect();
    regex::Regex::new(&format!("^v[{digits}]$")).unwrap()
}

fn nth_perm(n: usize, mut k: usize) -> Vec<usize> {
    let mut items: Vec<usize> = (0..n).collect();
    let mut out = Vec::new();
    for i in (1..=n).rev() {
        let f: usize = (1..i).product();
        out.push(items.remove((k / f) % i));
        k %= f;
    }
    out
}

#[derive(Clone, Debug, Default)]
struct ConnRec {
    victim: usize,
    send_step: u64,
    connected_step: Option<u64>,
    connect_err: Option<(String, u64)>,
    reader_blocked: bool,
    reader_end: Option<(String, u64)>,
    writer_blocked: bool,
    writer_end: Option<(String, u64)>,
    /// record kept by the peer for a stream it ACCEPTED from a victim (no SYN logic applies)
    accept_side: bool,
}

#[derive(Default)]
struct Shared {
    step: Cell<u64>,
    live: RefCell<BTreeMap<String, i64>>,
    progress: RefCell<BTreeMap<String, u64>>,
    starts: RefCell<BTreeMap<String, u64>>,
    binds: RefCell<Vec<(String, u64, &'static str, Option<String>)>>,
    udp_recv: RefCell<Vec<(String, u64, u32, u64)>>, // victim, incarnation, seq, step
    udp_sent: RefCell<Vec<(usize, u32, u64)>>,       // victim idx, seq, step
    conns: RefCell<BTreeMap<usize, ConnRec>>,
    /// (connection, write number) of every segment a victim's application has read completely
    consumed: RefCell<std::collections::BTreeSet<(usize, u16)>>,
    by_log: RefCell<BTreeMap<String, Vec<String>>>,
    errors: RefCell<Vec<String>>,
}

struct Guard {
    sh: Rc<Shared>,
    host: String,
}
impl Guard {
    fn new(sh: &Rc<Shared>, host: &str) -> Guard {
        *sh.live.borrow_mut().entry(host.to_string()).or_default() += 1;
        Guard { sh: sh.clone(), host: host.to_string() }
    }
}
impl Drop for Guard {
    fn drop(&mut self) {
        *self.sh.live.borrow_mut().entry(self.host.clone()).or_default() -= 1;
    }
}

fn bump(sh: &Shared, host: &str) {
    *sh.progress.borrow_mut().entry(host.to_string()).or_default() += 1;
}

const V_TCP: u16 = 9000;
const V_UDP: u16 = 9001;
const P_TCP: u16 = 9100;

fn group(v6: bool) -> std::net::IpAddr {
    if v6 {
        "ff02::77".parse().unwrap()
    } else {
        "239.7.7.7".parse().unwrap()
    }
}

async fn victim(sh: Rc<Shared>, name: String, inc: u64, sc: Scenario) -> turmoil::Result {
    let _g = Guard::new(&sh, &name);
    let any = if sc.v6 { "::" } else { "0.0.0.0" };
    let f = sc.flags.clone();
    let lis = TcpListener::bind((any, V_TCP)).await;
    sh.binds.borrow_mut().push((name.clone(), inc, "tcp", lis.as_ref().err().map(|e| format!("{:?}", e.kind()))));
    let lis = lis?;
    if f.udp {
        let u = UdpSocket::bind((any, V_UDP)).await;
        sh.binds.borrow_mut().push((name.clone(), inc, "udp", u.as_ref().err().map(|e| format!("{:?}", e.kind()))));
        let u = u?;
        if f.multicast {
            let r = match group(sc.v6) {
                std::net::IpAddr::V4(a) => u.join_multicast_v4(a, std::net::Ipv4Addr::UNSPECIFIED),
                std::net::IpAddr::V6(a) => u.join_multicast_v6(&a, 0),
            };
            if let Err(e) = r {
                sh.errors.borrow_mut().push(format!("{name}: join {e}"));
            }
        }
        let (sh2, n2) = (sh.clone(), name.clone());
        tokio::task::spawn_local(async move {
            let _g = Guard::new(&sh2, &n2);
            let mut b = [0u8; 16];
            loop {
                if let Ok((n, _)) = u.recv_from(&mut b).await {
                    if n >= 4 {
                        let seq = u32::from_le_bytes(b[0..4].try_into().unwrap());
                        sh2.udp_recv.borrow_mut().push((n2.clone(), inc, seq, sh2.step.get()));
                    }
                    bump(&sh2, &n2);
                }
            }
        });
    }
    if f.bg_tasks {
        for _ in 0..2 {
            let (sh2, n2) = (sh.clone(), name.clone());
            tokio::task::spawn_local(async move {
                let _g = Guard::new(&sh2, &n2);
                // a nested task, spawned from a task
                let (sh3, n3) = (sh2.clone(), n2.clone());
                tokio::task::spawn_local(async move {
                    let _g = Guard::new(&sh3, &n3);
                    loop {
                        tokio::time::sleep(Duration::from_millis(2)).await;
                        bump(&sh3, &n3);
                    }
                });
                loop {
                    tokio::time::sleep(Duration::from_millis(1)).await;
                    bump(&sh2, &n2);
                }
            });
        }
    }
    if f.fs {
        let (sh2, n2) = (sh.clone(), name.clone());
        tokio::task::spawn_local(async move {
            let _g = Guard::new(&sh2, &n2);
            use turmoil::fs::shim::std::fs::OpenOptions;
            let mut off = 0u64;
            loop {
                if let Ok(fl) = OpenOptions::new().create(true).write(true).read(true).open("/victim.dat") {
                    let _ = fl.write_at(&[off as u8; 8], off);
                    if off % 24 == 0 {
                        let _ = fl.sync_all();
                    }
                    off += 8;
                }
                bump(&sh2, &n2);
                tokio::time::sleep(Duration::from_millis(1)).await;
            }
        });
    }
    if f.outgoing {
        let (sh2, n2) = (sh.clone(), name.clone());
        tokio::task::spawn_local(async move {
            let _g = Guard::new(&sh2, &n2);
            if let Ok(mut s) = TcpStream::connect(("p", P_TCP)).await {
                if f.outgoing_flood {
                    // hold the stream without ever reading: the peer's writer fills the window
                    std::future::pending::<()>().await;
                }
                let mut b = [0u8; 4];
                loop {
                    if s.write_all(&[1, 2, 3, 4]).await.is_err() {
                        break;
                    }
                    if s.read_exact(&mut b).await.is_err() {
                        break;
                    }
                    bump(&sh2, &n2);
                    tokio::time::sleep(Duration::from_millis(1)).await;
                }
            }
            std::future::pending::<()>().await;
        });
    }
    if f.accept {
        loop {
            let (mut s, _) = lis.accept().await?;
            bump(&sh, &name);
            let (sh2, n2, mode) = (sh.clone(), name.clone(), f.stream_mode);
            tokio::task::spawn_local(async move {
                let _g = Guard::new(&sh2, &n2);
                let mut b = [0u8; 16];
                // bytes read so far that do not yet make up a whole 16-byte segment
                let mut acc: Vec<u8> = Vec::new();
                match mode {
                    StreamMode::Echo => loop {
                        match s.read(&mut b).await {
                            Ok(0) | Err(_) => break,
                            Ok(n) => {
                                note_consumed(&sh2, &mut acc, &b[..n]);
                                if s.write_all(&b[..n]).await.is_err() {
                                    break;
                                }
                                bump(&sh2, &n2);
                            }
                        }
                    },
                    StreamMode::Sink => loop {
                        match s.read(&mut b).await {
                            Ok(0) | Err(_) => break,
                            Ok(n) => {
                                note_consumed(&sh2, &mut acc, &b[..n]);
                                bump(&sh2, &n2)
                            }
                        }
                    },
                    StreamMode::Nibble => {
                        // 5 bytes at a time; a read may or may not span two 16-byte segments
                        loop {
                            match s.read(&mut b[..5]).await {
                                Ok(0) | Err(_) => break,
                                Ok(n) => {
                                    note_consumed(&sh2, &mut acc, &b[..n]);
                                    bump(&sh2, &n2);
                                    tokio::time::sleep(Duration::from_millis(1)).await;
                                }
                            }
                        }
                    }
                    StreamMode::Idle => {}
                    StreamMode::Writer => loop {
                        if s.write_all(&[7u8; 8]).await.is_err() {
                            break;
                        }
                        bump(&sh2, &n2);
                        tokio::time::sleep(Duration::from_millis(2)).await;
                    },
                }
                std::future::pending::<()>().await;
                drop(s);
            });
        }
    } else {
        // never accepts: SYNs queue up at the listener
        let _keep = lis;
        std::future::pending().await
    }
}

async fn peer(sh: Rc<Shared>, sc: Scenario, nvict: usize) -> turmoil::Result {
    let any = if sc.v6 { "::" } else { "0.0.0.0" };
    let lis = TcpListener::bind((any, P_TCP)).await?;
    let (flood, sh_acc) = (sc.flags.outgoing && sc.flags.outgoing_flood, sh.clone());
    tokio::task::spawn_local(async move {
        let mut n_acc = 0usize;
        loop {
            let Ok((mut s, from)) = lis.accept().await else { break };
            n_acc += 1;
            if flood {
                let id = 1000 + n_acc;
                let v: usize = turmoil::reverse_lookup(from.ip()).and_then(|n| n[1..].parse().ok()).unwrap_or(0);
                let at = sh_acc.step.get();
                sh_acc.conns.borrow_mut().insert(id, ConnRec { victim: v, send_step: at, connected_step: Some(at), accept_side: true, ..Default::default() });
                let sh3 = sh_acc.clone();
                tokio::task::spawn_local(async move {
                    let mut n_w = 0u16;
                    loop {
                        sh3.conns.borrow_mut().get_mut(&id).unwrap().writer_blocked = true;
                        n_w = n_w.wrapping_add(1);
                        let res = s.write_all(&payload(0x80 | (n_acc as u8 & 0x7f), n_w)).await;
                        let at = sh3.step.get();
                        let mut g = sh3.conns.borrow_mut();
                        let c = g.get_mut(&id).unwrap();
                        c.writer_blocked = false;
                        if let Err(e) = res {
                            c.writer_end = Some((format!("{:?}", e.kind()), at));
                            break;
                        }
                        drop(g);
                        tokio::time::sleep(Duration::from_millis(1)).await;
                    }
                    std::future::pending::<()>().await;
                    drop(s);
                });
                continue;
            }
            tokio::task::spawn_local(async move {
                let mut b = [0u8; 4];
                loop {
                    if s.read_exact(&mut b).await.is_err() {
                        break;
                    }
                    if s.write_all(&b).await.is_err() {
                        break;
                    }
                }
            });
        }
    });
    if sc.flags.udp {
        let sh2 = sh.clone();
        let (run, mc, v6) = (sc.run_steps as u64, sc.flags.multicast, sc.v6);
        tokio::task::spawn_local(async move {
            let u = UdpSocket::bind((if v6 { "::" } else { "0.0.0.0" }, 9200)).await.unwrap();
            let mut seq = 0u32;
            let mut last = 0;
            loop {
                let k = sh2.step.get();
                if k != last && k <= run {
                    last = k;
                    for v in 0..nvict {
                        let _ = u.send_to(&seq.to_le_bytes(), (format!("v{v}").as_str(), V_UDP)).await;
                        sh2.udp_sent.borrow_mut().push((v, seq, k));
                        seq += 1;
                    }
                    if mc {
                        // multicast datagrams are numbered from 1_000_000 and fan out to all members
                        let ms = 1_000_000 + k as u32;
                        let _ = u.send_to(&ms.to_le_bytes(), (group(v6), V_UDP)).await;
                        for v in 0..nvict {
                            sh2.udp_sent.borrow_mut().push((v, ms, k));
                        }
                    }
                }
                tokio::time::sleep(Duration::from_millis(1)).await;
            }
        });
    }
    for (i, (st, kind, v)) in sc.conns.iter().cloned().enumerate() {
        let sh2 = sh.clone();
        let v = v % nvict;
        tokio::task::spawn_local(async move {
            while sh2.step.get() < st as u64 {
                tokio::time::sleep(Duration::from_millis(1)).await;
            }
            sh2.conns.borrow_mut().insert(i, ConnRec { victim: v, send_step: sh2.step.get(), ..Default::default() });
            match TcpStream::connect((format!("v{v}").as_str(), V_TCP)).await {
                Err(e) => {
                    let at = sh2.step.get();
                    sh2.conns.borrow_mut().get_mut(&i).unwrap().connect_err = Some((format!("{:?}", e.kind()), at));
                }
                Ok(s) => {
                    let at = sh2.step.get();
                    sh2.conns.borrow_mut().get_mut(&i).unwrap().connected_step = Some(at);
                    let (mut r, mut w) = s.into_split();
                    let do_read = matches!(kind, PeerKind::Reader | PeerKind::Both);
                    let do_write = matches!(kind, PeerKind::Writer | PeerKind::Both);
                    let sh3 = sh2.clone();
                    let wt = tokio::task::spawn_local(async move {
                        if !do_write {
                            return Some(w);
                        }
                        let mut n_w = 0u16;
                        loop {
                            sh3.conns.borrow_mut().get_mut(&i).unwrap().writer_blocked = true;
                            n_w = n_w.wrapping_add(1);
                            let res = w.write_all(&payload(i as u8 & 0x7f, n_w)).await;
                            let at = sh3.step.get();
                            let mut g = sh3.conns.borrow_mut();
                            let c = g.get_mut(&i).unwrap();
                            c.writer_blocked = false;
                            if let Err(e) = res {
                                c.writer_end = Some((format!("{:?}", e.kind()), at));
                                return None;
                            }
                            drop(g);
                            tokio::time::sleep(Duration::from_millis(1)).await;
                        }
                    });
                    if do_read {
                        let mut b = [0u8; 32];
                        loop {
                            sh2.conns.borrow_mut().get_mut(&i).unwrap().reader_blocked = true;
                            let res = r.read(&mut b).await;
                            let at = sh2.step.get();
                            let mut g = sh2.conns.borrow_mut();
                            let c = g.get_mut(&i).unwrap();
                            c.reader_blocked = false;
                            match res {
                                Ok(0) => {
                                    c.reader_end = Some(("EOF".into(), at));
                                    break;
                                }
                                Ok(_) => {}
                                Err(e) => {
                                    c.reader_end = Some((format!("{:?}", e.kind()), at));
                                    break;
                                }
                            }
                        }
                    }
                    // keep both halves until the end of the run
                    let _w = wt.await;
                    std::future::pending::<()>().await;
                    drop(r);
                }
            }
        });
    }
    std::future::pending().await
}

/// bystanders: never talk to the victims; their logs must equal a crash-free twin run
async fn bystander(sh: Rc<Shared>, me: usize, v6: bool) -> turmoil::Result {
    let name = format!("b{me}");
    let any = if v6 { "::" } else { "0.0.0.0" };
    let u = UdpSocket::bind((any, 9300)).await?;
    let other = format!("b{}", 1 - me);
    let log = |sh: &Shared, name: &str, s: String| sh.by_log.borrow_mut().entry(name.to_string()).or_default().push(s);
    use turmoil::fs::shim::std::fs::OpenOptions;
    let mut n = 0u32;
    let mut b = [0u8; 8];
    if me == 0 {
        let _ = u.send_to(&n.to_le_bytes(), (other.as_str(), 9300)).await;
    }
    loop {
        let (len, from) = u.recv_from(&mut b).await?;
        n = u32::from_le_bytes(b[0..4].try_into().unwrap()) + 1;
        log(&sh, &name, format!("step {} t {:?} recv {len} from {from} n {n}", sh.step.get(), turmoil::sim_elapsed()));
        if let Ok(f) = OpenOptions::new().create(true).write(true).read(true).open("/by.dat") {
            let _ = f.write_at(&n.to_le_bytes(), (n as u64 % 16) * 4);
            let mut rb = [0u8; 64];
            let got = f.read_at(&mut rb, 0).unwrap_or(0);
            log(&sh, &name, format!("file {:?}", &rb[..got]));
        }
        tokio::time::sleep(Duration::from_millis(1 + (n as u64 % 3))).await;
        let _ = u.send_to(&n.to_le_bytes(), (other.as_str(), 9300)).await;
    }
}

struct RunOut {
    sh: Rc<Shared>,
    /// per victim: list of (crash boundary, bounce boundary or None)
    downs: Vec<Vec<(u64, Option<u64>)>>,
    /// boundaries at which a victim was (re)started: incarnation n starts running at step starts_at[n]+1
    inc_start: Vec<Vec<u64>>,
    fail: Option<(String, String)>,
    phase_labels: Vec<String>,
    total: u64,
    /// (conn id, crash boundary): peer writers that were blocked at the crash instant
    writers_blocked_at_crash: Vec<(usize, u64)>,
    /// (conn id, victim, write number, step): data segments of the peer's writers handed to a
    /// victim's TCP stack (turmoil's "Delivered" trace event), in delivery order
    delivered: Vec<(usize, usize, u16, u64)>,
}

/// `TCP [0x1, 0xA, ..]` of a trace line -> the bytes
fn tcp_payload_of(e: &str) -> Option<Vec<u8>> {
    let a = e.find("protocol=TCP [")? + "protocol=TCP [".len();
    let z = a + e[a..].find(']')?;
    e[a..z].split(", ").map(|t| u8::from_str_radix(t.trim().trim_start_matches("0x"), 16).ok()).collect()
}

fn execute(sc: &Scenario, with_ctl: bool) -> RunOut {
    let tick = sc.tick_ms.max(1) as u64;
    let lat = sc.lat_ms.max(1) as u64;
    let nvict = nvict_of(sc);
    let lm = LinkModel::of(sc, nvict);
    let reg_order = reg_order_of(sc, nvict);
    // rank[v] = position of victim v in the registration order
    let mut rank = vec![0usize; nvict];
    for (pos, v) in reg_order.iter().enumerate() {
        rank[*v] = pos;
    }
    let sh = Rc::new(Shared::default());
    let mut b = turmoil::Builder::new();
    b.tick_duration(Duration::from_millis(tick))
        .min_message_latency(Duration::from_millis(lat))
        .max_message_latency(Duration::from_millis(lm.hi))
        .tcp_capacity(sc.capacity.max(1))
        .epoch(SystemTime::UNIX_EPOCH + Duration::from_secs(1))
        .rng_seed(sc.seed)
        .simulation_duration(Duration::from_secs(100_000));
    if sc.v6 {
        b.ip_version(turmoil::IpVersion::V6);
    }
    let mut sim = b.build();
    for me in 0..2 {
        let (sh2, v6) = (sh.clone(), sc.v6);
        sim.host(format!("b{me}"), move || bystander(sh2.clone(), me, v6));
    }
    {
        let (sh2, sc2) = (sh.clone(), sc.clone());
        sim.host("p", move || peer(sh2.clone(), sc2.clone(), nvict));
    }
    for v in reg_order.iter().cloned() {
        let (sh2, sc2) = (sh.clone(), sc.clone());
        let name = format!("v{v}");
        sim.host(name.clone(), move || {
            // the factory: counted synchronously, once per (re)start
            let inc = {
                let mut s = sh2.starts.borrow_mut();
                let e = s.entry(name.clone()).or_default();
                *e += 1;
                *e - 1
            };
            victim(sh2.clone(), name.clone(), inc, sc2.clone())
        });
    }
    // how a victim's address looks in front of the port in a trace line
    let victim_ips: Vec<String> = (0..nvict)
        .map(|v| match sim.lookup(format!("v{v}")) {
            std::net::IpAddr::V4(a) => a.to_string(),
            std::net::IpAddr::V6(a) => format!("[{a}]"),
        })
        .collect();
    if lm.random() {
        // per-message random latencies consume the simulation's RNG, and a crash changes how many
        // messages there are: keep the bystanders' own link out of it (needed for the twin comparison)
        sim.set_link_latency("b0", "b1", Duration::from_millis(lat));
    }
    let mut out = RunOut {
        sh: sh.clone(),
        downs: vec![Vec::new(); nvict],
        inc_start: vec![vec![0]; nvict],
        fail: None,
        phase_labels: Vec::new(),
        total: 0,
        writers_blocked_at_crash: Vec::new(),
        delivered: Vec::new(),
    };
    let settle = lm.max_ms().max(lat).div_ceil(tick) + 4;
    let total = sc.run_steps as u64 + 2 * settle;
    out.total = total;
    let mut down = vec![false; nvict];
    let mut frozen: Vec<u64> = vec![0; nvict];
    macro_rules! fail {
        ($sig:expr, $det:expr) => {{
            if out.fail.is_none() {
                out.fail = Some(($sig.to_string(), $det));
            }
        }};
    }
    let live_of = |v: usize| sh.live.borrow().get(&format!("v{v}")).copied().unwrap_or(0);
    let starts_of = |v: usize| sh.starts.borrow().get(&format!("v{v}")).copied().unwrap_or(0);
    for done in 0..total {
        for (at, v, ms) in sc.link_lat.iter() {
            if *at as u64 == done {
                sim.set_link_latency("p", format!("v{}", v % nvict), Duration::from_millis((*ms).max(1) as u64));
            }
        }
        if with_ctl {
            for (k, (at, c)) in sc.ctl.iter().enumerate() {
                if *at as u64 != done {
                    continue;
                }
                let (sel, by_name) = target_of(sc, k, nvict);
                let how = if by_name { format!("name v{}", sel[0]) } else { format!("regex {}", regex_for(&sel).as_str()) };
                // victims this call must leave alone: (victim, live guards, factory calls) before the call
                let others: Vec<(usize, i64, u64)> = (0..nvict).filter(|v| !sel.contains(v)).map(|v| (v, live_of(v), starts_of(v))).collect();
                // a victim that goes down now (crash of a running host, bounce of a running host):
                // record the protocol phase and the peer writers parked on it at this instant
                let going_down = |v: usize, out: &mut RunOut| {
                    let conns = sh.conns.borrow();
                    let est = conns.values().filter(|c| c.victim == v && c.connected_step.is_some() && c.reader_end.is_none()).count();
                    let pend = conns.values().filter(|c| c.victim == v && c.connected_step.is_none() && c.connect_err.is_none()).count();
                    if est > 0 {
                        out.phase_labels.push("phase:established-stream".into());
                    }
                    if pend > 0 {
                        out.phase_labels.push("phase:connect-pending".into());
                    }
                    for (ci, c) in conns.iter() {
                        if c.victim == v && c.writer_blocked && c.connected_step.is_some() && c.writer_end.is_none() {
                            out.phase_labels.push("phase:peer-writer-blocked".into());
                            out.writers_blocked_at_crash.push((*ci, done));
                        }
                    }
                    if est == 0 && pend == 0 {
                        out.phase_labels.push("phase:no-connection".into());
                    }
                };
                match c {
                    Ctl::Crash => {
                        for v in &sel {
                            if !down[*v] {
                                going_down(*v, &mut out);
                            }
                        }
                        // target classes
                        let n_down = sel.iter().filter(|v| down[**v]).count();
                        out.phase_labels.push(if by_name { "crash-target:name" } else if sel.len() == 1 { "crash-target:regex-one-host" } else { "crash-target:regex-several-hosts" }.into());
                        if n_down > 0 && n_down < sel.len() {
                            out.phase_labels.push("crash-target:some-matched-hosts-already-down".into());
                            let first_up = sel.iter().filter(|v| !down[**v]).map(|v| rank[*v]).min().unwrap();
                            let last_up = sel.iter().filter(|v| !down[**v]).map(|v| rank[*v]).max().unwrap();
                            let first_down = sel.iter().filter(|v| down[**v]).map(|v| rank[*v]).min().unwrap();
                            if first_down < last_up {
                                out.phase_labels.push("crash-target:down-host-registered-before-running-match".into());
                            }
                            if first_down > first_up {
                                out.phase_labels.push("crash-target:down-host-registered-after-running-match".into());
                            }
                        } else if n_down > 0 {
                            out.phase_labels.push("crash-target:all-matched-hosts-already-down".into());
                        }
                        if by_name {
                            sim.crash(format!("v{}", sel[0]));
                        } else {
                            sim.crash(regex_for(&sel));
                        }
                        for v in &sel {
                            let name = format!("v{v}");
                            let live = live_of(*v);
                            if live != 0 {
                                fail!(
                                    "tasks-not-dropped-when-crash-returns",
                                    format!("{name}: {live} task guards still alive after Sim::crash({how}) returned (crash after step {done}; registration order {reg_order:?}, down before the call {down:?})")
                                );
                            }
                            let counts = sim.verif_socket_counts(name.as_str());
                            if counts != (0, 0, 0, 0) {
                                fail!(
                                    "sockets-not-released-by-crash",
                                    format!("{name}: (udp binds, tcp listeners, tcp streams, multicast memberships) = {counts:?} after Sim::crash({how}) returned (crash after step {done})")
                                );
                            }
                            if !down[*v] {
                                down[*v] = true;
                                out.downs[*v].push((done, None));
                            }
                            frozen[*v] = sh.progress.borrow().get(&name).copied().unwrap_or(0);
                            if sim.is_host_running(name.as_str()) {
                                fail!("crashed-host-reported-running", format!("{name} after Sim::crash({how}); registration order {reg_order:?}"));
                            }
                        }
                    }
                    Ctl::Bounce => {
                        let starts_before: Vec<u64> = sel.iter().map(|v| starts_of(*v)).collect();
                        for v in &sel {
                            if !down[*v] {
                                going_down(*v, &mut out);
                            }
                        }
                        if by_name {
                            sim.bounce(format!("v{}", sel[0]));
                        } else {
                            sim.bounce(regex_for(&sel));
                        }
                        for (k, v) in sel.iter().enumerate() {
                            let name = format!("v{v}");
                            let st = starts_of(*v);
                            if st != starts_before[k] + 1 {
                                fail!("bounce-did-not-start-software-exactly-once", format!("{name}: factory calls {} -> {st} across one Sim::bounce({how})", starts_before[k]));
                            }
                            let live = live_of(*v);
                            if live != 0 {
                                fail!("old-tasks-alive-after-bounce", format!("{name}: {live} guards alive right after Sim::bounce({how}) returned"));
                            }
                            if down[*v] {
                                down[*v] = false;
                                out.downs[*v].last_mut().unwrap().1 = Some(done);
                            } else {
                                // bounce of a running host = crash + restart at the same boundary
                                out.downs[*v].push((done, Some(done)));
                            }
                            out.inc_start[*v].push(done);
                            if !sim.is_host_running(name.as_str()) {
                                fail!("bounced-host-not-running", format!("{name} after Sim::bounce({how})"));
                            }
                        }
                    }
                }
                // hosts the call did not address are left exactly as they were
                for (v, live_b, starts_b) in others {
                    let name = format!("v{v}");
                    if live_of(v) != live_b || starts_of(v) != starts_b {
                        fail!(
                            "crash-or-bounce-touched-a-host-it-did-not-address",
                            format!("{name}: live task guards {live_b} -> {}, factory calls {starts_b} -> {} across {c:?}({how})", live_of(v), starts_of(v))
                        );
                    }
                    if sim.is_host_running(name.as_str()) == down[v] {
                        fail!("crash-or-bounce-touched-a-host-it-did-not-address", format!("{name}: is_host_running = {} after {c:?}({how}) although the host was {}", down[v], if down[v] { "down" } else { "up" }));
                    }
                }
            }
        }
        let ev_before = trace::len();
        sh.step.set(done + 1);
        if let Err(e) = sim.step() {
            fail!("step-error", format!("{e}"));
            break;
        }
        let evs = trace::since(ev_before);
        for e in evs.iter() {
            if e.starts_with("Delivered") {
                if let Some(v) = (0..nvict).find(|v| e.contains(&format!("dst={}:", victim_ips[*v]))) {
                    if let Some(b) = tcp_payload_of(e).filter(|b| b.len() == 16) {
                        out.delivered.push((conn_of_byte(b[0]), v, u16::from_le_bytes([b[1], b[2]]), done + 1));
                    }
                }
            }
        }
        // a crashed host does nothing
        for v in 0..nvict {
            if down[v] {
                let name = format!("v{v}");
                let p = sh.progress.borrow().get(&name).copied().unwrap_or(0);
                if p != frozen[v] {
                    fail!("crashed-host-code-still-runs", format!("{name}: progress {} -> {p} during step {} while crashed", frozen[v], done + 1));
                }
                let live = live_of(v);
                if live != 0 {
                    fail!("crashed-host-has-live-tasks", format!("{name}: {live}"));
                }
                for e in evs.iter() {
                    if e.starts_with("Send") && e.contains(&format!("src={}:", victim_ips[v])) {
                        fail!("crashed-host-sent-a-message", format!("{name} during step {}: {e}", done + 1));
                    }
                }
            }
        }
        if out.fail.is_some() {
            break;
        }
    }
    out
}

pub fn run(sc: &Scenario) -> Outcome {
    let mut out = Outcome::ok();
    let tick = sc.tick_ms.max(1) as u64;
    let lat = sc.lat_ms.max(1) as u64;
    let _ = (tick, lat);
    let nvict = nvict_of(sc);
    let lm = LinkModel::of(sc, nvict);
    let (r, _events) = trace::capture(|| execute(sc, true));
    if let Some((sig, det)) = r.fail.clone() {
        out.fail(sig, det);
        return out;
    }
    let sh = &r.sh;
    if !sh.errors.borrow().is_empty() {
        out.fail("harness-io-error", format!("{:?}", sh.errors.borrow()));
        return out;
    }
    // victims that no crash / bounce of the scenario addresses
    let mut never_targeted = vec![true; nvict];
    for k in 0..sc.ctl.len() {
        for v in target_of(sc, k, nvict).0 {
            never_targeted[v] = false;
        }
    }
    // (6) factory calls
    for v in 0..nvict {
        let name = format!("v{v}");
        let want = r.inc_start[v].len() as u64;
        let got = sh.starts.borrow().get(&name).copied().unwrap_or(0);
        if got != want {
            out.fail("software-factory-call-count", format!("{name}: factory ran {got} times, expected 1 + {} bounces", want - 1));
            return out;
        }
    }
    // (5) every incarnation bound its fixed ports
    for (name, inc, what, err) in sh.binds.borrow().iter() {
        if let Some(e) = err {
            out.fail(format!("rebind-after-restart-failed:{what}"), format!("{name} incarnation {inc}: bind {what} -> {e}"));
            return out;
        }
    }
    // incarnations that ran at least 2 steps must have bound
    for v in 0..nvict {
        let name = format!("v{v}");
        for (n, st) in r.inc_start[v].iter().enumerate() {
            // downs[v][n] is the down-going that ended incarnation n (every bounce starts a new one)
            let end = r.downs[v].get(n).map(|d| d.0).unwrap_or(r.total);
            if end >= st + 2 {
                let bound = sh.binds.borrow().iter().any(|(h, i, w, e)| *h == name && *i == n as u64 && *w == "tcp" && e.is_none());
                if !bound {
                    out.fail("restarted-software-never-ran", format!("{name} incarnation {n} started at boundary {st}, not crashed before {end}, never bound its listener"));
                    return out;
                }
            }
        }
    }
    // helper: is delivery step j inside a downtime of victim v?  (crash boundary c, bounce boundary b): c < j <= b
    let in_down = |v: usize, j: u64| r.downs[v].iter().any(|(c, b)| j > *c && b.map(|b| j <= b).unwrap_or(true));
    let near_restart = |v: usize, j: u64| r.downs[v].iter().any(|(_, b)| b.map(|b| j == b + 1).unwrap_or(false));
    // datagrams
    let sent: BTreeMap<(usize, u32), u64> = sh.udp_sent.borrow().iter().map(|(v, s, k)| ((*v, *s), *k)).collect();
    let mut dgram_down = 0u64;
    for (name, inc, seq, step) in sh.udp_recv.borrow().iter() {
        let v: usize = name[1..].parse().unwrap();
        let Some(k) = sent.get(&(v, *seq)) else {
            out.fail("datagram-received-but-never-sent", format!("{name} seq {seq}"));
            return out;
        };
        if lm.random() {
            // the arrival step of a datagram is only known as a range: not asserted
            continue;
        }
        let j = lm.arrives_by(v, *k);
        if in_down(v, j) {
            out.fail(
                "datagram-that-arrived-during-downtime-was-handed-to-new-incarnation",
                format!("{name}: datagram {seq} sent at step {k} (arrives at step {j}) while the host was down {:?}; received by incarnation {inc} at step {step}", r.downs[v]),
            );
            return out;
        }
        // received by the incarnation alive at j
        let alive_inc = r.inc_start[v].iter().rposition(|st| *st < j).unwrap_or(0) as u64;
        if *inc != alive_inc && !near_restart(v, j) {
            out.fail("datagram-received-by-wrong-incarnation", format!("{name}: datagram {seq} arrives at step {j}, received by incarnation {inc}, alive then: {alive_inc}"));
            return out;
        }
    }
    let got_dgram: std::collections::BTreeSet<(usize, u32)> = sh.udp_recv.borrow().iter().map(|(n, _, s, _)| (n[1..].parse::<usize>().unwrap(), *s)).collect();
    let mut must_dgrams = 0u64;
    for ((v, seq), k) in sent.iter() {
        if lm.random() {
            break;
        }
        let j = lm.arrives_by(*v, *k);
        if in_down(*v, j) {
            dgram_down += 1;
            continue;
        }
        // must be received: the incarnation alive at the send has been up for >= 3 steps (socket
        // bound, group joined) and is not crashed before the datagram arrives (+2 steps of slack)
        let Some(n) = r.inc_start[*v].iter().rposition(|st| *st < *k) else { continue };
        let st = r.inc_start[*v][n];
        let next_crash = r.downs[*v].get(n).map(|d| d.0).unwrap_or(u64::MAX);
        if *k >= st + 4 && j + 2 <= next_crash && j + 2 <= r.total {
            must_dgrams += 1;
            if !got_dgram.contains(&(*v, *seq)) {
                let kind = if *seq >= 1_000_000 { "multicast" } else { "unicast" };
                out.fail(
                    format!("{kind}-datagram-to-running-host-lost"),
                    format!("v{v}: {kind} datagram {seq} sent at step {k} (arrives step {j}) was never received although the host's incarnation {n} ran from boundary {st} and was not crashed before step {next_crash}; downs of all victims {:?}", r.downs),
                );
                return out;
            }
        }
    }
    out.count("datagrams that had to be received", must_dgrams);
    // connections
    let mut unblocked_checked = 0u64;
    let (mut parked_writers, mut parked_writers_released, mut parked_writers_released_after_bounce) = (0u64, 0u64, 0u64);
    let (mut parked_unread, mut parked_unread_only_out_of_order, mut parked_unread_some_out_of_order) = (0u64, 0u64, 0u64);
    for (i, c) in sh.conns.borrow().iter() {
        let v = c.victim;
        // the SYN is delivered at the victim's turn in a step of j_lo..=j_hi (one step unless latencies are random)
        let (l_lo, l_hi) = lm.steps(v, c.send_step.saturating_sub(1));
        let (j_lo, j_hi) = (c.send_step + l_lo, c.send_step + l_hi);
        let j = j_hi;
        let crashes_after_send: Vec<(u64, Option<u64>)> = r.downs[v].iter().filter(|(cr, _)| *cr >= c.send_step).cloned().collect();
        // SYN matured while down: must never be accepted by the new incarnation
        if !c.accept_side && (j_lo..=j_hi).all(|j| in_down(v, j)) {
            if c.connected_step.is_some() {
                out.fail("connect-that-arrived-during-downtime-was-accepted", format!("conn {i} to v{v}: SYN sent step {}, arrives step {j}, downs {:?}: connected at {:?}", c.send_step, r.downs[v], c.connected_step));
                return out;
            }
            // after a bounce it must be resolved
            if let Some((_, Some(b))) = r.downs[v].iter().find(|(cr, b)| j > *cr && b.map(|b| j <= b).unwrap_or(true)) {
                // the first step the host actually runs again (it may be crashed again on the spot)
                let t_up = (b + 1..=r.total).find(|t| !in_down(v, *t));
                if t_up.map(|t| t + lm.steps(v, t - 1).1 + 3 <= r.total).unwrap_or(false) && c.connect_err.is_none() {
                    out.fail("connect-from-downtime-still-pending-after-bounce", format!("conn {i} to v{v}: SYN arrived step {j} during downtime, host bounced at boundary {b} and running again in step {t_up:?}, still pending at the end (step {})", r.total));
                    return out;
                }
            }
            continue;
        }
        // SYN delivered before a crash and not accepted by then: must be refused promptly
        if let Some((cr, _)) = crashes_after_send.first().filter(|_| !c.accept_side) {
            // an accepting victim may have accepted it in a step <= cr; the peer then notices at cr + 1 at the latest
            let accepted_before_crash = sc.flags.accept && c.connected_step.map(|s| s <= *cr + 1).unwrap_or(false);
            if j <= *cr && !accepted_before_crash {
                match (&c.connect_err, c.connected_step) {
                    (Some((kind, at)), _) => {
                        unblocked_checked += 1;
                        if kind != "ConnectionRefused" {
                            out.fail("queued-connect-failed-with-wrong-error", format!("conn {i}: {kind}"));
                            return out;
                        }
                        if *at > cr + 2 {
                            out.fail("queued-connect-not-refused-promptly", format!("conn {i} to v{v}: SYN queued since step {j}, crash after step {cr}, refused only at step {at}"));
                            return out;
                        }
                    }
                    (None, Some(s)) => {
                        out.fail("queued-connect-completed-after-crash", format!("conn {i} to v{v}: SYN queued at step {j}, crash after {cr}, connected at step {s}"));
                        return out;
                    }
                    (None, None) => {
                        out.fail("queued-connect-hangs-after-crash", format!("conn {i} to v{v}: SYN queued at the listener since step {j}, host crashed after step {cr}, connect still pending at step {}", r.total));
                        return out;
                    }
                }
                continue;
            }
        }
        // established before a crash: blocked reader / writer must be unblocked promptly
        if let (Some(cs), Some((cr, _))) = (c.connected_step, crashes_after_send.first()) {
            if cs <= *cr || (cs == *cr + 1 && j <= *cr) {
                // everything either side sent up to the crash instant (the FIN / RST of the crash
                // included) has arrived by step `flushed`
                let rst_by = cr + lm.steps(v, *cr).1;
                // (the accepting end may have written from the step in which the SYN arrived, one step
                // before the connector saw its connect return)
                let flushed = (j_lo.min(cs).min(*cr).max(1)..=*cr).map(|s| lm.arrives_by(v, s)).max().unwrap_or(0).max(rst_by);
                let deadline = flushed + 3;
                if deadline <= r.total {
                    // reader
                    if c.reader_end.is_none() && c.reader_blocked {
                        out.fail(
                            "peer-read-hangs-after-crash",
                            format!("conn {i} to v{v}: established at step {cs}, host crashed after step {cr}, peer's read still blocked at step {} (deadline {deadline})", r.total),
                        );
                        return out;
                    }
                    if let Some((what, at)) = &c.reader_end {
                        if *at > *cr {
                            unblocked_checked += 1;
                            if *at > deadline {
                                out.fail("peer-read-unblocked-too-late", format!("conn {i}: crash after {cr}, read ended with {what} at step {at} (deadline {deadline})"));
                                return out;
                            }
                            if !(what == "EOF" || what == "ConnectionReset") {
                                out.fail("peer-read-ended-with-unexpected-result", format!("conn {i}: {what}"));
                                return out;
                            }
                        }
                    }
                    // writer blocked on flow control at the crash instant
                    let parked_at_crash = r.writers_blocked_at_crash.iter().any(|(ci, b)| ci == i && b == cr);
                    if parked_at_crash {
                        parked_writers += 1;
                        // Did the victim hold unread data of this stream when it went down?  Unread =
                        // handed to the victim's TCP stack by step cr and not (completely) read by its
                        // application: queued for the reader, partly read, or parked in the reorder
                        // buffer because an earlier segment is still on the wire.  Then dropping the
                        // stream must reset the connection (and a reset releases a parked writer);
                        // without unread data the drop sends only a FIN.
                        let got: Vec<u16> = r.delivered.iter().filter(|(ci, dv, _, st)| ci == i && *dv == v && *st <= *cr).map(|d| d.2).collect();
                        let unread: Vec<u16> = got.iter().copied().filter(|w| !sh.consumed.borrow().contains(&(*i, *w))).collect();
                        // first write number the victim's stack has not got: everything above it is out of order
                        let in_order_end = (1u16..).find(|w| !got.contains(w)).unwrap();
                        let out_of_order = unread.iter().filter(|w| **w > in_order_end).count();
                        if !unread.is_empty() {
                            parked_unread += 1;
                            if out_of_order == unread.len() {
                                parked_unread_only_out_of_order += 1;
                            } else if out_of_order > 0 {
                                parked_unread_some_out_of_order += 1;
                            }
                        }
                        let rst_deadline = rst_by + 3;
                        // The segments that filled the window were all sent by step cr, so they have
                        // reached the victim's address by step `flushed` (+1 slack).  The first step
                        // from then on that the victim RUNS (it has been bounced) hands them to a stack
                        // that has no such connection, which must answer with a reset; that reaches
                        // the peer one latency later.
                        let t_up = (flushed + 1..=r.total).find(|t| !in_down(v, *t));
                        let reset_deadline = t_up.map(|t| t + lm.hi_steps_between(v, *cr, t) + 3).filter(|d| *d <= r.total);
                        let still_parked = c.writer_end.is_none() && c.writer_blocked;
                        if !unread.is_empty() && (still_parked || c.writer_end.as_ref().map(|e| e.1 > rst_deadline).unwrap_or(false)) {
                            let what = format!(
                                "conn {i} to v{v}: peer's write was blocked on flow control when the host went down after step {cr}; the victim's stack had been handed segments {got:?} of this stream by then, of which {unread:?} were not read by its application ({out_of_order} of them out of order, waiting in the reorder buffer for segment {in_order_end}), so dropping the stream had to send a RST (latency at that instant <= {} steps)",
                                lm.steps(v, *cr).1
                            );
                            if still_parked {
                                out.fail("peer-write-hangs-after-crash:victim-had-unread-data", format!("{what}; the write is still blocked at step {}", r.total));
                            } else {
                                out.fail(
                                    "peer-write-unblocked-too-late-after-crash:victim-had-unread-data",
                                    format!("{what}; the write ended only at step {} (deadline {rst_deadline}; downs {:?})", c.writer_end.as_ref().unwrap().1, r.downs[v]),
                                );
                            }
                            return out;
                        }
                        if still_parked {
                            if let Some(d) = reset_deadline {
                                // behind F-C04-2: the peer may (known finding) stay parked while the host
                                // is down, but not for ever: once the host is back its stack sees the
                                // stale segments and the peer must be released
                                out.fail(
                                    "peer-write-still-hangs-after-bounce:stale-segments-never-reset",
                                    format!(
                                        "conn {i} to v{v}: peer's write was blocked on flow control (window full, segments on the wire) when the host went down after step {cr}; downs {:?}; the host runs again from step {} on, the stale segments had arrived by then, yet the write is still blocked at step {} (deadline {d})",
                                        r.downs[v],
                                        t_up.unwrap(),
                                        r.total
                                    ),
                                );
                                return out;
                            } else if sc.strict_known || !is_known("F-C04-2") {
                                out.fail(
                                    "peer-write-hangs-after-crash:victim-had-no-unread-data",
                                    format!("conn {i} to v{v}: peer's write was blocked on flow control when the host crashed after step {cr} and is still blocked at step {} (victim had consumed everything delivered, so only a FIN was sent)", r.total),
                                );
                                return out;
                            } else {
                                out.exclude("F-C04-2");
                            }
                        } else if let Some((_, at)) = &c.writer_end {
                            if *at > *cr {
                                parked_writers_released += 1;
                                let bounced = r.downs[v].iter().find(|(c0, _)| c0 == cr).and_then(|d| d.1);
                                if bounced.map(|b| *at > b + 1).unwrap_or(false) && bounced != Some(*cr) {
                                    parked_writers_released_after_bounce += 1;
                                }
                            }
                        }
                    }
                }
            }
        }
        // connect aimed at a running, accepting incarnation far from any restart: must succeed
        if !c.accept_side && sc.flags.accept && crashes_after_send.is_empty() && (j_lo..=j_hi).all(|j| !near_restart(v, j) && !near_restart(v, j + 1)) {
            let started = r.inc_start[v].iter().rposition(|st| *st < j_lo).map(|n| r.inc_start[v][n]).unwrap_or(0);
            if j_lo >= started + 3 && (j_lo == j_hi || (j_lo..=j_hi).all(|j| !in_down(v, j))) && j + 3 <= r.total && c.connected_step.is_none() {
                out.fail("connect-to-restarted-host-failed", format!("conn {i} to v{v}: SYN arrives step {j}, incarnation started at boundary {started}: {:?}", c.connect_err));
                return out;
            }
        }
    }
    // (7) bystanders unaffected: compare with a crash-free twin
    let (twin, _) = trace::capture(|| execute(sc, false));
    if twin.fail.is_none() {
        for b in ["b0", "b1"] {
            let a = sh.by_log.borrow().get(b).cloned().unwrap_or_default();
            let t = twin.sh.by_log.borrow().get(b).cloned().unwrap_or_default();
            if a != t {
                let first = a.iter().zip(t.iter()).position(|(x, y)| x != y).unwrap_or(a.len().min(t.len()));
                out.fail(
                    "bystander-host-disturbed-by-crash",
                    format!("{b}: log differs from the crash-free twin at entry {first}: {:?} vs {:?} (lengths {} / {})", a.get(first), t.get(first), a.len(), t.len()),
                );
                return out;
            }
        }
        // the peer's own guards/clock are not affected either: its connections to the *other* victim
        // (with per-message random latencies the crash shifts the draws of every later message: no twin)
        if never_targeted.iter().any(|n| *n) && !lm.random() {
            for (i, c) in sh.conns.borrow().iter() {
                if never_targeted[c.victim] {
                    let t = twin.sh.conns.borrow().get(i).cloned();
                    if let Some(t) = t {
                        if t.connected_step != c.connected_step || t.reader_end != c.reader_end || t.connect_err != c.connect_err || t.writer_end != c.writer_end {
                            out.fail("other-host-connection-disturbed-by-crash", format!("conn {i} to v{} (never crashed or bounced): {c:?} vs twin {t:?}", c.victim));
                            return out;
                        }
                    }
                }
            }
        }
    }

    for l in r.phase_labels.iter() {
        out.label(l.clone());
    }
    let f = &sc.flags;
    for (on, l) in [
        (f.accept, "accepting"),
        (!f.accept, "never-accepts"),
        (f.bg_tasks, "bg-tasks"),
        (f.udp, "udp"),
        (f.multicast, "multicast"),
        (f.fs, "fs"),
        (f.outgoing, "outgoing-conn"),
        (nvict == 2, "two-victims"),
        (nvict == 3, "three-victims"),
        (never_targeted.iter().any(|n| *n), "a-victim-host-never-addressed"),
        (reg_order_of(sc, nvict) != (0..nvict).collect::<Vec<_>>(), "registration-order-permuted"),
        (f.by_regex, "regex-select"),
    ] {
        if on {
            out.label(l);
        }
    }
    out.label(format!("mode:{:?}", f.stream_mode));
    let ncrash = sc.ctl.iter().filter(|c| c.1 == Ctl::Crash).count();
    let nbounce = sc.ctl.iter().filter(|c| c.1 == Ctl::Bounce).count();
    if ncrash >= 2 {
        out.label("repeated-cycles");
    }
    if nbounce > ncrash {
        out.label("bounce-without-crash");
    }
    if dgram_down > 0 {
        out.label("datagrams-during-downtime");
    }
    out.count("peer connections checked for prompt unblocking/refusal", unblocked_checked);
    out.count("peer writers parked on flow control when the host went down", parked_writers);
    out.count("  of these released (write failed) later", parked_writers_released);
    out.count("  of these released only after the host was bounced (stale segments reset)", parked_writers_released_after_bounce);
    if parked_writers_released_after_bounce > 0 {
        out.label("parked-writer-reset-after-bounce");
    }
    out.count("  of these: the victim held unread data of the stream (RST required)", parked_unread);
    out.count("    of these: ALL of the unread data was out of order (reorder buffer only)", parked_unread_only_out_of_order);
    out.count("    of these: some of the unread data was out of order", parked_unread_some_out_of_order);
    if parked_unread > 0 {
        out.label("parked-writer:victim-held-unread-data");
    }
    if parked_unread_only_out_of_order > 0 {
        out.label("parked-writer:unread-data-only-in-reorder-buffer");
    }
    if parked_unread_some_out_of_order > 0 {
        out.label("parked-writer:unread-data-partly-out-of-order");
    }
    if lm.random() {
        out.label("latency:random-per-message");
    }
    if !sc.link_lat.is_empty() {
        out.label("latency:link-latency-changed-during-run");
    }
    {
        // a data segment of a peer writer overtook an earlier one of the same stream
        let mut top: BTreeMap<usize, u16> = BTreeMap::new();
        let mut overtaken = false;
        for (ci, _, w, _) in r.delivered.iter() {
            let t = top.entry(*ci).or_default();
            if *w < *t {
                overtaken = true;
            }
            *t = (*t).max(*w);
        }
        if overtaken {
            out.label("segments-delivered-out-of-order");
        }
    }
    out.nontrivial = r.phase_labels.iter().any(|l| l != "phase:no-connection") || (f.multicast && ncrash > 0) || (f.fs && ncrash > 0) || dgram_down > 0;
    out
}

fn flags_strategy() -> BoxedStrategy<Flags> {
    (
        prop_oneof![3 => Just(true), 1 => Just(false)],
        prop_oneof![Just(StreamMode::Echo), Just(StreamMode::Sink), Just(StreamMode::Idle), Just(StreamMode::Writer)],
        any::<bool>(),
        any::<bool>(),
        any::<bool>(),
        any::<bool>(),
        any::<bool>(),
        prop_oneof![2 => Just(false), 1 => Just(true)],
        any::<bool>(),
    )
        .prop_map(|(accept, stream_mode, bg_tasks, udp, multicast, fs, outgoing, two_victims, by_regex)| Flags {
            accept,
            stream_mode,
            bg_tasks,
            udp,
            multicast: multicast && udp,
            fs,
            outgoing,
            two_victims,
            by_regex,
            outgoing_flood: outgoing && (bg_tasks ^ fs),
        })
        .boxed()
}

fn target_strategy() -> BoxedStrategy<Target> {
    prop_oneof![
        // every victim with one regex
        2 => Just(Target { mask: 0b111, by_name: false }),
        // any non-empty subset: one victim by name or by regex, several victims by one regex
        4 => (1u8..8, any::<bool>()).prop_map(|(mask, by_name)| Target { mask, by_name }),
        // two of three victims
        2 => prop_oneof![Just(0b011u8), Just(0b101u8), Just(0b110u8)].prop_map(|mask| Target { mask, by_name: false }),
    ]
    .boxed()
}

/// Bring raw targets into canonical form for `nvict` victims and `n` actions.
fn normalise_targets(raw: &[Target], n: usize, nvict: usize) -> Vec<Target> {
    let all = ((1u16 << nvict) - 1) as u8;
    (0..n)
        .map(|k| {
            let t = raw.get(k).copied().unwrap_or(Target { mask: all, by_name: false });
            let mask = if t.mask & all == 0 { all } else { t.mask & all };
            Target { mask, by_name: t.by_name && mask.count_ones() == 1 }
        })
        .collect()
}

/// keep connection requests to one victim >= 4 steps apart (see the tcp_capacity note in `strategy`)
fn space_conns(conns: &mut Vec<(u32, PeerKind, usize)>, nv: usize) {
    conns.sort_by_key(|c| c.0);
    let mut last: BTreeMap<usize, u32> = BTreeMap::new();
    conns.retain(|(st, _, v)| {
        let ok = last.get(&(v % nv)).map(|l| *st >= l + 4).unwrap_or(true);
        if ok {
            last.insert(v % nv, *st);
        }
        ok
    });
}

fn ctl_strategy() -> BoxedStrategy<Vec<(u32, Ctl)>> {
    prop_oneof![
        3 => (1u32..45, 0u32..10).prop_map(|(i, d)| vec![(i, Ctl::Crash), (i + d, Ctl::Bounce)]),
        1 => (1u32..45).prop_map(|i| vec![(i, Ctl::Crash)]),
        1 => (1u32..45).prop_map(|i| vec![(i, Ctl::Bounce)]),
        2 => (1u32..25, 0u32..8, 1u32..15, 0u32..8).prop_map(|(i, d, e, g)| vec![(i, Ctl::Crash), (i + d, Ctl::Bounce), (i + d + e, Ctl::Crash), (i + d + e + g, Ctl::Bounce)]),
        2 => (1u32..45, 0u32..6).prop_map(|(i, d)| vec![(i, Ctl::Crash), (i + d, Ctl::Crash), (i + d + 2, Ctl::Bounce)]),
        // staggered crashes (overlapping target sets), one bounce, then more of the same
        3 => (1u32..30, 0u32..6, 0u32..6, 0u32..12, 1u32..10).prop_map(|(i, d, e, g, h)| vec![(i, Ctl::Crash), (i + d, Ctl::Crash), (i + d + e, Ctl::Crash), (i + d + e + g, Ctl::Bounce), (i + d + e + g + h, Ctl::Crash)]),
        // free histories
        4 => (1u32..30, proptest::collection::vec((0u32..8, prop_oneof![3 => Just(Ctl::Crash), 2 => Just(Ctl::Bounce)]), 2..=6)).prop_map(|(i, v)| {
            let mut at = i;
            v.into_iter()
                .map(|(gap, c)| {
                    at += gap;
                    (at, c)
                })
                .collect()
        }),
    ]
    .boxed()
}

/// `lo..=hi` changes of a peer <-> victim link's latency at boundaries 2..last: short (1-3 ms) and long
/// (6-20 ms) values, so that the latency drops while messages are on the wire (overtaking)
fn link_lat_strategy(lo: usize, hi: usize, last: u32) -> BoxedStrategy<Vec<(u32, usize, u32)>> {
    proptest::collection::vec((2u32..last, 0usize..MAX_VICT, prop_oneof![2 => 1u32..=3, 3 => 6u32..=20]), lo..=hi)
        .prop_map(|mut v| {
            v.sort_by_key(|c| c.0);
            v
        })
        .boxed()
}

pub fn strategy() -> BoxedStrategy<Scenario> {
    (
        (1u32..=3, 1u32..=6, prop_oneof![1 => 1usize..=3, 2 => Just(64usize)], any::<u64>(), any::<bool>()),
        flags_strategy(),
        proptest::collection::vec((1u32..40, prop_oneof![Just(PeerKind::Reader), Just(PeerKind::Writer), Just(PeerKind::Both), Just(PeerKind::Idle)], 0usize..MAX_VICT), 0..6),
        20u32..50,
        ctl_strategy(),
        (prop_oneof![2 => Just(1usize), 2 => Just(2usize), 4 => Just(3usize)], 0usize..6, proptest::collection::vec(target_strategy(), 6)),
        prop_oneof![2 => Just(Vec::new()), 1 => link_lat_strategy(1, 3, 44)],
    )
        .prop_map(|((tick_ms, lat_ms, capacity, seed, v6), mut flags, mut conns, run_steps, ctl, (nvict, perm, raw_targets), mut link_lat)| {
            flags.two_victims = nvict >= 2;
            if capacity < 8 {
                // a listener with more pending requests than tcp_capacity is a documented panic:
                // keep the victims accepting and the requests apart
                flags.accept = true;
                if nvict >= 2 {
                    flags.outgoing = false;
                    flags.outgoing_flood = false;
                }
                space_conns(&mut conns, nvict);
            }
            let targets = normalise_targets(&raw_targets, ctl.len(), nvict);
            flags.by_regex = targets.iter().any(|t| !t.by_name);
            if capacity < 8 {
                // connection requests sent apart could arrive together once the latency drops (see above)
                link_lat.clear();
            }
            for c in link_lat.iter_mut() {
                c.1 %= nvict;
            }
            Scenario { tick_ms, lat_ms, capacity, seed, v6, flags, conns, run_steps, ctl, strict_known: false, nvict, reg_order: nth_perm(nvict, perm), targets, lat_max_ms: 0, link_lat }
        })
        .boxed()
}

/// Histories around a peer writer that has used its whole send window: small tcp_capacity, a link
/// latency of several ticks (so the window is on the wire most of the time), a victim that reads
/// (or, dialling out, never reads), crash at any step, down for less / exactly / more than the
/// latency, bounce, and a run long enough for whatever answers the stale segments to come back.
pub fn strategy_parked() -> BoxedStrategy<Scenario> {
    (
        (1u32..=2, 2u32..=8, 1usize..=3, any::<u64>(), any::<bool>()),
        (prop_oneof![3 => Just(StreamMode::Sink), 3 => Just(StreamMode::Echo), 1 => Just(StreamMode::Idle), 1 => Just(StreamMode::Writer)], any::<bool>(), any::<bool>(), any::<bool>()),
        proptest::collection::vec((1u32..24, prop_oneof![3 => Just(PeerKind::Writer), 2 => Just(PeerKind::Both), 1 => Just(PeerKind::Reader)], 0usize..MAX_VICT), 1..5),
        40u32..70,
        prop_oneof![
            4 => (2u32..34, 0u32..16).prop_map(|(i, d)| vec![(i, Ctl::Crash), (i + d, Ctl::Bounce)]),
            1 => (2u32..34).prop_map(|i| vec![(i, Ctl::Bounce)]),
            2 => (2u32..24, 0u32..12, 1u32..12, 0u32..12).prop_map(|(i, d, e, g)| vec![(i, Ctl::Crash), (i + d, Ctl::Bounce), (i + d + e, Ctl::Crash), (i + d + e + g, Ctl::Bounce)]),
            1 => (2u32..30, 0u32..6, 0u32..12).prop_map(|(i, d, e)| vec![(i, Ctl::Crash), (i + d, Ctl::Crash), (i + d + e, Ctl::Bounce)]),
        ],
        (prop_oneof![3 => Just(1usize), 2 => Just(2usize), 1 => Just(3usize)], 0usize..6, proptest::collection::vec(target_strategy(), 4)),
    )
        .prop_map(|((tick_ms, lat_ms, capacity, seed, v6), (stream_mode, bg_tasks, udp, flood), mut conns, run_steps, ctl, (nvict, perm, raw_targets))| {
            let outgoing = flood && nvict == 1;
            let targets = normalise_targets(&raw_targets, ctl.len(), nvict);
            let flags = Flags {
                accept: true,
                stream_mode,
                bg_tasks,
                udp,
                multicast: false,
                fs: false,
                outgoing,
                two_victims: nvict >= 2,
                by_regex: targets.iter().any(|t| !t.by_name),
                outgoing_flood: outgoing,
            };
            space_conns(&mut conns, nvict);
            Scenario { tick_ms, lat_ms, capacity, seed, v6, flags, conns, run_steps, ctl, strict_known: false, nvict, reg_order: nth_perm(nvict, perm), targets, lat_max_ms: 0, link_lat: vec![] }
        })
        .boxed()
}

/// Histories in which the segments of one stream do not arrive in the order in which they were sent:
/// every message draws its own latency from a wide range, and / or the latency of a peer <-> victim link
/// is raised and lowered during the run; send windows of 2-4 segments (with 1 nothing can overtake), peers
/// that write continuously, victims that read everything at once, read slowly, or never read; crash at any
/// step, never bounced or bounced after 0-25 steps.  At the crash instant a victim then holds, in any mix,
/// segments its application has read, segments queued for it, and segments parked behind a gap.
pub fn strategy_reorder() -> BoxedStrategy<Scenario> {
    (
        (1u32..=2, 1u32..=3, prop_oneof![2 => Just(0u32), 3 => 4u32..=16], prop_oneof![3 => Just(2usize), 2 => Just(3usize), 1 => Just(4usize)], any::<u64>(), any::<bool>()),
        (prop_oneof![3 => Just(StreamMode::Sink), 3 => Just(StreamMode::Echo), 1 => Just(StreamMode::Idle), 2 => Just(StreamMode::Nibble)], any::<bool>(), any::<bool>(), any::<bool>()),
        proptest::collection::vec((1u32..20, prop_oneof![3 => Just(PeerKind::Writer), 2 => Just(PeerKind::Both), 1 => Just(PeerKind::Reader)], 0usize..MAX_VICT), 1..5),
        40u32..70,
        prop_oneof![
            3 => (4u32..40).prop_map(|i| vec![(i, Ctl::Crash)]),
            4 => (4u32..40, 0u32..26).prop_map(|(i, d)| vec![(i, Ctl::Crash), (i + d, Ctl::Bounce)]),
            1 => (4u32..40).prop_map(|i| vec![(i, Ctl::Bounce)]),
            2 => (4u32..24, 0u32..12, 1u32..16, 0u32..16).prop_map(|(i, d, e, g)| vec![(i, Ctl::Crash), (i + d, Ctl::Bounce), (i + d + e, Ctl::Crash), (i + d + e + g, Ctl::Bounce)]),
        ],
        (prop_oneof![3 => Just(1usize), 2 => Just(2usize), 1 => Just(3usize)], 0usize..6, proptest::collection::vec(target_strategy(), 4)),
        prop_oneof![1 => Just(Vec::new()), 2 => link_lat_strategy(1, 4, 40)],
    )
        .prop_map(|((tick_ms, lat_ms, extra, capacity, seed, v6), (stream_mode, bg_tasks, udp, flood), mut conns, run_steps, ctl, (nvict, perm, raw_targets), mut link_lat)| {
            let lat_max_ms = if extra > 0 || link_lat.is_empty() { lat_ms + extra.max(4) } else { 0 };
            let outgoing = flood && nvict == 1;
            let targets = normalise_targets(&raw_targets, ctl.len(), nvict);
            let flags = Flags {
                accept: true,
                stream_mode,
                bg_tasks,
                // datagram arrival steps are only asserted when they are exact
                udp: udp && lat_max_ms == 0,
                multicast: false,
                fs: false,
                outgoing,
                two_victims: nvict >= 2,
                by_regex: targets.iter().any(|t| !t.by_name),
                outgoing_flood: outgoing,
            };
            for c in link_lat.iter_mut() {
                c.1 %= nvict;
            }
            limit_conns_per_victim(&mut conns, nvict, capacity);
            Scenario { tick_ms, lat_ms, capacity, seed, v6, flags, conns, run_steps, ctl, strict_known: false, nvict, reg_order: nth_perm(nvict, perm), targets, lat_max_ms, link_lat }
        })
        .boxed()
}

/// A listener with more pending requests than tcp_capacity is a documented panic, and with varying
/// latencies requests sent apart can arrive in the same step: never more requests per victim than fit.
fn limit_conns_per_victim(conns: &mut Vec<(u32, PeerKind, usize)>, nv: usize, cap: usize) {
    conns.sort_by_key(|c| c.0);
    let mut n: BTreeMap<usize, usize> = BTreeMap::new();
    conns.retain(|(_, _, v)| {
        let e = n.entry(v % nv).or_default();
        *e += 1;
        *e <= cap
    });
}

/// One stream whose segments overtake each other: the peer <-> victim link is slowed down after step a
/// and made fast again g steps later (segments written in between are still on the wire when later ones
/// arrive), x victim mode x send window x a crash after each of the following steps, never bounced or
/// bounced once the slow segments have arrived.
fn reorder_window_space(tier: Tier) -> Vec<Scenario> {
    let thorough = tier == Tier::Thorough;
    let caps: Vec<usize> = if thorough { vec![2, 3, 4] } else { vec![2, 3] };
    let slows: Vec<u32> = if thorough { vec![5, 9, 14] } else { vec![6, 12] };
    let bases: Vec<u32> = if thorough { vec![1, 2] } else { vec![1] };
    let mut out = Vec::new();
    for cap in &caps {
        for slow in &slows {
            for base in &bases {
                for shape in 0..4 {
                    let (mode, conns) = match shape {
                        0 => (StreamMode::Sink, vec![(2, PeerKind::Writer, 0)]),
                        1 => (StreamMode::Echo, vec![(2, PeerKind::Both, 0)]),
                        2 => (StreamMode::Idle, vec![(2, PeerKind::Writer, 0)]),
                        _ => (StreamMode::Nibble, vec![(2, PeerKind::Writer, 0), (3, PeerKind::Both, 0)]),
                    };
                    let flags = Flags { accept: true, stream_mode: mode, bg_tasks: false, udp: false, multicast: false, fs: false, outgoing: false, two_victims: false, by_regex: false, outgoing_flood: false };
                    for a in 3u32..=10 {
                        for g in 1u32..=2 {
                            let offs: Vec<u32> = if thorough { (1..=slow + 1).collect() } else { vec![1, 2, 3, 5, slow - 1] };
                            for k in offs {
                                let crash = a + g + k;
                                let mut ctls = vec![vec![(crash, Ctl::Crash)]];
                                if thorough || (a + g + k) % 3 == 0 {
                                    ctls.push(vec![(crash, Ctl::Crash), (a + g + slow + 3, Ctl::Bounce)]);
                                }
                                for ctl in ctls {
                                    out.push(Scenario {
                                        tick_ms: 1,
                                        lat_ms: *base,
                                        capacity: *cap,
                                        seed: shape as u64,
                                        v6: (a + g) % 2 == 1,
                                        flags: flags.clone(),
                                        conns: conns.clone(),
                                        run_steps: 40,
                                        ctl,
                                        strict_known: false,
                                        nvict: 1,
                                        reg_order: vec![0],
                                        targets: vec![],
                                        lat_max_ms: 0,
                                        link_lat: vec![(a, 0, *slow), (a + g, 0, *base)],
                                    });
                                }
                            }
                        }
                    }
                }
            }
        }
    }
    out
}

/// Every registration order of three victims x every pair of crash target sets: crash(set 1), later
/// crash(set 2) (so that set 2 meets hosts that are already down at every position of the resolution
/// order), then one bounce of all three by regex (a mix of down and running hosts).
fn target_order_space(tier: Tier) -> Vec<Scenario> {
    let flags = Flags { accept: true, stream_mode: StreamMode::Echo, bg_tasks: true, udp: true, multicast: true, fs: false, outgoing: false, two_victims: true, by_regex: true, outgoing_flood: false };
    let conns = vec![(2, PeerKind::Both, 0), (3, PeerKind::Both, 1), (4, PeerKind::Reader, 2), (9, PeerKind::Writer, 1)];
    let timings: Vec<(u32, u32)> = if tier == Tier::Thorough { vec![(3, 0), (4, 2), (7, 0), (7, 1), (7, 4), (10, 1), (12, 6)] } else { vec![(4, 0), (7, 0), (7, 3), (10, 1)] };
    let mut out = Vec::new();
    for perm in 0..6usize {
        for m1 in 1u8..8 {
            for m2 in 1u8..8 {
                for (i, d) in &timings {
                    let by_name = (perm + m1 as usize + m2 as usize) % 2 == 0;
                    out.push(Scenario {
                        tick_ms: 1,
                        lat_ms: 2,
                        capacity: 64,
                        seed: perm as u64,
                        v6: (m1 + m2) % 2 == 1,
                        flags: flags.clone(),
                        conns: conns.clone(),
                        run_steps: 24,
                        ctl: vec![(*i, Ctl::Crash), (i + d, Ctl::Crash), (i + d + 4, Ctl::Bounce)],
                        strict_known: false,
                        nvict: 3,
                        reg_order: nth_perm(3, perm),
                        targets: normalise_targets(&[Target { mask: m1, by_name }, Target { mask: m2, by_name: !by_name }, Target { mask: 0b111, by_name: false }], 3, 3),
                        lat_max_ms: 0,
                        link_lat: vec![],
                    });
                }
            }
        }
    }
    out
}

/// A peer writer with a full send window: crash after every step x downtimes below, at and above the
/// link latency, for reading victims (window on the wire), and a dialling victim that never reads.
fn parked_writer_space(tier: Tier) -> Vec<Scenario> {
    let caps: Vec<usize> = if tier == Tier::Thorough { vec![1, 2, 3] } else { vec![1, 2] };
    let lats: Vec<u32> = if tier == Tier::Thorough { vec![2, 3, 4, 5, 7] } else { vec![2, 3, 5] };
    let mut out = Vec::new();
    for cap in &caps {
        for lat in &lats {
            for shape in 0..3 {
                let (mode, outgoing, conns) = match shape {
                    0 => (StreamMode::Sink, false, vec![(2, PeerKind::Writer, 0)]),
                    1 => (StreamMode::Echo, false, vec![(2, PeerKind::Both, 0), (7, PeerKind::Writer, 0)]),
                    _ => (StreamMode::Echo, true, vec![]),
                };
                let flags = Flags { accept: true, stream_mode: mode, bg_tasks: false, udp: false, multicast: false, fs: false, outgoing, two_victims: false, by_regex: false, outgoing_flood: outgoing };
                for i in 3u32..=22 {
                    for d in [0, 1, *lat, lat + 1, lat + 5] {
                        out.push(Scenario {
                            tick_ms: 1,
                            lat_ms: *lat,
                            capacity: *cap,
                            seed: shape as u64,
                            v6: false,
                            flags: flags.clone(),
                            conns: conns.clone(),
                            run_steps: 40,
                            ctl: vec![(i, Ctl::Crash), (i + d, Ctl::Bounce)],
                            strict_known: false,
                            nvict: 1,
                            reg_order: vec![0],
                            targets: vec![],
                            lat_max_ms: 0,
                            link_lat: vec![],
                        });
                    }
                }
            }
        }
    }
    out
}

/// Crash after every step of a set of small workloads, several downtimes.
fn exhaustive_space(tier: Tier) -> Vec<Scenario> {
    let base = |accept: bool, mode: StreamMode, bg, udp, mc, fs, outgoing, two, rx| Flags { accept, stream_mode: mode, bg_tasks: bg, udp, multicast: mc, fs, outgoing, two_victims: two, by_regex: rx, outgoing_flood: false };
    let mut workloads: Vec<(Flags, Vec<(u32, PeerKind, usize)>, usize)> = vec![
        (base(true, StreamMode::Echo, false, false, false, false, false, false, false), vec![(2, PeerKind::Both, 0)], 64),
        (base(true, StreamMode::Sink, true, true, false, false, false, false, false), vec![(3, PeerKind::Writer, 0), (9, PeerKind::Reader, 0)], 64),
        (base(false, StreamMode::Echo, false, false, false, false, false, false, false), vec![(2, PeerKind::Reader, 0), (8, PeerKind::Reader, 0), (14, PeerKind::Both, 0)], 64),
        (base(true, StreamMode::Idle, false, false, false, false, false, false, false), vec![(2, PeerKind::Writer, 0), (5, PeerKind::Both, 0)], 2),
        (base(true, StreamMode::Writer, true, false, false, true, false, false, false), vec![(4, PeerKind::Reader, 0), (6, PeerKind::Idle, 0)], 64),
        (base(true, StreamMode::Echo, false, true, true, false, true, false, false), vec![(3, PeerKind::Both, 0)], 64),
        (base(true, StreamMode::Echo, true, true, true, true, true, true, true), vec![(2, PeerKind::Both, 0), (3, PeerKind::Both, 1), (12, PeerKind::Reader, 1)], 64),
        (base(true, StreamMode::Sink, false, true, false, false, false, true, false), vec![(2, PeerKind::Writer, 0), (2, PeerKind::Writer, 1), (7, PeerKind::Reader, 1)], 64),
        (base(false, StreamMode::Echo, true, true, true, true, false, false, true), vec![(5, PeerKind::Reader, 0)], 64),
        (base(true, StreamMode::Idle, false, true, false, false, true, false, false), vec![(2, PeerKind::Both, 0), (10, PeerKind::Writer, 0)], 1),
        (base(true, StreamMode::Writer, false, false, false, false, false, false, false), vec![(2, PeerKind::Idle, 0), (4, PeerKind::Reader, 0)], 3),
        (base(true, StreamMode::Echo, false, false, false, true, true, false, false), vec![], 64),
        // the victim dials out and never reads; the peer's ACCEPTED stream floods it (parked writer on the accepting side)
        (Flags { outgoing_flood: true, ..base(true, StreamMode::Echo, false, false, false, false, true, false, false) }, vec![], 2),
        // two multicast members, only one of them is crashed: the other must keep receiving the group's traffic
        (base(true, StreamMode::Echo, false, true, true, false, false, true, false), vec![(3, PeerKind::Both, 1)], 64),
    ];
    if tier == Tier::Thorough {
        let extra: Vec<_> = workloads
            .iter()
            .map(|(f, c, cap)| {
                let mut f2 = f.clone();
                f2.bg_tasks = !f2.bg_tasks;
                f2.udp = true;
                f2.multicast = !f2.multicast;
                f2.fs = !f2.fs;
                (f2, c.iter().map(|(s, k, v)| (s + 1, *k, *v)).collect::<Vec<_>>(), *cap)
            })
            .collect();
        workloads.extend(extra);
    }
    let downtimes: Vec<u32> = if tier == Tier::Thorough { vec![0, 1, 2, 4, 7, 12] } else { vec![0, 2, 7] };
    let run_steps = 30u32;
    let mut out = Vec::new();
    for (wi, (flags, conns, cap)) in workloads.iter().enumerate() {
        for lat in [2u32, 1] {
            if lat == 1 && tier == Tier::Quick && wi % 3 != 0 {
                continue;
            }
            for i in 1..=(run_steps - 2) {
                for d in &downtimes {
                    out.push(Scenario {
                        tick_ms: 1,
                        lat_ms: lat,
                        capacity: *cap,
                        seed: wi as u64,
                        v6: wi % 2 == 1,
                        flags: flags.clone(),
                        conns: conns.clone(),
                        run_steps,
                        ctl: vec![(i, Ctl::Crash), (i + d, Ctl::Bounce)],
                        strict_known: false,
                        nvict: 0,
                        reg_order: vec![],
                        targets: vec![],
                        lat_max_ms: 0,
                        link_lat: vec![],
                    });
                }
                if tier == Tier::Thorough {
                    // two cycles, and bounce without crash
                    out.push(Scenario { tick_ms: 1, lat_ms: lat, capacity: *cap, seed: wi as u64, v6: wi % 2 == 1, flags: flags.clone(), conns: conns.clone(), run_steps, ctl: vec![(i, Ctl::Crash), (i + 2, Ctl::Bounce), (i + 6, Ctl::Crash), (i + 7, Ctl::Bounce)], strict_known: false, nvict: 0, reg_order: vec![], targets: vec![], lat_max_ms: 0, link_lat: vec![] });
                }
                if i % 3 == 0 {
                    out.push(Scenario { tick_ms: 1, lat_ms: lat, capacity: *cap, seed: wi as u64, v6: wi % 2 == 1, flags: flags.clone(), conns: conns.clone(), run_steps, ctl: vec![(i, Ctl::Bounce)], strict_known: false, nvict: 0, reg_order: vec![], targets: vec![], lat_max_ms: 0, link_lat: vec![] });
                }
            }
        }
    }
    out
}

/// Clamp a structurally decoded scenario into the generator's domain (fuzz tier).
pub fn fuzz_sanitize(sc: &mut Scenario) -> bool {
    sc.tick_ms = 1 + sc.tick_ms % 3;
    sc.lat_ms = 1 + sc.lat_ms % 8;
    sc.capacity = if sc.capacity % 4 == 0 { 64 } else { sc.capacity % 4 };
    sc.strict_known = false;
    sc.run_steps = 20 + sc.run_steps % 50;
    sc.nvict = 1 + sc.nvict % MAX_VICT;
    let nv = sc.nvict;
    sc.flags.two_victims = nv >= 2;
    sc.reg_order = reg_order_of(sc, nv);
    sc.flags.multicast &= sc.flags.udp;
    sc.flags.outgoing_flood &= sc.flags.outgoing;
    sc.conns.truncate(5);
    for c in sc.conns.iter_mut() {
        c.0 = 1 + c.0 % 39;
        c.2 %= nv;
    }
    if sc.capacity < 8 {
        sc.flags.accept = true;
        if nv >= 2 {
            sc.flags.outgoing = false;
            sc.flags.outgoing_flood = false;
        }
        space_conns(&mut sc.conns, nv);
    }
    sc.ctl.truncate(6);
    let mut at = 0u32;
    for c in sc.ctl.iter_mut() {
        at += 1 + c.0 % 12;
        c.0 = at.min(68);
    }
    sc.targets = normalise_targets(&sc.targets, sc.ctl.len(), nv);
    sc.flags.by_regex = sc.targets.iter().any(|t| !t.by_name);
    // latencies: fixed, or a range of up to 16 ms above the minimum; up to 4 changes of a link's latency
    sc.lat_max_ms = if sc.lat_max_ms % 3 == 0 { 0 } else { sc.lat_ms + 4 + sc.lat_max_ms % 13 };
    sc.link_lat.truncate(4);
    for c in sc.link_lat.iter_mut() {
        c.0 = 2 + c.0 % 58;
        c.1 %= nv;
        c.2 = 1 + c.2 % 20;
    }
    sc.link_lat.sort_by_key(|c| c.0);
    if sc.lat_max_ms > 0 {
        // datagram arrival steps are only asserted when they are exact
        sc.flags.udp = false;
        sc.flags.multicast = false;
    }
    if sc.lat_max_ms > 0 || !sc.link_lat.is_empty() {
        // requests sent apart can arrive together: never more of them per victim than tcp_capacity
        if sc.capacity < 8 {
            limit_conns_per_victim(&mut sc.conns, nv, sc.capacity);
        }
    }
    !sc.ctl.is_empty()
}

fn check(tier: Tier, seed: u64) -> i32 {
    let ctx = Ctx::new("C04", tier, seed, "fault_enumeration");
    ctx.replay_corpus(&replay);
    let space = exhaustive_space(tier);
    let desc = format!(
        "{} scenarios: for each of {} workloads (listening only / never accepting with queued SYNs / echo, sink, idle (unread data) and writer streams / background tasks / UDP + multicast / fs activity / outgoing connection / two victims by regex) x latencies, a crash injected after EVERY step 1..28 followed by a bounce after each listed downtime, plus bounce-without-crash at every third step{}",
        space.len(),
        tier.pick(14, 28),
        if tier == Tier::Thorough { " and a second crash/bounce cycle" } else { "" }
    );
    ctx.exhaustive("crash-at-every-step", &desc, Box::new(space.into_iter()), &run);
    let space = target_order_space(tier);
    let desc = format!(
        "{} scenarios: three victims in each of the 6 registration orders x every pair (A, B) of the 7 non-empty victim subsets x {} timings: Sim::crash(A), then Sim::crash(B), then Sim::bounce(all three by one regex); a subset of one host is addressed by name or by regex, larger ones by one regex, so B meets already-crashed hosts at every position of its resolution order",
        space.len(),
        tier.pick(4, 7)
    );
    ctx.exhaustive("crash-target-orders", &desc, Box::new(space.into_iter()), &run);
    let space = parked_writer_space(tier);
    let desc = format!(
        "{} scenarios: tcp_capacity x latency x (sink victim + writer peer / echo victim + two peers / dialling victim that never reads + flooding acceptor), a crash after EVERY step 3..22, bounce after 0, 1, latency, latency + 1 and latency + 5 steps, 40 + settle steps in all",
        space.len()
    );
    ctx.exhaustive("parked-writer-downtimes", &desc, Box::new(space.into_iter()), &run);
    let space = reorder_window_space(tier);
    let desc = format!(
        "{} scenarios: one stream (sink / echo / never-reading / slowly reading victim) with a send window of {} segments; the peer <-> victim link is slowed to {} ms after step a = 3..10 and made fast again 1 or 2 steps later, so later segments overtake the ones written in between; a crash after {} of the steps that follow, never bounced or bounced once the slow segments have arrived",
        space.len(),
        tier.pick("2-3", "2-4"),
        tier.pick("6 / 12", "5 / 9 / 14"),
        tier.pick("5", "each")
    );
    ctx.exhaustive("reordered-stream-crash-window", &desc, Box::new(space.into_iter()), &run);
    ctx.random("random", tier.pick(4000, 50_000), &|| strategy(), &run);
    ctx.random("random-parked-writers", tier.pick(3000, 40_000), &|| strategy_parked(), &run);
    ctx.random("random-reordering", tier.pick(3000, 40_000), &|| strategy_reorder(), &run);
    ctx.finish(
        "fault enumeration: crash after every step of small workloads x downtimes, every registration order x pair of crash target sets for three victims, crash at every step x downtime around a peer writer with a full send window, crash at every step of the window in which segments of one stream have overtaken each other (see exhaustive_subspaces), plus random workloads/schedules (1-3 victims registered in any order, flags for accept loop, stream mode, background tasks, UDP, multicast, fs, outgoing connection; 0-5 peer connections of reader/writer/both/idle kind; histories of 1-6 crash / bounce calls, each with its own target: one victim by name, one victim by regex, any subset of the victims by one regex - so calls meet hosts that are already down or still up in every mix; repeated cycles, double crash, bounce without crash; tcp_capacity 1-3 or 64, with tcp_capacity 64 in a third of the cases 1-3 changes of a peer<->victim link's latency (1-3 / 6-20 ms) during the run; sub 'random-parked-writers': tcp_capacity 1-3, latency 2-8 ms, reading victims, writer peers, downtimes 0-15 steps; sub 'random-reordering': tcp_capacity 2-4, per-message latencies drawn from a range 4-16 ms wide and / or 1-4 changes of a link's latency, so that segments of a stream overtake each other, victims that read at once / 5 bytes at a time with pauses / never, writer peers, crash never bounced or bounced after 0-25 steps). Every segment a peer writes carries its stream and write number; the harness records which of them the victim's TCP stack was handed (turmoil's Delivered trace event) and which the victim's application read completely. Oracle: when Sim::crash returns, EVERY addressed victim has no live task guard, empty UDP/TCP/multicast tables (hook H1) and is_host_running false, and every victim that was not addressed has the same guards, factory-call count and running state as before; while down its progress counters are frozen and it emits no Send event; peers blocked on established streams or with a SYN queued at the victim are unblocked with EOF/ConnectionReset/ConnectionRefused within latency + 3 steps; a peer writer that was parked on flow control when the host went down while the victim held UNREAD data of that stream (handed to its stack and not completely read by its application: queued, partly read, or waiting in the reorder buffer behind a segment still on the wire) must fail its write within (latency in force at the crash) + 3 steps, bounce or no bounce; one that was parked while the victim held no unread data and is not released by the crash itself (known finding F-C04-2 while it is listed as known) must be released within latency + 3 steps of the first step the host runs again after the window's segments have arrived; connects and datagrams that arrive during the downtime never reach the new incarnation; each bounce calls the software factory of each addressed victim exactly once and the new incarnation re-binds its fixed TCP and UDP ports and accepts again; bystander hosts' logs and the peer's connections to never-addressed victims equal a crash-free twin run. Non-trivial = at a crash the victim had an established stream, a pending connect or a blocked peer writer, or multicast/fs activity, or datagrams arrived during the downtime. Distinct by scenario hash.",
        &[
            "latency >= 1 ms, fail_rate 0, no partitions; fixed host order (bystanders, peer, then the victims in the generated order; needed for the twin comparison)",
            "arrival steps are computed from the latency configuration the harness itself set (a message keeps the latency in force when it was sent); where latencies are drawn per message they are only known as ranges: clauses that need the exact arrival step of a connection request are then applied only when every step of the range gives the same verdict, datagram clauses and the twin comparison of the peer's connections to never-addressed victims are skipped, UDP is off, and the bystanders' own link is pinned to the fixed latency",
            "never more connection requests per victim than tcp_capacity when latencies vary (requests sent apart can arrive in the same step; overflowing a listener's queue is a documented panic)",
            "victims' main futures never return (hosts whose software finished are outside the claim)",
            "events that arrive in the very first step of a new incarnation are not asserted either way",
            "a peer writer parked on a host that is down and never bounced (or bounced too late in the run to see the answer) is not asserted while F-C04-2 is known",
        ],
    )
}

fn replay(_sub: &str, v: &Value) -> Result<Outcome, String> {
    replay_as::<Scenario>(v, &run)
}

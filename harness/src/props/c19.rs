//! C19 — rule chains decide each packet by first match and delays are
//! honoured in order.  DESIGN.md §6 C19 (NetWire-style primitive harness +
//! the built-in fixtures).
//!
//! One scenario = a set of table-driven rules, per-host *actor* scripts
//! (install / drop / forget guards, tagged UDP sends to a peer, to loopback,
//! to the host's own address and to an unrouted address, small TCP
//! transfers, sleeps) and — in the primitive mode — scheduler-side actions
//! placed between individual `evaluate` calls.  It runs in one of three modes:
//!
//! * `Prim`          the harness owns `Net::enter` and is the scheduler:
//!                   `egress_all` → `evaluate` → `deliver`; rules come from
//!                   `Net::rule` (permanent), `EnterGuard::rule` (scheduler
//!                   side) and `turmoil_net::rule` (tasks).  First-match half.
//! * `ClientServer`  the same actor scripts inside `fixture::ClientServer`
//!                   (rules can only come from tasks there — the fixture owns
//!                   the `Net`).  First-match half + timing half.
//! * `Lo`            `fixture::lo`: loopback only, plus sends to an unrouted
//!                   address (those *do* leave the host and are shown to rules).
//!
//! Everything that happens is appended to one execution-ordered log (`Rec`),
//! including every rule invocation (logged by the rule closure itself with the
//! packet it was shown).  The oracle is a single model pass over that log: it
//! keeps the chain (install order, idempotent uninstall), derives for every
//! evaluation the expected invocation prefix and verdict from the tables, and
//! — in the fixtures — the delivery window of every datagram.
//!
//! Facts taken from the crate docs (rule.rs, README "Rules", fixture/*.rs):
//! all three install points feed one ordered chain; `RuleGuard::forget` (and
//! therefore `mem::forget`) leaves the rule installed; uninstalling twice is a
//! no-op; loopback is folded inside `Kernel::egress`.
//!
//! Traffic that stays on its host.  rule.rs / lib.rs / README say rules see
//! "each non-loopback packet *leaving a host*"; `Kernel::egress` is documented
//! to append to `out` only "those [packets] leaving this host" and
//! `Kernel::is_local` to be true for "one of this host's local addresses
//! (including implicit loopback)".  A packet a host addresses to one of its
//! OWN configured addresses (literal v4 / v6, or the hostname it was
//! registered under) therefore never leaves the host: it must not surface in
//! `egress_all`, must not be shown to any rule and must arrive whatever the
//! installed rules say — exactly like 127.0.0.1 / ::1 / "localhost" traffic.
//! Both are asserted (signatures `loopback: ..` and `own-address: ..`).

use crate::engine::{replay_as, Ctx, Outcome, Tier};
use proptest::prelude::*;
use serde::{Deserialize, Serialize};
use serde_json::Value;
use std::cell::{Cell, RefCell};
use std::collections::{BTreeMap, BTreeSet};
use std::future::Future;
use std::net::{IpAddr, Ipv4Addr, Ipv6Addr, SocketAddr};
use std::pin::Pin;
use std::rc::Rc;
use std::sync::atomic::{AtomicBool, Ordering};
use std::sync::Arc;
use std::task::{Context, Poll, Wake, Waker};
use std::time::Duration;
use tokio::io::{AsyncReadExt, AsyncWriteExt};
use turmoil_net::shim::tokio::net::{TcpListener, TcpStream, UdpSocket};
use turmoil_net::{EnterGuard, HostId, Net, Packet, RuleGuard, RuleId, Transport, Verdict};

pub const PROP: super::Prop = super::Prop { id: "C19", level: "exploration", check, replay };

/// The fixtures' tick (`fixture::TICK`, 1 ms), in microseconds.
const TICK: u64 = 1000;
const NCLASS: usize = 8;
const UDP_PORT: u16 = 5000;
const TCP_PORT: u16 = 6000;
const TCP_TIMEOUT_TICKS: u64 = 24;

// ---------------------------------------------------------------- scenario

#[derive(Clone, Copy, Debug, PartialEq, Eq, Serialize, Deserialize)]
pub enum Mode {
    Prim,
    ClientServer,
    Lo,
}

/// Table entry: what a rule says about a packet class.
#[derive(Clone, Copy, Debug, PartialEq, Eq, Serialize, Deserialize)]
pub enum V {
    Pass,
    Drop,
    /// `Verdict::Deliver(d)`, d in microseconds
    Del(u32),
}

impl V {
    fn verdict(self) -> Verdict {
        match self {
            V::Pass => Verdict::Pass,
            V::Drop => Verdict::Drop,
            V::Del(us) => Verdict::Deliver(Duration::from_micros(us as u64)),
        }
    }
    fn of(v: Verdict) -> (V, bool) {
        match v {
            Verdict::Pass => (V::Pass, true),
            Verdict::Drop => (V::Drop, true),
            Verdict::Deliver(d) => {
                let us = d.as_micros();
                (V::Del(us as u32), d.subsec_nanos() % 1000 == 0 && us <= u32::MAX as u128)
            }
        }
    }
}

#[derive(Clone, Debug, Serialize, Deserialize)]
pub struct RuleSpec {
    /// verdict per packet class (class = tag % NCLASS)
    pub table: Vec<V>,
    /// the rule keeps a counter (`&mut self` state): entry = table[(class + #earlier invocations) % len]
    pub stateful: bool,
}

#[derive(Clone, Copy, Debug, PartialEq, Eq, Serialize, Deserialize)]
pub enum Dest {
    /// the k-th *other* host
    Peer(u8),
    /// 127.0.0.1 / ::1
    Loopback,
    /// the sending host's own configured address
    Own,
    /// an address no host owns
    Nowhere,
    /// the sending host's own address, named by the hostname the host was registered under
    /// (resolved by the shim's `ToSocketAddrs`; the name table allocates IPv4 addresses)
    OwnName,
    /// loopback named as "localhost"
    LoName,
}

#[derive(Clone, Debug, Serialize, Deserialize)]
pub enum Op {
    /// `turmoil_net::rule(..)` from this task
    Install(u8),
    DropGuard(u8),
    /// `RuleGuard::forget`
    Forget(u8),
    /// `std::mem::forget(guard)`
    MemForget(u8),
    /// drop a second guard made with `RuleGuard::new(id)` (uninstalls if still installed, else no-op)
    DropAgain(u8),
    Udp { dst: Dest, port: u8, class: u8, v6: bool },
    Tcp { dst: Dest, len: u16, v6: bool },
    Sleep(u8),
}

#[derive(Clone, Debug, Serialize, Deserialize)]
pub struct Actor {
    pub host: u8,
    pub ops: Vec<Op>,
}

#[derive(Clone, Debug, Serialize, Deserialize)]
pub enum SAct {
    /// `EnterGuard::rule(..)`
    Install(u8),
    DropGuard(u8),
    Forget(u8),
    MemForget(u8),
    DropAgain(u8),
}

/// Scheduler-side action (primitive mode only): in round `round`, before the
/// egress (`pos == 0`) or right after the `pos`-th `evaluate` of that round.
#[derive(Clone, Debug, Serialize, Deserialize)]
pub struct SchedAct {
    pub round: u8,
    pub pos: u8,
    pub act: SAct,
}

#[derive(Clone, Debug, Serialize, Deserialize)]
pub struct Scenario {
    pub mode: Mode,
    pub nhosts: u8,
    pub rules: Vec<RuleSpec>,
    /// primitive mode: rules installed with `Net::rule` before `enter`, in this order
    pub permanent: Vec<u8>,
    pub actors: Vec<Actor>,
    pub sched: Vec<SchedAct>,
    /// primitive mode: guards still held at the end are dropped only after the `Net` is gone
    pub late_guard_drop: bool,
}

// ---------------------------------------------------------------- log

/// What a rule (or the harness) saw of a packet: public fields only.
#[derive(Clone, Debug, PartialEq, Eq, Serialize)]
pub struct PKey {
    pub src: IpAddr,
    pub dst: IpAddr,
    pub sport: u16,
    pub dport: u16,
    pub udp: bool,
    /// UDP: first four payload bytes; TCP: a mix of seq/ack/flags/len
    pub tag: u32,
    pub seq: u32,
    pub ack: u32,
    pub flags: u8,
    pub len: u32,
}

fn key_of(p: &Packet) -> PKey {
    match &p.payload {
        Transport::Udp(d) => {
            let tag = if d.payload.len() >= 4 { u32::from_le_bytes([d.payload[0], d.payload[1], d.payload[2], d.payload[3]]) } else { 0 };
            PKey { src: p.src, dst: p.dst, sport: d.src_port, dport: d.dst_port, udp: true, tag, seq: 0, ack: 0, flags: 0, len: d.payload.len() as u32 }
        }
        Transport::Tcp(s) => {
            let f = s.flags;
            let flags = (f.syn as u8) | (f.ack as u8) << 1 | (f.fin as u8) << 2 | (f.rst as u8) << 3 | (f.psh as u8) << 4 | (f.urg as u8) << 5;
            let len = s.payload.len() as u32;
            let tag = (s.seq ^ (s.seq >> 16)).wrapping_add(s.ack ^ (s.ack >> 16)).wrapping_add(flags as u32 * 5).wrapping_add(len);
            PKey { src: p.src, dst: p.dst, sport: s.src_port, dport: s.dst_port, udp: false, tag, seq: s.seq, ack: s.ack, flags, len }
        }
    }
}

fn class_of(k: &PKey) -> usize {
    k.tag as usize % NCLASS
}

/// Destination kind of a send, resolved.
#[derive(Clone, Copy, Debug, PartialEq, Eq, Serialize)]
pub enum DK {
    Remote(usize),
    Loop,
    Own,
    Nowhere,
}

#[derive(Clone, Debug, Serialize)]
pub enum Ev {
    Install { rule: usize, via: &'static str },
    /// a guard (or an alias guard) of this rule was dropped
    Uninstall { rule: usize, alias: bool },
    Forgot { rule: usize, mem: bool },
    Sent { tag: u32, src: usize, actor: usize, dst: DK, port: u8, v6: bool, ok: bool },
    /// logged by the rule closure itself
    Inv { rule: usize, key: PKey, said: V },
    /// primitive mode: the harness is about to call / has called `evaluate`
    EvalBegin { key: PKey },
    EvalEnd { got: V, exact: bool },
    Recv { host: usize, port: u8, v6: bool, tag: u32 },
    Tcp { host: usize, dst: DK, outcome: String },
    Served { host: usize, bytes: usize },
    Sanity(String),
    /// classification only
    Note(&'static str),
}

#[derive(Clone, Debug, Serialize)]
pub struct Rec {
    /// microseconds since the start of the run (fixtures: paused tokio clock; primitive: round * TICK)
    pub t: u64,
    pub ev: Ev,
}

// ---------------------------------------------------------------- shared run state

struct Env {
    mode: Mode,
    n: usize,
    rules: Vec<RuleSpec>,
    t0: Cell<Option<tokio::time::Instant>>,
    round: Cell<u64>,
    timers: RefCell<Vec<(u64, Waker)>>,
    log: RefCell<Vec<Rec>>,
    guards: RefCell<Vec<Option<RuleGuard>>>,
    ids: RefCell<Vec<Option<RuleId>>>,
    installed: RefCell<Vec<bool>>,
    next_tag: Cell<u32>,
}

impl Env {
    fn new(sc: &Scenario) -> Rc<Env> {
        let k = sc.rules.len();
        Rc::new(Env {
            mode: sc.mode,
            n: nhosts(sc),
            rules: sc.rules.clone(),
            t0: Cell::new(None),
            round: Cell::new(0),
            timers: RefCell::new(Vec::new()),
            log: RefCell::new(Vec::new()),
            guards: RefCell::new((0..k).map(|_| None).collect()),
            ids: RefCell::new(vec![None; k]),
            installed: RefCell::new(vec![false; k]),
            next_tag: Cell::new(1),
        })
    }
    fn now(&self) -> u64 {
        match self.mode {
            Mode::Prim => self.round.get() * TICK,
            _ => {
                let t0 = self.t0.get().unwrap_or_else(|| {
                    let n = tokio::time::Instant::now();
                    self.t0.set(Some(n));
                    n
                });
                t0.elapsed().as_micros() as u64
            }
        }
    }
    fn log(&self, ev: Ev) {
        let t = self.now();
        self.log.borrow_mut().push(Rec { t, ev });
    }
    fn rule_idx(&self, r: u8) -> Option<usize> {
        if self.rules.is_empty() {
            None
        } else {
            Some(r as usize % self.rules.len())
        }
    }
}

fn nhosts(sc: &Scenario) -> usize {
    match sc.mode {
        Mode::Lo => 1,
        _ => (sc.nhosts as usize).clamp(2, 3),
    }
}

fn host_ip(h: usize, v6: bool) -> IpAddr {
    if v6 {
        IpAddr::V6(Ipv6Addr::new(0xfd00, 0, 0, 0, 0, 0, 0, (h + 1) as u16))
    } else {
        IpAddr::V4(Ipv4Addr::new(10, 0, 0, (h + 1) as u8))
    }
}
/// The address the name table gives host `h`'s hostname: hosts are registered in index order and
/// names are allocated from 192.168.0.0/16 in order of first sight (checked at run time).
fn name_ip(h: usize) -> IpAddr {
    IpAddr::V4(Ipv4Addr::new(192, 168, 0, (h + 1) as u8))
}
fn host_name(h: usize) -> String {
    format!("h{h}")
}
/// What a host is registered with: its v4 and v6 literals and its hostname.
fn host_addrs(h: usize) -> [String; 3] {
    [host_ip(h, false).to_string(), host_ip(h, true).to_string(), host_name(h)]
}
/// Host owning a (non-loopback) address of this harness' topology.
fn ip_owner(ip: IpAddr) -> Option<usize> {
    match ip {
        IpAddr::V4(a) => {
            let o = a.octets();
            if (o[0] == 10 && o[1] == 0 && o[2] == 0 || o[0] == 192 && o[1] == 168 && o[2] == 0) && (1..=3).contains(&o[3]) {
                Some(o[3] as usize - 1)
            } else {
                None
            }
        }
        IpAddr::V6(a) => {
            let g = a.segments();
            if g[0] == 0xfd00 && g[1..7].iter().all(|x| *x == 0) && (1..=3).contains(&g[7]) {
                Some(g[7] as usize - 1)
            } else {
                None
            }
        }
    }
}
fn lo_ip(v6: bool) -> IpAddr {
    if v6 {
        IpAddr::V6(Ipv6Addr::LOCALHOST)
    } else {
        IpAddr::V4(Ipv4Addr::LOCALHOST)
    }
}
fn any_ip(v6: bool) -> IpAddr {
    if v6 {
        IpAddr::V6(Ipv6Addr::UNSPECIFIED)
    } else {
        IpAddr::V4(Ipv4Addr::UNSPECIFIED)
    }
}
fn nowhere_ip(v6: bool) -> IpAddr {
    if v6 {
        IpAddr::V6(Ipv6Addr::new(0xfd00, 0, 0, 0, 0, 0, 0, 200))
    } else {
        IpAddr::V4(Ipv4Addr::new(10, 0, 0, 200))
    }
}

/// How a destination is handed to the shim: a literal address or a hostname.
#[derive(Clone, Debug)]
enum Target {
    Ip(IpAddr),
    Name(String),
}

/// Destination kind, target and effective family (names resolve to IPv4).
fn resolve(env: &Env, src: usize, d: Dest, v6: bool) -> (DK, Target, bool) {
    let lo_mode = env.mode == Mode::Lo;
    match d {
        Dest::Peer(k) if !lo_mode => {
            let h = (src + 1 + k as usize % (env.n - 1)) % env.n;
            (DK::Remote(h), Target::Ip(host_ip(h, v6)), v6)
        }
        Dest::Own if !lo_mode => (DK::Own, Target::Ip(host_ip(src, v6)), v6),
        Dest::OwnName if !lo_mode => (DK::Own, Target::Name(host_name(src)), false),
        Dest::Peer(_) | Dest::Nowhere => (DK::Nowhere, Target::Ip(nowhere_ip(v6)), v6),
        Dest::Loopback | Dest::Own => (DK::Loop, Target::Ip(lo_ip(v6)), v6),
        Dest::LoName | Dest::OwnName => (DK::Loop, Target::Name("localhost".into()), false),
    }
}

/// The rule under test: a closure over its table, logging every invocation.
fn make_rule(env: &Rc<Env>, r: usize) -> impl FnMut(&Packet) -> Verdict + 'static {
    let env = env.clone();
    let mut count = 0usize;
    move |p: &Packet| -> Verdict {
        let key = key_of(p);
        let spec = &env.rules[r];
        let idx = (class_of(&key) + if spec.stateful { count } else { 0 }) % spec.table.len().max(1);
        count += 1;
        let said = spec.table.get(idx).copied().unwrap_or(V::Pass);
        env.log(Ev::Inv { rule: r, key, said });
        said.verdict()
    }
}

fn after_install(env: &Env, r: usize, g: RuleGuard, via: &'static str) {
    env.ids.borrow_mut()[r] = Some(g.id());
    env.guards.borrow_mut()[r] = Some(g);
    env.installed.borrow_mut()[r] = true;
    env.log(Ev::Install { rule: r, via });
}

fn drop_guard(env: &Env, r: usize) {
    let g = env.guards.borrow_mut()[r].take();
    if let Some(g) = g {
        drop(g);
        env.log(Ev::Uninstall { rule: r, alias: false });
    }
}
fn forget_guard(env: &Env, r: usize, mem: bool) {
    let g = env.guards.borrow_mut()[r].take();
    if let Some(g) = g {
        if mem {
            std::mem::forget(g);
        } else {
            g.forget();
        }
        env.log(Ev::Forgot { rule: r, mem });
    }
}
fn drop_again(env: &Env, r: usize) {
    let id = env.ids.borrow()[r];
    if let Some(id) = id {
        drop(RuleGuard::new(id));
        env.log(Ev::Uninstall { rule: r, alias: true });
    }
}

// ---------------------------------------------------------------- time helpers (both clocks)

type BoxFut = Pin<Box<dyn Future<Output = ()>>>;

struct SleepFut {
    due: u64,
    env: Rc<Env>,
}
impl Future for SleepFut {
    type Output = ();
    fn poll(self: Pin<&mut Self>, cx: &mut Context<'_>) -> Poll<()> {
        if self.env.round.get() >= self.due {
            Poll::Ready(())
        } else {
            self.env.timers.borrow_mut().push((self.due, cx.waker().clone()));
            Poll::Pending
        }
    }
}

fn sleep_ticks(env: &Rc<Env>, ticks: u64) -> BoxFut {
    match env.mode {
        Mode::Prim => Box::pin(SleepFut { due: env.round.get() + ticks, env: env.clone() }),
        _ => Box::pin(tokio::time::sleep(Duration::from_micros(ticks * TICK))),
    }
}

async fn with_timeout<T>(env: &Rc<Env>, ticks: u64, fut: impl Future<Output = T>) -> Option<T> {
    let mut fut = Box::pin(fut);
    let mut sl = sleep_ticks(env, ticks);
    std::future::poll_fn(move |cx| {
        if let Poll::Ready(v) = fut.as_mut().poll(cx) {
            return Poll::Ready(Some(v));
        }
        if sl.as_mut().poll(cx).is_ready() {
            return Poll::Ready(None);
        }
        Poll::Pending
    })
    .await
}

// ---------------------------------------------------------------- host programs

async fn receiver(env: Rc<Env>, h: usize, port: u8, v6: bool) {
    let s = match UdpSocket::bind(SocketAddr::new(any_ip(v6), UDP_PORT + port as u16)).await {
        Ok(s) => s,
        Err(e) => {
            env.log(Ev::Sanity(format!("udp bind host {h} port {port} v6 {v6}: {e}")));
            return;
        }
    };
    let mut buf = [0u8; 64];
    loop {
        match s.recv_from(&mut buf).await {
            Ok((n, _from)) => {
                let tag = if n >= 4 { u32::from_le_bytes([buf[0], buf[1], buf[2], buf[3]]) } else { 0 };
                env.log(Ev::Recv { host: h, port, v6, tag });
            }
            Err(e) => {
                env.log(Ev::Sanity(format!("udp recv: {e}")));
                return;
            }
        }
    }
}

async fn acceptor(env: Rc<Env>, h: usize, v6: bool) {
    let l = match TcpListener::bind(SocketAddr::new(any_ip(v6), TCP_PORT)).await {
        Ok(l) => l,
        Err(e) => {
            env.log(Ev::Sanity(format!("tcp listen host {h} v6 {v6}: {e}")));
            return;
        }
    };
    loop {
        let Ok((mut s, _)) = l.accept().await else { return };
        let got = with_timeout(&env, TCP_TIMEOUT_TICKS, async {
            let mut buf = [0u8; 512];
            let mut total = 0usize;
            loop {
                match s.read(&mut buf).await {
                    Ok(0) | Err(_) => break,
                    Ok(n) => total += n,
                }
            }
            total
        })
        .await;
        env.log(Ev::Served { host: h, bytes: got.unwrap_or(usize::MAX) });
        drop(s);
    }
}

async fn actor(env: Rc<Env>, idx: usize, h: usize, ops: Vec<Op>) {
    let mut socks: [Option<UdpSocket>; 2] = [None, None];
    for op in ops {
        match op {
            Op::Install(r) => {
                if let Some(r) = env.rule_idx(r) {
                    if !env.installed.borrow()[r] {
                        let g = turmoil_net::rule(make_rule(&env, r));
                        after_install(&env, r, g, "task");
                    }
                }
            }
            Op::DropGuard(r) => {
                if let Some(r) = env.rule_idx(r) {
                    drop_guard(&env, r);
                }
            }
            Op::Forget(r) => {
                if let Some(r) = env.rule_idx(r) {
                    forget_guard(&env, r, false);
                }
            }
            Op::MemForget(r) => {
                if let Some(r) = env.rule_idx(r) {
                    forget_guard(&env, r, true);
                }
            }
            Op::DropAgain(r) => {
                if let Some(r) = env.rule_idx(r) {
                    drop_again(&env, r);
                }
            }
            Op::Udp { dst, port, class, v6 } => {
                let (dk, target, v6) = resolve(&env, h, dst, v6);
                if let (DK::Own, Target::Name(name)) = (dk, &target) {
                    let got = turmoil_net::lookup_host(name);
                    if got != Some(name_ip(h)) {
                        env.log(Ev::Sanity(format!("hostname {name} of host {h} resolves to {got:?}, expected {}", name_ip(h))));
                        continue;
                    }
                }
                let port = port % 2;
                let slot = v6 as usize;
                if socks[slot].is_none() {
                    match UdpSocket::bind(SocketAddr::new(any_ip(v6), 0)).await {
                        Ok(s) => socks[slot] = Some(s),
                        Err(e) => {
                            env.log(Ev::Sanity(format!("sender bind: {e}")));
                            continue;
                        }
                    }
                }
                let n = env.next_tag.get();
                env.next_tag.set(n + 1);
                let tag = n * NCLASS as u32 + (class as u32 % NCLASS as u32);
                let mut data = tag.to_le_bytes().to_vec();
                data.extend_from_slice(&[0xC1, 0x9C]);
                let sock = socks[slot].as_ref().unwrap();
                let res = match &target {
                    Target::Ip(ip) => sock.send_to(&data, SocketAddr::new(*ip, UDP_PORT + port as u16)).await,
                    Target::Name(name) => sock.send_to(&data, (name.as_str(), UDP_PORT + port as u16)).await,
                };
                if let Target::Name(_) = target {
                    env.log(Ev::Note("udp:by-hostname"));
                }
                env.log(Ev::Sent { tag, src: h, actor: idx, dst: dk, port, v6, ok: res.is_ok() });
            }
            Op::Tcp { dst, len, v6 } => {
                let (dk, target, _v6) = resolve(&env, h, dst, v6);
                if let Target::Name(_) = target {
                    env.log(Ev::Note("tcp:by-hostname"));
                }
                let data: Vec<u8> = (0..len.max(1) as usize).map(|i| (i * 31 + 7) as u8).collect();
                let r = with_timeout(&env, TCP_TIMEOUT_TICKS, async {
                    let conn = match &target {
                        Target::Ip(ip) => TcpStream::connect(SocketAddr::new(*ip, TCP_PORT)).await,
                        Target::Name(name) => TcpStream::connect((name.as_str(), TCP_PORT)).await,
                    };
                    let mut s = conn.map_err(|e| format!("connect:{:?}", e.kind()))?;
                    s.write_all(&data).await.map_err(|e| format!("write:{:?}", e.kind()))?;
                    s.shutdown().await.map_err(|e| format!("shutdown:{:?}", e.kind()))?;
                    let mut b = [0u8; 16];
                    loop {
                        match s.read(&mut b).await {
                            Ok(0) => break Ok::<(), String>(()),
                            Ok(_) => {}
                            Err(e) => break Err(format!("read:{:?}", e.kind())),
                        }
                    }
                })
                .await;
                let outcome = match r {
                    None => "timeout".to_string(),
                    Some(Ok(())) => "ok".to_string(),
                    Some(Err(e)) => e,
                };
                env.log(Ev::Tcp { host: h, dst: dk, outcome });
            }
            Op::Sleep(k) => sleep_ticks(&env, k as u64).await,
        }
    }
    // keep the sender sockets alive until the host is torn down (a closed socket
    // changes nothing for packets already queued, but keep the shape simple)
    std::future::pending::<()>().await;
    drop(socks);
}

/// All tasks of host `h`: four UDP receivers, two TCP acceptors, its actors.
fn host_tasks(env: &Rc<Env>, sc: &Scenario, h: usize) -> Vec<BoxFut> {
    let mut v: Vec<BoxFut> = Vec::new();
    for v6 in [false, true] {
        for port in 0..2u8 {
            v.push(Box::pin(receiver(env.clone(), h, port, v6)));
        }
    }
    for v6 in [false, true] {
        v.push(Box::pin(acceptor(env.clone(), h, v6)));
    }
    for (i, a) in sc.actors.iter().enumerate() {
        if a.host as usize % env.n == h {
            v.push(Box::pin(actor(env.clone(), i, h, a.ops.clone())));
        }
    }
    v
}

/// Horizon of a run in ticks (rounds): long enough for every script.
fn horizon(sc: &Scenario) -> u64 {
    let mut m = 0u64;
    for a in &sc.actors {
        let mut t = 1u64;
        for op in &a.ops {
            match op {
                Op::Sleep(k) => t += *k as u64,
                Op::Tcp { .. } => t += TCP_TIMEOUT_TICKS,
                _ => {}
            }
        }
        m = m.max(t);
    }
    for s in &sc.sched {
        m = m.max(s.round as u64 + 1);
    }
    (m + 10).clamp(14, 160)
}

// ---------------------------------------------------------------- fixture modes

/// One host inside a fixture: polls all its tasks on every poll (the fixture
/// pins the host once per poll of this future) and tears them down — sockets
/// included — inside its own poll when the deadline passes.
async fn fixture_host(env: Rc<Env>, sc: Scenario, h: usize, deadline_ticks: u64) {
    let _ = env.now();
    let mut dl: BoxFut = Box::pin(tokio::time::sleep(Duration::from_micros(deadline_ticks * TICK)));
    let mut tasks: Vec<Option<BoxFut>> = host_tasks(&env, &sc, h).into_iter().map(Some).collect();
    std::future::poll_fn(move |cx| {
        if dl.as_mut().poll(cx).is_ready() {
            tasks.clear();
            return Poll::Ready(());
        }
        for t in tasks.iter_mut() {
            if let Some(f) = t {
                if f.as_mut().poll(cx).is_ready() {
                    *t = None;
                }
            }
        }
        Poll::Pending
    })
    .await
}

fn run_fixture(sc: &Scenario, hz: u64) -> Vec<Rec> {
    let env = Env::new(sc);
    let n = env.n;
    match sc.mode {
        Mode::ClientServer => {
            let mut cs = turmoil_net::fixture::ClientServer::new();
            for h in 0..n - 1 {
                cs = cs.server(host_addrs(h), fixture_host(env.clone(), sc.clone(), h, hz));
            }
            // servers tear themselves down at `hz`, the client (= end of the run) one tick later
            cs.run(host_addrs(n - 1), fixture_host(env.clone(), sc.clone(), n - 1, hz + 1));
        }
        _ => {
            turmoil_net::fixture::lo(fixture_host(env.clone(), sc.clone(), 0, hz + 1));
        }
    }
    // guards still held outlive the fixture's Net: dropping them now must be harmless
    env.guards.borrow_mut().clear();
    let log = std::mem::take(&mut *env.log.borrow_mut());
    log
}

// ---------------------------------------------------------------- primitive mode

struct Flag(AtomicBool);
impl Wake for Flag {
    fn wake(self: Arc<Self>) {
        self.0.store(true, Ordering::Relaxed);
    }
    fn wake_by_ref(self: &Arc<Self>) {
        self.0.store(true, Ordering::Relaxed);
    }
}

struct PTask {
    host: usize,
    fut: Option<BoxFut>,
    flag: Arc<Flag>,
    waker: Waker,
}

/// Tears tasks (and their sockets) down with the right host pinned, then
/// leaves the Net — also when unwinding.
struct Machine {
    ids: Vec<HostId>,
    tasks: Vec<PTask>,
    guard: Option<EnterGuard>,
}
impl Drop for Machine {
    fn drop(&mut self) {
        for t in self.tasks.iter_mut() {
            if let Some(f) = t.fut.take() {
                turmoil_net::set_current(self.ids[t.host]);
                drop(f);
            }
        }
        self.guard.take();
    }
}

fn run_prim(sc: &Scenario, hz: u64) -> Vec<Rec> {
    let env = Env::new(sc);
    let n = env.n;
    let mut net = Net::new();
    let ids: Vec<HostId> = (0..n).map(|h| net.add_host(host_addrs(h))).collect();
    for r in &sc.permanent {
        if let Some(r) = env.rule_idx(*r) {
            if !env.installed.borrow()[r] {
                net.rule(make_rule(&env, r));
                env.installed.borrow_mut()[r] = true;
                env.log(Ev::Install { rule: r, via: "permanent" });
            }
        }
    }
    let guard = net.enter();
    let mut m = Machine { ids, tasks: Vec::new(), guard: Some(guard) };
    for h in 0..n {
        for f in host_tasks(&env, sc, h) {
            let flag = Arc::new(Flag(AtomicBool::new(true)));
            let waker = Waker::from(flag.clone());
            m.tasks.push(PTask { host: h, fut: Some(f), flag, waker });
        }
    }
    let mut sched: Vec<&SchedAct> = sc.sched.iter().collect();
    sched.sort_by_key(|s| (s.round, s.pos));
    let mut si = 0usize;

    let do_sched = |m: &Machine, a: &SAct| match a {
        SAct::Install(r) => {
            if let Some(r) = env.rule_idx(*r) {
                if !env.installed.borrow()[r] {
                    let g = m.guard.as_ref().unwrap().rule(make_rule(&env, r));
                    after_install(&env, r, g, "enter-guard");
                }
            }
        }
        SAct::DropGuard(r) => {
            if let Some(r) = env.rule_idx(*r) {
                drop_guard(&env, r);
            }
        }
        SAct::Forget(r) => {
            if let Some(r) = env.rule_idx(*r) {
                forget_guard(&env, r, false);
            }
        }
        SAct::MemForget(r) => {
            if let Some(r) = env.rule_idx(*r) {
                forget_guard(&env, r, true);
            }
        }
        SAct::DropAgain(r) => {
            if let Some(r) = env.rule_idx(*r) {
                drop_again(&env, r);
            }
        }
    };

    let mut held: Vec<(u64, u64, Packet)> = Vec::new();
    let mut hseq = 0u64;
    let mut out: Vec<Packet> = Vec::new();
    for round in 0..hz {
        env.round.set(round);
        // timers, then every woken task until none is woken
        {
            let mut ts = env.timers.borrow_mut();
            let mut i = 0;
            while i < ts.len() {
                if ts[i].0 <= round {
                    let (_, w) = ts.swap_remove(i);
                    w.wake();
                } else {
                    i += 1;
                }
            }
        }
        let mut sweeps = 0;
        loop {
            let mut any = false;
            for t in m.tasks.iter_mut() {
                if t.fut.is_none() || !t.flag.0.swap(false, Ordering::Relaxed) {
                    continue;
                }
                any = true;
                turmoil_net::set_current(m.ids[t.host]);
                let mut cx = Context::from_waker(&t.waker);
                if t.fut.as_mut().unwrap().as_mut().poll(&mut cx).is_ready() {
                    t.fut = None;
                }
            }
            sweeps += 1;
            if !any {
                break;
            }
            if sweeps > 10_000 {
                env.log(Ev::Sanity("task sweep does not quiesce".into()));
                break;
            }
        }
        while si < sched.len() && (sched[si].round as u64) < round {
            si += 1;
        }
        while si < sched.len() && sched[si].round as u64 == round && sched[si].pos == 0 {
            do_sched(&m, &sched[si].act);
            si += 1;
        }
        // due packets first, like the fixtures' scheduler
        held.sort_by_key(|(due, s, _)| (*due, *s));
        let split = held.iter().position(|(due, _, _)| *due > round).unwrap_or(held.len());
        for (_, _, p) in held.drain(..split) {
            m.guard.as_ref().unwrap().deliver(p);
        }
        out.clear();
        m.guard.as_ref().unwrap().egress_all(&mut out);
        for (i, p) in out.drain(..).enumerate() {
            env.log(Ev::EvalBegin { key: key_of(&p) });
            let v = m.guard.as_ref().unwrap().evaluate(&p);
            let (got, exact) = V::of(v);
            env.log(Ev::EvalEnd { got, exact });
            match v {
                Verdict::Drop => {}
                Verdict::Pass => m.guard.as_ref().unwrap().deliver(p),
                Verdict::Deliver(d) if d.is_zero() => m.guard.as_ref().unwrap().deliver(p),
                Verdict::Deliver(d) => {
                    let k = (d.as_micros() as u64).div_ceil(TICK);
                    held.push((round + k, hseq, p));
                    hseq += 1;
                }
            }
            while si < sched.len() && sched[si].round as u64 == round && sched[si].pos as usize <= i + 1 {
                do_sched(&m, &sched[si].act);
                si += 1;
            }
        }
        while si < sched.len() && sched[si].round as u64 == round {
            do_sched(&m, &sched[si].act);
            si += 1;
        }
    }
    if !sc.late_guard_drop {
        env.guards.borrow_mut().clear();
    }
    drop(held);
    drop(m);
    env.guards.borrow_mut().clear();
    let log = std::mem::take(&mut *env.log.borrow_mut());
    log
}

// ---------------------------------------------------------------- oracle

fn is_lo(k: &PKey) -> bool {
    k.src.is_loopback() || k.dst.is_loopback()
}

/// The packet is addressed to one of the addresses of the host it comes from (it never leaves it).
fn is_own(k: &PKey) -> bool {
    match (ip_owner(k.src), ip_owner(k.dst)) {
        (Some(a), Some(b)) => a == b,
        _ => false,
    }
}

const SIG_OWN_RULE: &str = "own-address: a packet addressed to one of the sending host's own addresses was shown to a rule";
const SIG_OWN_EGRESS: &str = "own-address: a packet addressed to one of the sending host's own addresses surfaced in egress_all";

#[derive(Clone, Debug)]
struct Group {
    t: u64,
    verdict: V,
    /// position of the group among all groups (evaluation order)
    ord: usize,
}

struct SentInfo {
    t: u64,
    src: usize,
    actor: usize,
    dst: DK,
    port: u8,
    v6: bool,
    idx: usize,
}

struct Model<'a> {
    sc: &'a Scenario,
    chain: Vec<usize>,
    counts: Vec<usize>,
    dropped: BTreeSet<usize>,
    /// open evaluation: (key, next chain position, decided verdict, time, explicit (prim))
    cur: Option<(PKey, usize, Option<V>, u64)>,
    groups: BTreeMap<u32, Vec<Group>>,
    ngroups: usize,
    max_chain: usize,
    decided_pos: BTreeMap<usize, u64>,
    verdict_kinds: BTreeSet<&'static str>,
    nonfirst_decided: bool,
    tcp_evals: u64,
    udp_evals: u64,
}

impl<'a> Model<'a> {
    fn expect_said(&mut self, rule: usize, key: &PKey) -> V {
        let spec = &self.sc.rules[rule];
        let idx = (class_of(key) + if spec.stateful { self.counts[rule] } else { 0 }) % spec.table.len().max(1);
        self.counts[rule] += 1;
        spec.table.get(idx).copied().unwrap_or(V::Pass)
    }

    fn complete(&self) -> bool {
        match &self.cur {
            None => true,
            Some((_, pos, dec, _)) => dec.is_some() || *pos >= self.chain.len(),
        }
    }

    /// Close the open evaluation and record it.
    fn close(&mut self) -> Result<V, (String, String)> {
        let Some((key, pos, dec, t)) = self.cur.take() else { return Ok(V::Pass) };
        if dec.is_none() && pos < self.chain.len() {
            return Err((
                "first-match: an installed rule was not consulted although every earlier rule passed".into(),
                format!("packet {key:?} at t={t}: consulted {pos} of chain {:?}", self.chain),
            ));
        }
        let verdict = dec.unwrap_or(V::Pass);
        if pos > 0 {
            *self.decided_pos.entry(if dec.is_some() { pos - 1 } else { usize::MAX }).or_default() += 1;
            if dec.is_some() && pos >= 2 {
                self.nonfirst_decided = true;
            }
        }
        self.verdict_kinds.insert(match verdict {
            V::Pass => "pass",
            V::Drop => "drop",
            V::Del(0) => "deliver-0",
            V::Del(d) if (d as u64) < TICK => "deliver-subtick",
            V::Del(d) if d as u64 % TICK == 0 => "deliver-ticks",
            V::Del(_) => "deliver-fractional",
        });
        if key.udp {
            self.udp_evals += 1;
            self.groups.entry(key.tag).or_default().push(Group { t, verdict, ord: self.ngroups });
        } else {
            self.tcp_evals += 1;
        }
        self.ngroups += 1;
        Ok(verdict)
    }

    fn on_inv(&mut self, t: u64, rule: usize, key: &PKey, said: V, prim: bool) -> Result<(), (String, String)> {
        if is_lo(key) {
            return Err(("loopback: a loopback packet was shown to a rule".into(), format!("rule {rule} saw {key:?} at t={t}")));
        }
        if is_own(key) {
            return Err((SIG_OWN_RULE.into(), format!("rule {rule} saw {key:?} at t={t}; chain (model) {:?}", self.chain)));
        }
        if prim {
            match &self.cur {
                None => return Err(("rule invoked outside of evaluate".into(), format!("rule {rule} saw {key:?} at t={t}"))),
                Some((k, ..)) if k != key => {
                    return Err(("rule was shown a packet other than the one being evaluated".into(), format!("rule {rule} saw {key:?}, evaluating {k:?}")))
                }
                _ => {}
            }
        } else {
            // fixtures: invocations of one evaluation are contiguous; a new packet
            // (or the same packet again after a complete walk) starts a new one
            let start_new = match &self.cur {
                None => true,
                Some((k, ..)) => k != key || self.complete(),
            };
            if start_new {
                self.close()?;
                self.cur = Some((key.clone(), 0, None, t));
            }
        }
        if self.dropped.contains(&rule) {
            return Err(("guard: a rule was invoked after its guard had been dropped".into(), format!("rule {rule} saw {key:?} at t={t}; chain (model) {:?}", self.chain)));
        }
        let chain = self.chain.clone();
        let (_, pos, dec, _) = self.cur.as_mut().unwrap();
        if let Some(d) = dec {
            return Err((
                "first-match: a rule was consulted after an earlier rule had returned a non-Pass verdict".into(),
                format!("rule {rule} saw {key:?} at t={t} after verdict {d:?}; chain {chain:?}"),
            ));
        }
        match chain.get(*pos) {
            Some(r) if *r == rule => {}
            Some(r) => {
                let sig = if chain.contains(&rule) {
                    "first-match: rules were not consulted in installation order"
                } else {
                    "chain: a rule that is not installed (per the model) was invoked"
                };
                return Err((sig.into(), format!("position {pos}: expected rule {r}, rule {rule} was invoked for {key:?} at t={t}; chain {chain:?}")));
            }
            None => {
                let sig = if chain.contains(&rule) {
                    "first-match: a rule was consulted twice for one packet"
                } else {
                    "chain: a rule that is not installed (per the model) was invoked"
                };
                return Err((sig.into(), format!("rule {rule} invoked for {key:?} at t={t} beyond the end of chain {chain:?}")));
            }
        }
        *pos += 1;
        let pos_now = *pos;
        let exp = self.expect_said(rule, key);
        if exp != said {
            return Err(("sanity: rule closure and model table disagree".into(), format!("rule {rule} {key:?}: closure {said:?}, model {exp:?}")));
        }
        if said != V::Pass {
            self.cur.as_mut().unwrap().2 = Some(said);
        }
        self.max_chain = self.max_chain.max(chain.len());
        let _ = pos_now;
        Ok(())
    }
}

pub fn run(sc: &Scenario) -> Outcome {
    let mut out = Outcome::ok();
    if sc.rules.iter().any(|r| r.table.is_empty()) {
        out.label("degenerate-empty-table");
        return out;
    }
    let hz = horizon(sc);
    let prim = sc.mode == Mode::Prim;
    let log = match sc.mode {
        Mode::Prim => run_prim(sc, hz),
        _ => run_fixture(sc, hz),
    };
    out.label(format!("mode:{:?}", sc.mode));
    if let Err((sig, detail)) = judge(sc, &log, hz, prim, &mut out) {
        out.fail(sig, detail);
    }
    out
}

fn judge(sc: &Scenario, log: &[Rec], hz: u64, prim: bool, out: &mut Outcome) -> Result<(), (String, String)> {
    let n = nhosts(sc);
    let mut m = Model {
        sc,
        chain: Vec::new(),
        counts: vec![0; sc.rules.len()],
        dropped: BTreeSet::new(),
        cur: None,
        groups: BTreeMap::new(),
        ngroups: 0,
        max_chain: 0,
        decided_pos: BTreeMap::new(),
        verdict_kinds: BTreeSet::new(),
        nonfirst_decided: false,
        tcp_evals: 0,
        udp_evals: 0,
    };
    // chain in effect for a tick at time T: the last entry with t < T
    let mut history: Vec<(u64, Vec<usize>)> = Vec::new();
    // (time, log index) of every chain change
    let mut changes: Vec<(u64, usize)> = Vec::new();
    let mut sent: BTreeMap<u32, SentInfo> = BTreeMap::new();
    let mut recvs: Vec<(u64, usize, u8, bool, u32)> = Vec::new();
    let mut prim_evals: BTreeMap<u32, u32> = BTreeMap::new();
    let mut changed_mid_round = false;
    let mut evals_this_round: (u64, u32) = (u64::MAX, 0);
    // every TCP transfer of the scenario stays on its host and at most one actor per host opens any
    let tcp_undisturbed = {
        let local = |d: &Dest| match d {
            Dest::Loopback | Dest::Own | Dest::OwnName | Dest::LoName => true,
            Dest::Peer(_) | Dest::Nowhere => false,
        };
        let mut per_host = vec![0usize; n];
        let mut all_local = true;
        for a in &sc.actors {
            let tcp: Vec<&Dest> = a.ops.iter().filter_map(|o| if let Op::Tcp { dst, .. } = o { Some(dst) } else { None }).collect();
            if !tcp.is_empty() {
                per_host[a.host as usize % n] += 1;
            }
            all_local &= tcp.iter().all(|d| local(d));
        }
        all_local && per_host.iter().all(|c| *c <= 1)
    };

    for (i, rec) in log.iter().enumerate() {
        let t = rec.t;
        if !matches!(rec.ev, Ev::Inv { .. } | Ev::EvalEnd { .. }) && !prim {
            // any task-side event ends the tick's evaluations
            m.close()?;
        }
        match &rec.ev {
            Ev::Sanity(s) => return Err(("sanity: harness".into(), s.clone())),
            Ev::Install { rule, via } => {
                m.chain.push(*rule);
                history.push((t, m.chain.clone()));
                changes.push((t, i));
                out.label(format!("install:{via}"));
                if prim && evals_this_round.0 == t && evals_this_round.1 > 0 {
                    changed_mid_round = true;
                }
            }
            Ev::Uninstall { rule, alias } => {
                let was = m.chain.contains(rule);
                m.chain.retain(|r| r != rule);
                m.dropped.insert(*rule);
                history.push((t, m.chain.clone()));
                if was {
                    changes.push((t, i));
                }
                out.label(match (alias, was) {
                    (false, true) => "guard:dropped",
                    (false, false) => "guard:dropped-after-alias",
                    (true, true) => "guard:alias-uninstalls",
                    (true, false) => "guard:second-uninstall-noop",
                });
                if was && m.chain.len() > 0 {
                    out.label("guard:removed-from-longer-chain");
                }
                if prim && evals_this_round.0 == t && evals_this_round.1 > 0 {
                    changed_mid_round = true;
                }
            }
            Ev::Forgot { mem, .. } => out.label(if *mem { "guard:mem-forget" } else { "guard:forget" }),
            Ev::Sent { tag, src, actor, dst, port, v6, ok } => {
                if !*ok {
                    return Err(("sanity: harness".into(), format!("send_to failed for tag {tag}")));
                }
                sent.insert(*tag, SentInfo { t, src: *src, actor: *actor, dst: *dst, port: *port, v6: *v6, idx: i });
                out.label(match dst {
                    DK::Remote(_) => "udp:remote",
                    DK::Loop => "udp:loopback",
                    DK::Own => "udp:own-address",
                    DK::Nowhere => "udp:unrouted",
                });
            }
            Ev::EvalBegin { key } => {
                if m.cur.is_some() {
                    return Err(("sanity: harness".into(), "nested evaluate".into()));
                }
                if is_lo(key) {
                    return Err(("loopback: a loopback packet surfaced in egress_all".into(), format!("{key:?} at t={t}")));
                }
                if is_own(key) {
                    return Err((SIG_OWN_EGRESS.into(), format!("{key:?} at t={t}")));
                }
                if evals_this_round.0 != t {
                    evals_this_round = (t, 0);
                }
                evals_this_round.1 += 1;
                if key.udp {
                    *prim_evals.entry(key.tag).or_default() += 1;
                }
                m.cur = Some((key.clone(), 0, None, t));
            }
            Ev::EvalEnd { got, exact } => {
                let key = m.cur.as_ref().map(|c| c.0.clone());
                let chain = m.chain.clone();
                let exp = m.close()?;
                if exp != *got || !*exact {
                    return Err((
                        "first-match: evaluate returned a verdict other than the first non-Pass one".into(),
                        format!("packet {key:?} at t={t}: chain {chain:?}, expected {exp:?}, evaluate returned {got:?} (exact={exact})"),
                    ));
                }
            }
            Ev::Inv { rule, key, said } => m.on_inv(t, *rule, key, *said, prim)?,
            Ev::Recv { host, port, v6, tag } => recvs.push((t, *host, *port, *v6, *tag)),
            Ev::Tcp { dst, outcome, host } => {
                if matches!(dst, DK::Loop | DK::Own) {
                    if !m.chain.is_empty() {
                        out.label(if *dst == DK::Own { "own-address:tcp-finished-under-installed-rules" } else { "loopback:tcp-finished-under-installed-rules" });
                    }
                    // a transfer that stays on its host cannot be dropped or delayed by rules; when
                    // no other TCP transfer competes for the host's acceptor it completes in time
                    if tcp_undisturbed && outcome != "ok" {
                        let sig = if *dst == DK::Own {
                            "own-address: a TCP transfer to the sending host's own address did not complete"
                        } else {
                            "sanity: a loopback TCP transfer did not complete"
                        };
                        return Err((sig.into(), format!("host {host} at t={t}: outcome {outcome}; chain (model) {:?}", m.chain)));
                    }
                }
                out.label(format!("tcp:{}:{}", match dst { DK::Remote(_) => "remote", DK::Loop => "loopback", DK::Own => "own", DK::Nowhere => "unrouted" }, outcome.split(':').next().unwrap_or("?")));
            }
            Ev::Served { .. } => {}
            Ev::Note(l) => out.label(*l),
        }
    }
    m.close()?;

    // ---- per datagram
    let mut recv_at: BTreeMap<u32, Vec<(u64, usize, u8, bool, usize)>> = BTreeMap::new();
    for (pos, (t, host, port, v6, tag)) in recvs.iter().enumerate() {
        if !sent.contains_key(tag) {
            return Err(("sanity: harness".into(), format!("received unknown tag {tag}")));
        }
        recv_at.entry(*tag).or_default().push((*t, *host, *port, *v6, pos));
    }
    let chain_at = |tick_t: u64| -> &[usize] {
        history.iter().rev().find(|(t, _)| *t < tick_t).map(|(_, c)| c.as_slice()).unwrap_or(&[])
    };
    let end_t = hz * TICK;
    // (socket, deadline, evaluation order key, arrival position)
    struct Arr {
        sock: (usize, u8, bool),
        deadline: u64,
        te: u64,
        ord: Option<usize>,
        sender: (usize, usize, bool),
        sidx: usize,
        pos: usize,
        tag: u32,
    }
    let mut arrivals: Vec<Arr> = Vec::new();

    for (tag, s) in sent.iter() {
        let gs = m.groups.get(tag).cloned().unwrap_or_default();
        let rs = recv_at.get(tag).cloned().unwrap_or_default();
        if rs.len() > 1 {
            return Err(("delivery: a datagram was delivered more than once".into(), format!("tag {tag} received at {rs:?}")));
        }
        if let Some((_, host, port, v6, _)) = rs.first() {
            let exp_host = match s.dst {
                DK::Remote(h) => Some(h),
                DK::Loop | DK::Own => Some(s.src),
                DK::Nowhere => None,
            };
            if exp_host != Some(*host) || *port != s.port || *v6 != s.v6 {
                return Err(("sanity: harness".into(), format!("tag {tag} sent to {:?} port {} arrived at host {host} port {port}", s.dst, s.port)));
            }
        }
        if s.dst == DK::Loop && !gs.is_empty() {
            return Err(("loopback: a loopback packet was shown to a rule".into(), format!("tag {tag}")));
        }
        if s.dst == DK::Own && !gs.is_empty() {
            return Err((SIG_OWN_RULE.into(), format!("tag {tag}: {gs:?}")));
        }
        if prim {
            let evals = prim_evals.get(tag).copied().unwrap_or(0);
            match s.dst {
                DK::Loop => {
                    if evals != 0 {
                        return Err(("loopback: a loopback packet surfaced in egress_all".into(), format!("tag {tag}")));
                    }
                }
                DK::Own => {
                    if evals != 0 {
                        return Err((SIG_OWN_EGRESS.into(), format!("tag {tag}: {evals} times")));
                    }
                    out.label("own-address:folded");
                }
                DK::Remote(_) | DK::Nowhere => {
                    if evals != 1 && s.t + 2 * TICK <= end_t {
                        return Err(("sanity: a non-loopback datagram did not leave through egress_all exactly once".into(), format!("tag {tag}: {evals} times")));
                    }
                }
            }
            continue;
        }
        // ---- fixtures: completeness + timing
        let te = s.t + TICK - s.t % TICK;
        let local = matches!(s.dst, DK::Loop | DK::Own);
        if local {
            let chain = chain_at(te);
            if !chain.is_empty() {
                out.label(if s.dst == DK::Own { "own-address:sent-under-installed-rules" } else { "loopback:sent-under-installed-rules" });
                if chain.iter().any(|r| sc.rules[*r].table.iter().any(|v| *v != V::Pass)) {
                    out.label(if s.dst == DK::Own { "own-address:sent-under-dropping/delaying-rules" } else { "loopback:sent-under-dropping/delaying-rules" });
                }
            }
            if s.dst == DK::Own {
                out.label("own-address:folded");
            }
            // traffic that stays on its host is outside the rules' reach: whatever is installed,
            // the datagram arrives
            if rs.is_empty() && te + TICK < end_t {
                let sig = if s.dst == DK::Own { "own-address: a datagram to the sending host's own address never arrived" } else { "sanity: loopback datagram never arrived" };
                return Err((sig.into(), format!("tag {tag} sent at {}; chain at tick {te}: {chain:?}", s.t)));
            }
            continue;
        }
        if te + TICK >= end_t {
            continue; // sent at the very end of the run: its tick may not have happened
        }
        let chain = chain_at(te);
        if changes.iter().any(|(ct, ci)| *ct < te && *ci > s.idx) {
            out.label("chain-changed-between-send-and-egress");
        }
        if chain.is_empty() {
            if !gs.is_empty() {
                return Err(("chain: a rule was invoked although no rule is installed (per the model)".into(), format!("tag {tag}: {gs:?}")));
            }
        } else {
            if gs.is_empty() {
                return Err((
                    "first-match: a non-loopback packet left its host without being shown to the installed rules".into(),
                    format!("tag {tag} sent at {} to {:?}; chain at tick {te}: {chain:?}", s.t, s.dst),
                ));
            }
            if gs.len() > 1 {
                return Err(("first-match: a datagram was evaluated more than once".into(), format!("tag {tag}: {gs:?}")));
            }
            if gs[0].t != te {
                return Err((
                    "fixture: a datagram was not evaluated at the first tick after it was sent".into(),
                    format!("tag {tag} sent at {}, evaluated at {} (expected {te})", s.t, gs[0].t),
                ));
            }
        }
        let verdict = gs.first().map(|g| g.verdict).unwrap_or(V::Pass);
        let got = rs.first().map(|r| r.0);
        match verdict {
            V::Drop => {
                if let Some(t) = got {
                    return Err(("timing: a dropped packet was delivered".into(), format!("tag {tag} evaluated at {te} with Drop, received at {t}")));
                }
            }
            V::Pass | V::Del(0) => {
                if s.dst != DK::Nowhere {
                    match got {
                        Some(t) if t == te => {}
                        Some(t) if t < te => {
                            return Err(("timing: a packet was delivered before it left its host".into(), format!("tag {tag}: evaluated at {te}, received at {t}")))
                        }
                        Some(t) => {
                            return Err((
                                "timing: a packet with no delay was not delivered at its evaluation tick".into(),
                                format!("tag {tag}: verdict {verdict:?} at {te}, received at {t}"),
                            ))
                        }
                        None => {
                            return Err((
                                "timing: a packet with no delay was never delivered".into(),
                                format!("tag {tag}: verdict {verdict:?} at {te}, run ended at {end_t}"),
                            ))
                        }
                    }
                }
            }
            V::Del(d) => {
                let dl = te + d as u64;
                if s.dst != DK::Nowhere {
                    match got {
                        Some(t) if t < dl => {
                            return Err((
                                "timing: Deliver(d) packet was delivered before its deadline".into(),
                                format!("tag {tag}: evaluated at {te}, d={d}us, deadline {dl}, received at {t}"),
                            ))
                        }
                        Some(t) if t > dl + TICK => {
                            return Err((
                                "timing: Deliver(d) packet was delivered more than one tick after its deadline".into(),
                                format!("tag {tag}: evaluated at {te}, d={d}us, deadline {dl}, received at {t}"),
                            ))
                        }
                        Some(_) => {}
                        None => {
                            if dl + 2 * TICK < end_t {
                                return Err((
                                    "timing: Deliver(d) packet was never delivered".into(),
                                    format!("tag {tag}: evaluated at {te}, d={d}us, deadline {dl}, run ended at {end_t}"),
                                ));
                            }
                        }
                    }
                }
            }
        }
        if let Some((_, host, port, v6, pos)) = rs.first() {
            let d = match verdict {
                V::Del(d) => d as u64,
                _ => 0,
            };
            arrivals.push(Arr {
                sock: (*host, *port, *v6),
                deadline: te + d,
                te,
                ord: gs.first().map(|g| g.ord),
                sender: (s.src, s.actor, s.v6),
                sidx: s.idx,
                pos: *pos,
                tag: *tag,
            });
        }
    }

    // ---- equal deadlines keep emission order (per receiving socket)
    let mut equal_pairs = 0u64;
    let mut equal_cross_tick = 0u64;
    let mut crossing = 0u64;
    let mut inversions_same_tick = 0u64;
    arrivals.sort_by_key(|a| a.pos);
    for i in 0..arrivals.len() {
        for j in i + 1..arrivals.len() {
            let (a, b) = (&arrivals[i], &arrivals[j]);
            if a.sock != b.sock {
                continue;
            }
            // emission order of a and b, when the log determines it
            let a_first: Option<bool> = if a.te != b.te {
                Some(a.te < b.te)
            } else if let (Some(x), Some(y)) = (a.ord, b.ord) {
                Some(x < y)
            } else if a.sender == b.sender {
                Some(a.sidx < b.sidx)
            } else {
                None
            };
            if a.deadline == b.deadline {
                equal_pairs += 1;
                if a.te != b.te {
                    equal_cross_tick += 1;
                }
                if a_first == Some(false) {
                    return Err((
                        "order: packets with equal deadlines were delivered out of emission order".into(),
                        format!(
                            "socket {:?}: tag {} (evaluated {} ord {:?}) arrived before tag {} (evaluated {} ord {:?}), both due {}",
                            a.sock, a.tag, a.te, a.ord, b.tag, b.te, b.ord, a.deadline
                        ),
                    ));
                }
            } else {
                // a arrived first
                if a_first == Some(false) && a.deadline < b.deadline {
                    crossing += 1; // emitted later, due earlier, arrived earlier
                }
                if a.deadline > b.deadline {
                    inversions_same_tick += 1; // only possible inside one delivery tick; not claimed by the property
                }
            }
        }
    }

    // ---- classification
    let _ = n;
    out.count("evaluations-udp", m.udp_evals);
    out.count("evaluations-tcp", m.tcp_evals);
    out.count("equal-deadline-pairs", equal_pairs);
    out.count("equal-deadline-pairs-across-ticks", equal_cross_tick);
    out.count("crossing-deadline-pairs", crossing);
    out.count("obs-deadline-inversions-within-a-tick", inversions_same_tick);
    out.label(format!("max-chain:{}", m.max_chain.min(6)));
    for (p, _) in m.decided_pos.iter() {
        out.label(if *p == usize::MAX { "decided:all-pass".to_string() } else { format!("decided-by-position:{}", (*p).min(5)) });
    }
    for k in m.verdict_kinds.iter() {
        out.label(format!("verdict:{k}"));
    }
    if changed_mid_round {
        out.label("chain-changed-between-evaluations-of-one-round");
    }
    if m.tcp_evals > 0 {
        out.label("tcp-evaluated");
    }
    if sc.late_guard_drop && prim {
        out.label("guard:dropped-after-net");
    }
    if equal_pairs > 0 {
        out.label("equal-deadlines");
    }
    if equal_cross_tick > 0 {
        out.label("equal-deadlines-across-ticks");
    }
    if crossing > 0 {
        out.label("crossing-deadlines");
    }
    out.nontrivial = m.nonfirst_decided || equal_cross_tick > 0 || crossing > 0 || (equal_pairs > 0 && m.max_chain > 0);
    Ok(())
}

// ---------------------------------------------------------------- generator

fn v_strategy() -> BoxedStrategy<V> {
    prop_oneof![
        6 => Just(V::Pass),
        2 => Just(V::Drop),
        1 => Just(V::Del(0)),
        3 => proptest::sample::select(vec![300u32, 500, 999, 1001, 1500, 2500, 4000]).prop_map(V::Del),
        4 => proptest::sample::select(vec![1000u32, 1000, 2000, 2000, 3000]).prop_map(V::Del),
    ]
    .boxed()
}

fn rule_strategy() -> BoxedStrategy<RuleSpec> {
    (proptest::collection::vec(v_strategy(), NCLASS), prop_oneof![3 => Just(false), 1 => Just(true)])
        .prop_map(|(table, stateful)| RuleSpec { table, stateful })
        .boxed()
}

fn dest_strategy() -> BoxedStrategy<Dest> {
    prop_oneof![
        8 => (0u8..2).prop_map(Dest::Peer),
        2 => Just(Dest::Loopback),
        2 => Just(Dest::Own),
        1 => Just(Dest::Nowhere),
        1 => Just(Dest::OwnName),
        1 => Just(Dest::LoName),
    ]
    .boxed()
}

fn op_strategy() -> BoxedStrategy<Op> {
    prop_oneof![
        5 => (0u8..6).prop_map(Op::Install),
        2 => (0u8..6).prop_map(Op::DropGuard),
        1 => (0u8..6).prop_map(Op::Forget),
        1 => (0u8..6).prop_map(Op::MemForget),
        1 => (0u8..6).prop_map(Op::DropAgain),
        14 => (dest_strategy(), 0u8..2, 0u8..NCLASS as u8, prop_oneof![5 => Just(false), 1 => Just(true)])
            .prop_map(|(dst, port, class, v6)| Op::Udp { dst, port, class, v6 }),
        1 => (dest_strategy(), prop_oneof![1u16..200, 1000u16..4000], prop_oneof![5 => Just(false), 1 => Just(true)])
            .prop_map(|(dst, len, v6)| Op::Tcp { dst, len, v6 }),
        3 => Just(Op::Sleep(1)),
        2 => (0u8..4).prop_map(Op::Sleep),
    ]
    .boxed()
}

fn sact_strategy() -> BoxedStrategy<SAct> {
    prop_oneof![
        4 => (0u8..6).prop_map(SAct::Install),
        3 => (0u8..6).prop_map(SAct::DropGuard),
        1 => (0u8..6).prop_map(SAct::Forget),
        1 => (0u8..6).prop_map(SAct::MemForget),
        1 => (0u8..6).prop_map(SAct::DropAgain),
    ]
    .boxed()
}

pub fn strategy() -> BoxedStrategy<Scenario> {
    (
        prop_oneof![4 => Just(Mode::Prim), 5 => Just(Mode::ClientServer), 1 => Just(Mode::Lo)],
        2u8..=3,
        prop_oneof![1 => Just(Vec::new()).boxed(), 12 => proptest::collection::vec(rule_strategy(), 1..=6).boxed()],
        proptest::collection::vec(0u8..6, 0..=2),
        proptest::collection::vec(
            (0u8..3, proptest::collection::vec((0u8..6).prop_map(Op::Install), 0..=2), proptest::collection::vec(op_strategy(), 2..=14)).prop_map(|(host, mut pre, ops)| {
                pre.extend(ops);
                Actor { host, ops: pre }
            }),
            1..=4,
        ),
        proptest::collection::vec((0u8..10, 0u8..4, sact_strategy()).prop_map(|(round, pos, act)| SchedAct { round, pos, act }), 0..=5),
        any::<bool>(),
    )
        .prop_map(|(mode, nhosts, rules, permanent, actors, sched, late_guard_drop)| {
            let prim = mode == Mode::Prim;
            Scenario {
                mode,
                nhosts,
                rules,
                permanent: if prim { permanent } else { Vec::new() },
                actors,
                sched: if prim { sched } else { Vec::new() },
                late_guard_drop: prim && late_guard_drop,
            }
        })
        .boxed()
}


// ---------------------------------------------------------------- bounded-exhaustive tier

/// Every chain of 0..=max_n constant rules over `verdicts`, every install
/// point per rule, and every choice of one guard to drop (or none) between the
/// two datagrams of a burst — in the primitive mode (all three install points,
/// the drop happens between two `evaluate` calls of one round) and inside
/// `fixture::ClientServer` (task installs only, the drop happens one tick
/// before a second burst).
fn small_chains(max_n: usize) -> Vec<Scenario> {
    let verdicts_prim = [V::Pass, V::Drop, V::Del(1500)];
    let verdicts_fix = [V::Pass, V::Drop, V::Del(0), V::Del(500), V::Del(1000), V::Del(2000)];
    let mut v = Vec::new();
    for n in 0..=max_n {
        // primitive: digits in base 9 = (verdict, install point) per rule
        let combos = 9usize.pow(n as u32);
        for c in 0..combos {
            for dropk in 0..=n {
                let mut rules = Vec::new();
                let mut permanent = Vec::new();
                let mut sched = Vec::new();
                let mut actors = Vec::new();
                let mut x = c;
                for i in 0..n {
                    let d = x % 9;
                    x /= 9;
                    rules.push(RuleSpec { table: vec![verdicts_prim[d % 3]; NCLASS], stateful: false });
                    match d / 3 {
                        0 => permanent.push(i as u8),
                        1 => sched.push(SchedAct { round: i as u8, pos: 0, act: SAct::Install(i as u8) }),
                        _ => actors.push(Actor { host: 0, ops: vec![Op::Sleep(i as u8), Op::Install(i as u8)] }),
                    }
                }
                if dropk < n {
                    sched.push(SchedAct { round: n as u8, pos: 1, act: SAct::DropGuard(dropk as u8) });
                }
                let udp = |class: u8| Op::Udp { dst: Dest::Peer(0), port: 0, class, v6: false };
                actors.push(Actor { host: 1, ops: vec![Op::Sleep(n as u8), udp(0), udp(1), Op::Udp { dst: Dest::Loopback, port: 0, class: 2, v6: false }, Op::Sleep(1), udp(3)] });
                v.push(Scenario { mode: Mode::Prim, nhosts: 2, rules, permanent, actors, sched, late_guard_drop: c % 2 == 1 });
            }
        }
        let combos = verdicts_fix.len().pow(n as u32);
        for c in 0..combos {
            for dropk in 0..=n {
                let mut rules = Vec::new();
                let mut ops = Vec::new();
                let mut x = c;
                for i in 0..n {
                    rules.push(RuleSpec { table: vec![verdicts_fix[x % verdicts_fix.len()]; NCLASS], stateful: false });
                    x /= verdicts_fix.len();
                    ops.push(Op::Install(i as u8));
                }
                let udp = |class: u8| Op::Udp { dst: Dest::Peer(0), port: 0, class, v6: false };
                ops.extend([udp(0), udp(1), Op::Udp { dst: Dest::Loopback, port: 0, class: 2, v6: false }, Op::Sleep(1)]);
                if dropk < n {
                    ops.push(Op::DropGuard(dropk as u8));
                }
                ops.extend([udp(3), udp(4), Op::Sleep(1), udp(5)]);
                // the sender is the client in one half of the space and a server in the other
                v.push(Scenario { mode: Mode::ClientServer, nhosts: 2, rules, permanent: vec![], actors: vec![Actor { host: (c % 2) as u8, ops }], sched: vec![], late_guard_drop: false });
            }
        }
    }
    v
}

/// Traffic that stays on its host, under every kind of rule: (primitive | ClientServer) x (no rule |
/// one constant rule Pass | Drop | Deliver(1 ms) | Deliver(2.5 ms), installed permanently / from the
/// scheduler side / from a task where the mode allows) x destination (127.0.0.1 | ::1 |
/// "localhost" | own v4 literal | own v6 literal | own hostname) x (tagged UDP bursts | a TCP
/// transfer) x sending host.  Every burst also carries a datagram to a peer, so the rule is
/// demonstrably live while the self-addressed traffic passes it by.
fn self_addressed() -> Vec<Scenario> {
    let dests = [
        (Dest::Loopback, false),
        (Dest::Loopback, true),
        (Dest::LoName, false),
        (Dest::Own, false),
        (Dest::Own, true),
        (Dest::OwnName, false),
    ];
    let verdicts = [None, Some(V::Pass), Some(V::Drop), Some(V::Del(1000)), Some(V::Del(2500))];
    let mut v = Vec::new();
    for mode in [Mode::Prim, Mode::ClientServer] {
        for verdict in verdicts {
            // install point: 0 permanent, 1 scheduler side, 2 task (fixtures: task only)
            let points: &[u8] = if verdict.is_none() { &[2] } else if mode == Mode::Prim { &[0, 1, 2] } else { &[2] };
            for point in points {
                for (dst, v6) in dests {
                    for tcp in [false, true] {
                        for host in 0..2u8 {
                            let rules: Vec<RuleSpec> = verdict.iter().map(|x| RuleSpec { table: vec![*x; NCLASS], stateful: false }).collect();
                            let mut ops = Vec::new();
                            let mut permanent = Vec::new();
                            let mut sched = Vec::new();
                            if verdict.is_some() {
                                match point {
                                    0 => permanent.push(0),
                                    1 => sched.push(SchedAct { round: 0, pos: 0, act: SAct::Install(0) }),
                                    _ => ops.push(Op::Install(0)),
                                }
                            }
                            let peer = |class: u8| Op::Udp { dst: Dest::Peer(0), port: 0, class, v6: false };
                            ops.push(Op::Sleep(1));
                            if tcp {
                                ops.extend([peer(0), Op::Tcp { dst, len: 3000, v6 }, peer(1), Op::Tcp { dst, len: 10, v6 }]);
                            } else {
                                ops.extend([
                                    peer(0),
                                    Op::Udp { dst, port: 0, class: 1, v6 },
                                    Op::Udp { dst, port: 1, class: 2, v6 },
                                    Op::Sleep(1),
                                    Op::Udp { dst, port: 0, class: 3, v6 },
                                    peer(4),
                                    Op::Sleep(2),
                                    Op::Udp { dst, port: 1, class: 5, v6 },
                                ]);
                            }
                            v.push(Scenario { mode, nhosts: 2, rules, permanent, actors: vec![Actor { host, ops }], sched, late_guard_drop: false });
                        }
                    }
                }
            }
        }
    }
    v
}

fn check(tier: Tier, seed: u64) -> i32 {
    let ctx = Ctx::new("C19", tier, seed, "exploration");
    ctx.replay_corpus(&replay);
    let selfs = self_addressed();
    let sdesc = format!(
        "{} scenarios: (primitive | ClientServer) x (no rule | one constant rule Pass | Drop | Deliver(1 ms) | Deliver(2.5 ms) at every install point the mode offers) x destination (127.0.0.1 | ::1 | \"localhost\" | own v4 address | own v6 address | own hostname) x (UDP bursts | TCP transfers) x sending host; every burst also sends to a peer",
        selfs.len()
    );
    ctx.exhaustive("self-addressed", &sdesc, Box::new(selfs.into_iter()), &run);
    let max_n = tier.pick(3, 4);
    let space = small_chains(max_n);
    let desc = format!(
        "chains of 0..={max_n} constant rules: primitive mode (Pass|Drop|Deliver(1.5ms)) x (Net::rule|EnterGuard::rule|task) per rule x one guard (or none) dropped between two evaluate calls; ClientServer (Pass|Drop|Deliver(0|0.5|1|2 ms)) per rule x one guard (or none) dropped between two bursts: {} scenarios",
        space.len()
    );
    ctx.exhaustive("small-chains", &desc, Box::new(space.into_iter()), &run);
    ctx.random("chains", tier.pick(40_000, 600_000), &|| strategy(), &run);
    ctx.finish(
        "bounded-exhaustive small chains and the bounded family 'self-addressed' (see sub-tier descriptions) plus random scenarios: 0-6 table-driven rules (8 packet classes -> Pass | Drop | Deliver(d), d in {0, 0.3, 0.5, 0.999, 1, 1.001, 1.5, 2, 2.5, 3, 4 ms}; a quarter of the rules are stateful) x 1-4 actor scripts on 2-3 hosts (install via turmoil_net::rule, drop / forget / mem::forget guards, drop an alias guard, tagged UDP and small TCP transfers to a peer / loopback (127.0.0.1, ::1, \"localhost\") / the sender's own address (v4 literal, v6 literal, own hostname) / an unrouted address, sleeps) x mode: primitive harness (Net::rule before enter, EnterGuard::rule and guard drops placed between single evaluate calls), fixture::ClientServer, fixture::lo. Non-trivial = some packet was decided by a non-first rule of a chain of >= 2 rules, or two datagrams to one socket had equal deadlines (under a non-empty chain, or evaluated in different ticks) or crossing deadlines; distinct by scenario hash.",
        &[
            "the timing half (delivery window, equal-deadline order, dropped never delivered) is asserted only inside fixture::ClientServer / fixture::lo and only for UDP datagrams; TCP segments are checked for the first-match half only (every emission, including retransmissions, is its own packet)",
            "T_e (the instant a packet left its host) is the fixture tick following the send: sends happen at whole milliseconds of the paused tokio clock, so T_e = t_send + 1 ms; the receive instant is the tokio time at which a task parked in recv_from is resumed",
            "inside the fixtures rules can only be installed from tasks (the fixture owns Net and EnterGuard); Net::rule and EnterGuard::rule are exercised in the primitive mode",
            "the order of two packets with different deadlines delivered in the same tick is not asserted (the property only claims emission order for equal deadlines); it is counted as obs-deadline-inversions-within-a-tick",
            "rules apply to packets 'leaving a host' (rule.rs, lib.rs, README) and Kernel::egress hands out only 'those leaving this host' (its rustdoc; is_local = 'one of this host's local addresses (including implicit loopback)'): a packet addressed to one of the sending host's own addresses (v4 / v6 literal or its registered hostname) is traffic that stays on the host like 127.0.0.1 / ::1, so it must never surface in egress_all nor be shown to a rule, and it arrives whatever rules are installed",
            "every host is registered with three addresses (10.0.0.k, fd00::k and the hostname hk, which the name table maps to 192.168.0.k; the mapping is checked at run time); hostnames resolve to IPv4, so by-hostname sends use the v4 socket",
            "a self-addressed TCP transfer is required to complete only when every TCP transfer of the scenario stays on its host and at most one actor per host opens any (otherwise the host's single acceptor may be busy with a connection that rules legitimately drop or delay)",
            "rule closures never install or remove rules themselves (evaluate holds the thread-local borrow); each rule table is installed at most once per run",
            "datagrams sent in the last two ticks of a run are not judged",
        ],
    )
}

fn replay(_sub: &str, v: &Value) -> Result<Outcome, String> {
    replay_as::<Scenario>(v, &run)
}

// ---------------------------------------------------------------- coverage-guided tier

/// Clamp a byte-decoded scenario (engine::bytesde) into exactly the domain of `strategy()` (sub
/// `chains`): 2..=3 hosts, 0..=6 rules with exactly NCLASS table entries out of the generator's
/// verdict set, 1..=4 actors on hosts 0..=2 with 0..=2 leading installs + 2..=14 operations in
/// `op_strategy`'s ranges, and — only in the primitive mode — 0..=2 permanent rules, 0..=5
/// scheduler actions (round < 10, pos < 4) and the late-guard-drop switch.
pub fn fuzz_sanitize(sc: &mut Scenario) -> bool {
    const DELAYS: [u32; 11] = [0, 300, 500, 999, 1000, 1001, 1500, 2000, 2500, 3000, 4000];
    sc.nhosts = 2 + sc.nhosts % 2;
    sc.rules.truncate(6);
    for r in sc.rules.iter_mut() {
        r.table.resize(NCLASS, V::Pass);
        for v in r.table.iter_mut() {
            if let V::Del(d) = v {
                *d = DELAYS[(*d % 11) as usize];
            }
        }
    }
    let dest = |d: &mut Dest| {
        if let Dest::Peer(k) = d {
            *k %= 2;
        }
    };
    sc.actors.truncate(4);
    if sc.actors.is_empty() {
        sc.actors.push(Actor { host: 0, ops: Vec::new() });
    }
    for a in sc.actors.iter_mut() {
        a.host %= 3;
        // ops = up to 2 leading installs ++ 2..=14 operations
        let lead = a.ops.iter().take(2).take_while(|o| matches!(o, Op::Install(_))).count();
        a.ops.truncate(14 + lead);
        while a.ops.len() < 2 {
            a.ops.push(Op::Sleep(1));
        }
        for o in a.ops.iter_mut() {
            // The byte decoder picks the 8 `Op` variants uniformly, the generator gives tagged UDP
            // sends 14/30 and forget / mem-forget / alias-drop / TCP transfers 1/30 each: three
            // quarters of the decoded values of those four become UDP sends (fields from the
            // value's bits; every UDP send is inside `op_strategy`'s domain at any position).
            let udp_from = |x: u16, v6: bool| Op::Udp {
                dst: match (x >> 4) & 15 {
                    d @ 0..=8 => Dest::Peer((d & 1) as u8),
                    9 | 10 => Dest::Loopback,
                    11 | 12 => Dest::Own,
                    13 => Dest::Nowhere,
                    14 => Dest::OwnName,
                    _ => Dest::LoName,
                },
                port: ((x >> 3) & 1) as u8,
                class: (x & 7) as u8,
                v6,
            };
            let repl = match &*o {
                Op::Forget(r) | Op::MemForget(r) | Op::DropAgain(r) if *r >= 64 => Some(udp_from(*r as u16, false)),
                Op::Tcp { len, v6, .. } if *len % 4 != 0 => Some(udp_from(*len >> 2, *v6)),
                _ => None,
            };
            if let Some(n) = repl {
                *o = n;
            }
            match o {
                Op::Install(r) | Op::DropGuard(r) | Op::Forget(r) | Op::MemForget(r) | Op::DropAgain(r) => *r %= 6,
                Op::Udp { dst, port, class, .. } => {
                    dest(dst);
                    *port %= 2;
                    *class %= NCLASS as u8;
                }
                Op::Tcp { dst, len, .. } => {
                    dest(dst);
                    let y = *len >> 2;
                    *len = if y % 4 == 3 { 1000 + (y / 4) % 3000 } else { 1 + (y / 4) % 199 };
                }
                Op::Sleep(k) => *k %= 4,
            }
        }
    }
    if sc.mode == Mode::Prim {
        sc.permanent.truncate(2);
        for p in sc.permanent.iter_mut() {
            *p %= 6;
        }
        sc.sched.truncate(5);
        for s in sc.sched.iter_mut() {
            s.round %= 10;
            s.pos %= 4;
            match &mut s.act {
                SAct::Install(r) | SAct::DropGuard(r) | SAct::Forget(r) | SAct::MemForget(r) | SAct::DropAgain(r) => *r %= 6,
            }
        }
    } else {
        sc.permanent.clear();
        sc.sched.clear();
        sc.late_guard_drop = false;
    }
    true
}

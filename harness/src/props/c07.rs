//! C07 — after a crash the filesystem holds exactly what was made durable.
//! DESIGN.md §6 C07.  FsDirect driver (`drivers::fsdirect`), op language and
//! interpreters `drivers::fshistory`, POSIX model `models::posixfs`, durability
//! model `models::durable`; the pre-crash part of every case is the C10
//! lock-step interpreter (`props::c10::Run`), so the C10 oracle and its
//! status-driven avoid/taint rules apply unchanged before the crash.
//!
//! A scenario is a history (two hosts = two independent trees) plus a
//! configuration (sync_probability 0 or p, block_size None or b, Fs seed).
//!
//! * mode `Prefixes` (the fault enumeration): for EVERY prefix of the history
//!   the prefix is re-executed from scratch on fresh hosts, the host of the
//!   prefix's last op is crashed (`Fs::crash` + `IoUringHostState::crash`, what
//!   `Sim::crash` does), and the whole universe is observed (exists / metadata
//!   / read / read_dir) and compared with the durable image the model
//!   predicts; the other host must still show its un-crashed current view;
//! * mode `Cycles(points)`: one linear execution with 2-3 crashes at the given
//!   positions; after each crash the model is rebased on the observed
//!   (verified) tree and the history continues;
//! * sub-check `sim`: the same, but the hosts live inside a running
//!   `turmoil::Sim`: the ops are executed by host software (an interpreter of
//!   ops sent as data through a mailbox; the controller steps the Sim until
//!   the answer is there), the crash is `Sim::crash` + `Sim::bounce`, and the
//!   post-crash observation is made by the restarted software.  The
//!   lifecycle of the crashed host's software is a generated dimension
//!   (`Scenario::life`, one code per crash): still running (parked waiting for
//!   the next op) | it has performed its ops and RETURNED `Ok(())`, and the Sim
//!   was stepped so that the runtime collected the result
//!   (`Sim::is_host_running` false) before `Sim::crash` is called; `Sim::crash`
//!   called once | twice before the bounce (the second time on a host that is
//!   already down); 0-2 further steps between the return and the crash, 0-1
//!   steps while the host is down.  The property is stated for the HOST ("after
//!   a host crash its simulated filesystem contains exactly the durable image"),
//!   and so is the rustdoc of `Sim::crash` ("this discards any pending
//!   (unsynced) writes"); neither exempts a host whose software has finished,
//!   so the expectation is the same durable image in every one of these cases.
//!
//! * sub-check `handles` (+ `sim-handles`): a bounded-exhaustive family of
//!   histories with two handles open on one file at the same time — every
//!   writable access mode for the handle the data goes through, every access
//!   mode (read-only included) for the handle the sync is issued on, every sync
//!   flavour through every front end — each with a crash after every prefix
//!   (`handle_family`).  The random classes produce the same shapes with up to
//!   four handles (prologue kinds 4-7, the `reopen` op shape).  The durability
//!   model is per FILE: the property's "contents are those at its last data
//!   sync (sync_all, sync_data or an io_uring fsync)" and the rustdoc of
//!   `File::sync_all` ("equivalent to calling fsync() on the file descriptor
//!   ... File contents (all writes)") make a successful sync on any descriptor
//!   cover what was written through every descriptor of that file.
//!
//! Expectations are asserted only for paths all of whose ancestors exist
//! durably (dangling subtrees are unspecified by the crate's model), not for
//! the two names of a cross-directory rename until both parents were synced
//! after it, and not for objects touched by a C10 finding that is still
//! "known" (status-driven, `c10::is_known`): the path-keyed pending log
//! (F-C10-1, 2, 4, 10, 11) contaminates durability too.

use crate::drivers::fsdirect::{Fe, Host, OpenFlags};
use crate::drivers::fshistory::{
    self as fh, pth, scan_real, Op, RealBackend, RealHost, Res, Seen, Step, Whence, NSLOTS, PATHS,
};
use crate::engine::{pick, replay_as, Ctx, Outcome, Tier};
use crate::models::durable::{Durable, Expect};
use crate::models::posixfs::{is_prefix, parent_of, Ino, Node, Tree};
use crate::props::c10::{self, HostState, Run, StepRec};
use proptest::prelude::*;
use serde::{Deserialize, Serialize};
use serde_json::Value;
use std::cell::{Cell, RefCell};
use std::collections::{BTreeMap, BTreeSet};
use std::io;
use std::rc::Rc;
use std::time::Duration;
use turmoil_fs::FsConfig;

pub const PROP: super::Prop = super::Prop {
    id: "C07",
    level: "fault_enumeration",
    check,
    replay,
};

// ---- known-finding switches of C07's own findings (bits in Scenario::strict;
// the low bits are the C10 rules, see c10::K_*)
pub const K7_XDIR_HALF_FLUSH: u32 = 1 << 20; // F-C07-1
/// durability side of F-C10-1: a file sync through the new name of a file
/// whose rename is not yet durable does not make its data durable
pub const K7_SYNC_THROUGH_RENAME: u32 = 1 << 21;
/// durability side of F-C10-2: a name re-used while a removal is not durable
/// corrupts the durable image stored under that name
pub const K7_NAME_REUSE_IMAGE: u32 = 1 << 22;

/// Finding a C07-side rule belongs to, and whether it is a C10 finding.
fn finding_of(bit: u32) -> (&'static str, bool) {
    match bit {
        K7_XDIR_HALF_FLUSH => ("F-C07-1", false),
        K7_SYNC_THROUGH_RENAME => ("F-C10-1", true),
        K7_NAME_REUSE_IMAGE => ("F-C10-2", true),
        _ => ("", false),
    }
}

/// Ids of the C07 findings with status "known" in known_findings.json (under
/// VERIF_ROOT).  Same contract as `c10::is_known`: a rule is active only while
/// its finding is recorded as known.
pub fn is_known(id: &str) -> bool {
    static KNOWN: std::sync::OnceLock<Vec<String>> = std::sync::OnceLock::new();
    KNOWN
        .get_or_init(|| {
            crate::engine::load_findings()
                .into_iter()
                .filter(|f| f.property == "C07" && f.status == "known")
                .map(|f| f.id)
                .collect()
        })
        .iter()
        .any(|k| k == id)
}

#[derive(Clone, Debug, Serialize, Deserialize, PartialEq, Eq)]
pub enum Mode {
    /// crash after every prefix, each prefix re-executed from scratch
    Prefixes,
    /// one linear execution, crash after this many ops (ascending), continue
    Cycles(Vec<u8>),
}

#[derive(Clone, Debug, Serialize, Deserialize)]
pub struct Scenario {
    pub ops: Vec<Step>,
    /// sync_probability in percent (0 = only explicit syncs)
    pub sync_pct: u8,
    /// torn-write block size (0 = writes are atomic)
    pub block: u8,
    /// seed of the per-host Fs rng (direct mode) / of the Sim (sim mode)
    pub seed: u64,
    pub mode: Mode,
    /// bit mask of C10 known-finding rules switched OFF (see c10::K_*)
    #[serde(default)]
    pub strict: u32,
    /// set for probe scenarios: failure signatures get the prefix `probe:<name>:`
    #[serde(default)]
    pub probe: Option<String>,
    /// Sim-backed sub-checks only: lifecycle of the crashed host's software at
    /// the moment `Sim::crash` is called, one code per crash (mode `Prefixes`:
    /// the crash after prefix k uses `life[k % len]`; mode `Cycles`: the k-th
    /// crash uses `life[k % len]`); empty = the software is always still
    /// running.  See [`Life`].
    #[serde(default)]
    pub life: Vec<u8>,
}

/// Number of lifecycle codes (see [`Life::decode`]).
pub const NLIFE: u8 = 24;

/// State of the host software when `Sim::crash` hits it (Sim-backed sub-checks).
/// The property ("after a host crash its simulated filesystem contains exactly
/// the durable image") and the rustdoc of `Sim::crash` ("this discards any
/// pending (unsynced) writes. Data that was synced via sync_all() survives the
/// crash") are stated for the HOST, whatever its software is doing: parked
/// waiting for work, already returned `Ok(())` (a host that did its batch of
/// filesystem work and finished), or already down from an earlier crash.
#[derive(Clone, Copy, Debug, PartialEq, Eq)]
struct Life {
    /// the software performs the ops up to the crash point and then RETURNS
    /// `Ok(())`; the Sim is stepped until the runtime has collected the result
    /// (`Sim::is_host_running` false) before `Sim::crash` is called
    finished: bool,
    /// `Sim::crash` is called a second time on the host that is already down
    /// (no bounce in between)
    twice: bool,
    /// additional steps of the Sim between the software's return and the crash
    gap: u8,
    /// steps of the Sim while the host is down (between crash and bounce)
    down: u8,
}

impl Life {
    fn decode(v: u8) -> Life {
        let v = v % NLIFE;
        Life {
            finished: v & 1 == 1,
            twice: v & 2 == 2,
            gap: (v / 4) % 3,
            down: v / 12,
        }
    }
    fn name(&self) -> &'static str {
        match (self.finished, self.twice) {
            (false, false) => "software-still-running",
            (true, false) => "software-returned-ok-before-the-crash",
            (false, true) => "software-still-running,crashed-twice-before-the-bounce",
            (true, true) => "software-returned-ok-before-the-crash,crashed-twice-before-the-bounce",
        }
    }
}

fn fs_config(sc: &Scenario) -> FsConfig {
    let mut cfg = FsConfig::default();
    if sc.sync_pct > 0 {
        cfg.sync_probability(sc.sync_pct as f64 / 100.0);
    }
    if sc.block > 0 {
        cfg.block_size(sc.block as u64);
    }
    cfg
}

// ---------------------------------------------------------------------------
// Sim backend: the real side lives inside a turmoil::Sim host

enum Req {
    Exec { op: Op, cur: usize, data: Vec<u8> },
    Scan,
    CloseSlot(usize),
    SeekSlot(usize, u64),
    /// the software returns `Ok(())` (everything it holds is dropped)
    Exit,
}
enum Resp {
    Exec(Result<Res, (io::ErrorKind, String)>),
    Scan(Vec<(bool, Seen)>),
    Unit,
}

#[derive(Default)]
struct Mailbox {
    req: RefCell<Option<Req>>,
    resp: RefCell<Option<Resp>>,
    slots: RefCell<[bool; NSLOTS]>,
    /// incarnations of the software started so far
    starts: Cell<u32>,
    /// requests served by the current incarnation
    served: Cell<u32>,
}

/// Host software: an interpreter of requests sent as data.  Everything it
/// holds (handles, ring) dies with it at a crash — or when it is told to
/// finish (`Req::Exit`): it then returns `Ok(())` like any host whose work is
/// done, and the host stays up with no software running on it.
async fn sim_program(mb: Rc<Mailbox>) -> turmoil::Result {
    let mut rh = RealHost::new(Host::ambient());
    mb.starts.set(mb.starts.get() + 1);
    mb.served.set(0);
    *mb.slots.borrow_mut() = [false; NSLOTS];
    loop {
        let req = mb.req.borrow_mut().take();
        if let Some(req) = req {
            let resp = match req {
                Req::Exec { op, cur, data } => {
                    Resp::Exec(fh::exec_real(&mut rh.host, &mut rh.handles, &op, cur, &data).map_err(|e| (e.kind(), e.to_string())))
                }
                Req::Scan => Resp::Scan(rh.host.enter(scan_real)),
                Req::CloseSlot(s) => {
                    rh.close_slot(s);
                    Resp::Unit
                }
                Req::SeekSlot(s, pos) => {
                    rh.seek_slot(s, pos);
                    Resp::Unit
                }
                Req::Exit => {
                    drop(rh);
                    *mb.slots.borrow_mut() = [false; NSLOTS];
                    mb.served.set(mb.served.get() + 1);
                    *mb.resp.borrow_mut() = Some(Resp::Unit);
                    return Ok(());
                }
            };
            let mut sl = [false; NSLOTS];
            for (i, h) in rh.handles.iter().enumerate() {
                sl[i] = h.is_some();
            }
            *mb.slots.borrow_mut() = sl;
            mb.served.set(mb.served.get() + 1);
            *mb.resp.borrow_mut() = Some(resp);
        }
        tokio::time::sleep(Duration::from_millis(1)).await;
    }
}

struct SimShared {
    sim: RefCell<turmoil::Sim<'static>>,
    /// a step of the Sim failed (reported once)
    error: RefCell<Option<String>>,
    steps: Cell<u64>,
    /// lifecycle code of the next crash (set by the chain before `crash()`)
    next_life: Cell<u8>,
    /// what the last crash found: `Sim::is_host_running` just before the
    /// first `Sim::crash`, and after the bounce
    last_crash: Cell<(bool, bool)>,
}

struct SimBackend {
    sh: Rc<SimShared>,
    name: &'static str,
    mb: Rc<Mailbox>,
}

impl SimBackend {
    fn step_n(&mut self, n: usize) {
        for _ in 0..n {
            if let Err(e) = self.sh.sim.borrow_mut().step() {
                *self.sh.error.borrow_mut() = Some(format!("{e}"));
                break;
            }
            self.sh.steps.set(self.sh.steps.get() + 1);
        }
    }

    fn call(&mut self, req: Req) -> Resp {
        *self.mb.resp.borrow_mut() = None;
        *self.mb.req.borrow_mut() = Some(req);
        for _ in 0..200 {
            if let Err(e) = self.sh.sim.borrow_mut().step() {
                *self.sh.error.borrow_mut() = Some(format!("{e}"));
                break;
            }
            self.sh.steps.set(self.sh.steps.get() + 1);
            if let Some(r) = self.mb.resp.borrow_mut().take() {
                return r;
            }
        }
        if self.sh.error.borrow().is_none() {
            *self.sh.error.borrow_mut() = Some(format!("host {} did not answer a request within 200 steps", self.name));
        }
        Resp::Unit
    }
}

impl RealBackend for SimBackend {
    fn exec(&mut self, op: &Op, cur: usize, data: &[u8]) -> io::Result<Res> {
        if let Op::Advance { ms } = op {
            // let simulated time pass: step the Sim (tick = 1 ms), bounded
            for _ in 0..(*ms as u64).min(20) {
                if let Err(e) = self.sh.sim.borrow_mut().step() {
                    *self.sh.error.borrow_mut() = Some(format!("{e}"));
                    break;
                }
            }
            return Ok(Res::Unit);
        }
        match self.call(Req::Exec {
            op: op.clone(),
            cur,
            data: data.to_vec(),
        }) {
            Resp::Exec(r) => r.map_err(|(k, m)| io::Error::new(k, m)),
            _ => Err(io::Error::other("tvh: sim host gave no answer")),
        }
    }
    fn scan(&mut self) -> Vec<(bool, Seen)> {
        match self.call(Req::Scan) {
            Resp::Scan(v) => v,
            _ => PATHS.iter().map(|_| (false, Seen::Odd("tvh: sim host gave no answer".into()))).collect(),
        }
    }
    fn has_slot(&self, slot: usize) -> bool {
        self.mb.slots.borrow()[slot]
    }
    fn close_slot(&mut self, slot: usize) {
        self.call(Req::CloseSlot(slot));
    }
    fn seek_slot(&mut self, slot: usize, pos: u64) {
        self.call(Req::SeekSlot(slot, pos));
    }
    fn crash(&mut self) {
        let life = Life::decode(self.sh.next_life.get());
        if life.finished {
            // the software has done its batch of work: it returns Ok(()); the
            // step in which it does so lets the runtime collect the result
            self.call(Req::Exit);
            self.step_n(life.gap as usize);
            // (bounded) until the host is reported as not running
            for _ in 0..5 {
                if !self.sh.sim.borrow_mut().is_host_running(self.name) {
                    break;
                }
                self.step_n(1);
            }
        }
        let running_before = self.sh.sim.borrow_mut().is_host_running(self.name);
        self.sh.sim.borrow_mut().crash(self.name);
        self.step_n(life.down as usize);
        if life.twice {
            self.sh.sim.borrow_mut().crash(self.name);
            self.step_n(life.down as usize);
        }
        let mut sim = self.sh.sim.borrow_mut();
        sim.bounce(self.name);
        let running_after = sim.is_host_running(self.name);
        self.sh.last_crash.set((running_before, running_after));
        *self.mb.req.borrow_mut() = None;
        *self.mb.resp.borrow_mut() = None;
        *self.mb.slots.borrow_mut() = [false; NSLOTS];
    }
    fn shutdown(&mut self) {}
}

fn sim_hosts(sc: &Scenario) -> (Vec<HostState>, Rc<SimShared>, Vec<Rc<Mailbox>>) {
    let mut b = turmoil::Builder::new();
    b.tick_duration(Duration::from_millis(1))
        .rng_seed(sc.seed)
        .epoch(std::time::SystemTime::UNIX_EPOCH + Duration::from_secs(1_000_000))
        .simulation_duration(Duration::from_secs(1_000_000));
    *b.fs() = fs_config(sc);
    let mut sim = b.build();
    let mbs: Vec<Rc<Mailbox>> = vec![Rc::new(Mailbox::default()), Rc::new(Mailbox::default())];
    for (name, mb) in ["h0", "h1"].into_iter().zip(mbs.iter()) {
        let mb = mb.clone();
        sim.host(name, move || sim_program(mb.clone()));
    }
    let sh = Rc::new(SimShared {
        sim: RefCell::new(sim),
        error: RefCell::new(None),
        steps: Cell::new(0),
        next_life: Cell::new(0),
        last_crash: Cell::new((true, true)),
    });
    let hosts = ["h0", "h1"]
        .into_iter()
        .zip(mbs.iter())
        .map(|(name, mb)| {
            HostState::with_backend(Box::new(SimBackend {
                sh: sh.clone(),
                name,
                mb: mb.clone(),
            }))
        })
        .collect();
    (hosts, sh, mbs)
}

fn direct_hosts(sc: &Scenario) -> Vec<HostState> {
    (0..2u64)
        .map(|h| HostState::with_host(Host::with_config(fs_config(sc), sc.seed.wrapping_mul(2).wrapping_add(h), Duration::from_secs(1_000_000))))
        .collect()
}

// ---------------------------------------------------------------------------
// per-host durability bookkeeping on top of the C10 interpreter

#[derive(Default)]
struct Dur {
    model: Durable,
    /// file inodes whose durable content is not asserted (finding id)
    content_taint: BTreeMap<Ino, &'static str>,
    /// paths whose post-crash content is not asserted (finding id)
    path_content_taint: BTreeMap<String, &'static str>,
    /// cross-directory renames whose two names are not asserted (yet)
    xdir: Vec<XDir>,
    /// directory paths removed since the last crash
    removed_dirs: BTreeSet<String>,
    /// directory paths removed and created again since the last crash: the
    /// crate's model is path-keyed, so what was durable below the old
    /// incarnation and what is made durable below the new one mix; everything
    /// strictly below such a path is a dangling subtree, not asserted
    redirs: BTreeSet<String>,
    /// per file inode: the handle slots (with their access-mode tag) through
    /// which data mutations were made that no explicit file sync has covered
    /// yet.  Only used for the class labels: the durability model itself is
    /// per file (fsync / sync_all / sync_data are promised per FILE, whatever
    /// descriptor they are issued on).
    pending_via: BTreeMap<Ino, BTreeSet<usize>>,
}

/// A cross-directory rename of a file: by the property's quantifier its two
/// names are only asserted again once both parent directories were synced
/// after it.
struct XDir {
    from: String,
    to: String,
    /// parents still to be synced
    need: BTreeSet<String>,
}

impl Dur {
    fn xdir_pending(&self, p: &str) -> bool {
        self.xdir
            .iter()
            .any(|x| !x.need.is_empty() && (is_prefix(&x.from, p) || is_prefix(&x.to, p)))
    }
    fn below_recreated_dir(&self, p: &str) -> bool {
        self.redirs.iter().any(|q| q != p && is_prefix(q, p))
    }
}

struct Chain<'a> {
    sc: &'a Scenario,
    run: Run<'a>,
    dur: Vec<Dur>,
    sim: Option<Rc<SimShared>>,
    crashes: u64,
    nt: bool,
    /// resolved handle slot of the handle op being executed (the same
    /// resolution the C10 interpreter makes), with the handle's access tag
    cur_handle: Option<(usize, &'static str)>,
}

/// Access-mode class of a handle.
fn access_tag(mh: &crate::models::posixfs::MHandle) -> &'static str {
    match (mh.readable, mh.writable, mh.append) {
        (true, false, _) => "read-only",
        (true, true, false) => "read-write",
        (false, true, false) => "write-only",
        (true, true, true) => "read-append",
        (false, true, true) => "append-only",
        (false, false, _) => "no-access",
    }
}

fn hex(d: &[u8]) -> String {
    d.iter().map(|b| format!("{b:02x}")).collect::<Vec<_>>().join("")
}

impl<'a> Chain<'a> {
    fn sim_error(&self) -> Option<String> {
        self.sim.as_ref().and_then(|s| s.error.borrow_mut().take())
    }

    /// Is C07's own rule `bit` active (not switched off by the scenario and
    /// its finding still recorded as known)?
    fn on7(&self, bit: u32) -> bool {
        let (id, c10_finding) = finding_of(bit);
        self.sc.strict & bit == 0 && if c10_finding { c10::is_known(id) } else { is_known(id) }
    }

    fn fail(&mut self, sig: String, detail: String) {
        let sig = match &self.sc.probe {
            Some(p) => format!("probe:{p}:{sig}"),
            None => sig,
        };
        self.run.out.fail(sig, detail);
    }

    /// Feed one executed step into the durability model and apply the
    /// durability-specific taints of the (still known) C10 findings.
    fn absorb(&mut self, rec: &StepRec) {
        if rec.executed {
            if let Op::Open { slot, .. } | Op::Close { slot } = &rec.op {
                // whatever was in the slot is closed now (also if the open
                // failed): data written through it was written through "a
                // handle that is gone"
                self.slot_closed(rec.host, *slot as usize % NSLOTS);
            }
        }
        if !rec.executed || !rec.model_ok || !rec.real_ok {
            return;
        }
        let h = rec.host;
        match &rec.op {
            Op::Open { slot, path, fl, .. } => {
                let Some(ino) = rec.last.ino else { return };
                if fl.truncate && fl.write {
                    let after = self.run.hosts[h].model.file(ino).clone();
                    self.dur[h].model.data_mut(ino, None, &after, false);
                    self.touched_through(h, pth(*path), ino);
                    self.dur[h].pending_via.entry(ino).or_default().insert(*slot as usize % NSLOTS);
                }
                self.on_arrival(h, pth(*path), ino);
                self.label_open_handles(h, ino);
            }
            Op::WriteAt { len, .. } | Op::Write { len, .. } => {
                if *len > 0 {
                    let ino = rec.last.ino.unwrap();
                    let after = self.run.hosts[h].model.file(ino).clone();
                    self.dur[h].model.data_mut(ino, Some((rec.last.off, rec.data.clone())), &after, true);
                    if let Some(hp) = rec.handle_path.clone() {
                        self.touched_through(h, &hp, ino);
                    }
                    if let Some((s, _)) = self.cur_handle {
                        self.dur[h].pending_via.entry(ino).or_default().insert(s);
                    }
                }
            }
            Op::SetLen { .. } => {
                let ino = rec.last.ino.unwrap();
                let after = self.run.hosts[h].model.file(ino).clone();
                self.dur[h].model.data_mut(ino, None, &after, true);
                if let Some(hp) = rec.handle_path.clone() {
                    self.touched_through(h, &hp, ino);
                }
                if let Some((s, _)) = self.cur_handle {
                    self.dur[h].pending_via.entry(ino).or_default().insert(s);
                }
            }
            Op::WriteFile { path, len, .. } => {
                let ino = rec.last.ino.unwrap();
                // File::create (truncation, no background-sync roll) ...
                self.dur[h].model.data_mut(ino, None, &[], false);
                // ... then one write at 0 if there is data
                if *len > 0 {
                    let after = self.run.hosts[h].model.file(ino).clone();
                    self.dur[h].model.data_mut(ino, Some((0, rec.data.clone())), &after, true);
                }
                self.touched_through(h, pth(*path), ino);
                self.on_arrival(h, pth(*path), ino);
                // written by a path op: through no handle slot at all
                self.dur[h].pending_via.entry(ino).or_default().insert(usize::MAX);
            }
            Op::SyncAll { fe, .. } | Op::SyncData { fe, .. } => {
                let ino = rec.handle_ino.unwrap();
                let cur = self.run.hosts[h].model.file(ino).clone();
                // ---- class labels: which handle carries the sync, and whose
                // data it has to make durable.  A successful fsync / sync_all /
                // sync_data / ring Fsync is a data sync of the FILE: it covers
                // what was written through every descriptor of it, whatever
                // the access mode of the descriptor it is issued on.
                let via = self.dur[h].pending_via.remove(&ino).unwrap_or_default();
                let pending = self.dur[h].model.files.get(&ino).map(|f| !f.muts.is_empty()).unwrap_or(false);
                if let Some((s, tag)) = self.cur_handle {
                    let flavour = if matches!(rec.op, Op::SyncAll { .. }) { "sync_all" } else { "sync_data" };
                    let fe = match fe {
                        Fe::Std => "std",
                        Fe::Tokio => "tokio",
                        Fe::Uring => "io_uring-fsync",
                    };
                    self.run.out.label(format!("file-sync:{fe}:on-{tag}-handle"));
                    let foreign = pending && via.iter().any(|w| *w != s);
                    if foreign {
                        self.run.out.label("file-sync-covers-data-written-through-another-handle");
                        self.run.out.label(format!("file-sync-of-foreign-data:{fe}:{flavour}:on-{tag}-handle"));
                        self.run.out.count("file syncs that had to make durable data written through another handle", 1);
                        if tag == "read-only" {
                            self.run.out.count("file syncs on a read-only handle with data pending from another handle", 1);
                        }
                    }
                }
                self.dur[h].model.file_synced(ino, &cur);
                if let Some(hp) = rec.handle_path.clone() {
                    self.touched_through(h, &hp, ino);
                }
                // F-C10-1: data ops are keyed by path; a sync through the new
                // name of a file whose rename is not yet durable does not make
                // the data written under the old name durable
                let renamed = self.run.hosts[h].facts.get(&ino).map(|f| f.renamed.is_some()).unwrap_or(false);
                if renamed {
                    self.run.out.label("file-sync-through-not-yet-durable-rename");
                    if self.on7(K7_SYNC_THROUGH_RENAME) {
                        self.dur[h].content_taint.entry(ino).or_insert("F-C10-1");
                        self.run.out.exclude("F-C10-1");
                    }
                }
            }
            Op::SyncDir { path, .. } => {
                let p = pth(*path);
                let tree = &self.run.hosts[h].model;
                self.dur[h].model.dir_synced(tree, p);
                let on = self.on7(K7_XDIR_HALF_FLUSH);
                let mut poison: Vec<String> = Vec::new();
                for x in self.dur[h].xdir.iter_mut() {
                    // F-C07-1: sync_dir of ONE of the two directories consumes
                    // the rename but only book-keeps the name inside that
                    // directory.  Source directory first: the destination
                    // entry is never marked durable (the file is lost by a
                    // crash even after the destination directory is synced
                    // too).  Destination directory first: the source name keeps
                    // its durable-entry marker for ever (a later file of that
                    // name survives a crash without any sync_dir).
                    if x.need.len() == 2 && x.need.contains(p) {
                        let source_first = parent_of(&x.from) == p;
                        self.run.out.label(if source_first {
                            "cross-dir-rename:source-directory-synced-first"
                        } else {
                            "cross-dir-rename:destination-directory-synced-first"
                        });
                        if on {
                            // source first: the destination entry is the
                            // broken half; destination first: the source name
                            poison.push(if source_first { x.to.clone() } else { x.from.clone() });
                        }
                    }
                    x.need.remove(p);
                }
                for n in poison {
                    // existence under these names is unknown from now on, also
                    // across crashes (region taints are carried over)
                    self.run.taint_region(h, &n, "F-C07-1");
                }
                self.dur[h].xdir.retain(|x| !x.need.is_empty());
            }
            Op::RemoveDir { path, .. } => {
                self.dur[h].removed_dirs.insert(pth(*path).to_string());
            }
            Op::CreateDir { path, .. } | Op::CreateDirAll { path, .. } => {
                let p = pth(*path);
                let again: Vec<String> = self.dur[h]
                    .removed_dirs
                    .iter()
                    .filter(|q| is_prefix(q, p) && (*q == p || matches!(rec.op, Op::CreateDirAll { .. })))
                    .cloned()
                    .collect();
                for q in again {
                    self.run.out.label("directory-removed-and-created-again");
                    self.dur[h].redirs.insert(q);
                }
            }
            Op::Rename { from, to, .. } => {
                let (f, t) = (pth(*from), pth(*to));
                if f == t {
                    return;
                }
                let (pf, pt) = (parent_of(f), parent_of(t));
                if pf != pt {
                    self.run.out.label("cross-directory-rename");
                    let need: BTreeSet<String> = [pf, pt].into_iter().collect();
                    self.dur[h].xdir.push(XDir {
                        from: f.to_string(),
                        to: t.to_string(),
                        need,
                    });
                }
                if let Some(ino) = self.run.hosts[h].model.lookup(t) {
                    if !self.run.hosts[h].model.is_dir(ino) {
                        self.on_arrival(h, t, ino);
                    }
                }
            }
            _ => {}
        }
    }

    /// The data of file `ino` was touched (written, truncated, synced) through
    /// the name `p`.  The crate keys pending data ops and durable images by
    /// path: if the durable holder of `p` is a different inode (the current
    /// holder was created there or renamed there and that is not yet durable),
    /// the op lands in — or is flushed / torn into — the durable image of the
    /// old holder.  Durability side of F-C10-1 (arrived by rename) / F-C10-2
    /// (created under a re-used name).
    fn touched_through(&mut self, h: usize, p: &str, ino: Ino) {
        let holder = match self.dur[h].model.expect(&self.run.hosts[h].model, p) {
            Expect::File { ino } => Some(ino),
            Expect::Dir { ino, .. } => Some(ino),
            _ => None,
        };
        if holder.is_some() && holder != Some(ino) {
            let renamed = self.run.hosts[h].facts.get(&ino).map(|f| f.renamed.is_some()).unwrap_or(false);
            let (bit, id) = if renamed {
                (K7_SYNC_THROUGH_RENAME, "F-C10-1")
            } else {
                (K7_NAME_REUSE_IMAGE, "F-C10-2")
            };
            self.run.out.label("data-op-through-a-name-whose-durable-holder-is-another-file");
            if self.on7(bit) {
                self.dur[h].path_content_taint.entry(p.to_string()).or_insert(id);
                self.run.out.exclude(id);
            }
        }
    }

    /// A file inode arrived at `p` (created or renamed there).  F-C10-2: if the
    /// C10 rules data-tainted it because the name still has a not-yet-durable
    /// removal / stale data of a former holder, the durable image stored under
    /// that name (the former holder's) is affected as well.
    fn on_arrival(&mut self, h: usize, p: &str, ino: Ino) {
        if let Some(id) = self.run.hosts[h].data_taint.get(&ino).copied() {
            if id == "F-C10-2" && self.on7(K7_NAME_REUSE_IMAGE) {
                self.dur[h].path_content_taint.entry(p.to_string()).or_insert("F-C10-2");
            }
        }
    }

    fn slot_closed(&mut self, h: usize, s: usize) {
        for v in self.dur[h].pending_via.values_mut() {
            if v.remove(&s) {
                v.insert(usize::MAX - 1);
            }
        }
    }

    /// Class labels: how many usable handles are open on `ino` and with
    /// which access modes (after an open).
    fn label_open_handles(&mut self, h: usize, ino: Ino) {
        let hs = &self.run.hosts[h];
        let tags: BTreeSet<&'static str> = hs
            .mh
            .iter()
            .flatten()
            .filter(|m| m.ino == ino && hs.model.lookup(&m.path) == Some(ino))
            .map(access_tag)
            .collect();
        let n = hs.mh.iter().flatten().filter(|m| m.ino == ino && hs.model.lookup(&m.path) == Some(ino)).count();
        if n >= 2 {
            self.run.out.label(format!("file-with-{}-open-handles", n.min(3)));
            if tags.len() >= 2 {
                self.run.out.label("file-with-handles-of-different-access-modes");
            }
            if tags.contains("read-only") && tags.len() >= 2 {
                self.run.out.label("file-with-read-only-and-writable-handle");
            }
        }
    }

    /// Execute ops[from..to] in lock-step; false on failure.
    fn execute(&mut self, from: usize, to: usize) -> bool {
        for i in from..to {
            let step = &self.sc.ops[i];
            // the handle a handle op will work on (same resolution as the
            // interpreter's: the k-th usable handle)
            self.cur_handle = step.op.handle_slot().and_then(|raw| {
                let hs = &self.run.hosts[(step.host as usize) % self.run.hosts.len()];
                let s = fh::resolve_slot(&hs.model, &hs.mh, raw);
                hs.mh[s].as_ref().map(|m| (s, access_tag(m)))
            });
            self.run.step(i, step);
            if let Some(f) = self.run.out.failure.take() {
                // a C10-type violation before the crash
                self.fail(format!("pre-crash:{}", f.signature), f.detail);
                return false;
            }
            if let Some(rec) = self.run.log.pop() {
                self.absorb(&rec);
            }
            if let Some(e) = self.sim_error() {
                self.fail("sim: step failed or host software stopped answering".into(), e);
                return false;
            }
        }
        true
    }

    /// Crash host `h`, observe, verify.  `continue_after`: rebase the model on
    /// the observed tree so that the history can go on.
    fn crash_and_verify(&mut self, h: usize, at: usize, continue_after: bool, life_idx: usize) -> bool {
        self.crashes += 1;
        let bg = self.sc.sync_pct > 0;
        let block = self.sc.block as u64;
        // lifecycle of the host software at the crash (Sim-backed runs only)
        let life = match (&self.sim, self.sc.life.is_empty()) {
            (Some(_), false) => Some(Life::decode(self.sc.life[life_idx % self.sc.life.len()])),
            (Some(_), true) => Some(Life::decode(0)),
            (None, _) => None,
        };
        let ctx = format!(
            "crash of host {h} after op #{} ({}){}",
            at.saturating_sub(1),
            self.sc.ops.get(at.saturating_sub(1)).map(|s| fh::describe(&fh::concretize(&self.run.hosts[h].model, &s.op))).unwrap_or_default(),
            match life {
                Some(l) => format!(" [Sim::crash, {}; {} extra steps before the crash, {} steps down]", l.name(), l.gap, l.down),
                None => String::new(),
            }
        );
        // ---- expectation (before the crash: the model state is consumed by it)
        let hs = &self.run.hosts[h];
        let d = &self.dur[h];
        let mut expects: Vec<Expect> = PATHS.iter().map(|p| d.model.expect(&hs.model, p)).collect();
        // A directory that exists durably AND currently, but as two different
        // incarnations (removed and created again, the removal not durable):
        // what was made durable inside the new incarnation (e.g. by sync_dir of
        // a child) hangs below a directory that is itself not durable — a
        // dangling subtree in the sense of the property, not asserted.
        let reincarnated: Vec<&str> = PATHS
            .iter()
            .enumerate()
            .filter(|(i, p)| match (&expects[*i], hs.model.lookup(p)) {
                (Expect::Dir { ino, .. }, Some(cur)) => *ino != cur && hs.model.is_dir(cur),
                _ => false,
            })
            .map(|(_, p)| *p)
            .collect();
        for (i, p) in PATHS.iter().enumerate() {
            if reincarnated.iter().any(|q| is_prefix(q, p)) || d.below_recreated_dir(p) {
                expects[i] = Expect::Unasserted;
            }
        }
        if !reincarnated.is_empty() {
            self.run.out.label("directory-reincarnated-before-crash (subtree unasserted)");
        }
        // non-trivial rule: some asserted file / directory has both a durable
        // and a non-durable mutation in the crashed prefix
        for (i, e) in expects.iter().enumerate() {
            let p = PATHS[i];
            if hs.self_tainted(p) || d.xdir_pending(p) {
                continue;
            }
            match e {
                Expect::File { ino } => {
                    if let Some(f) = d.model.files.get(ino) {
                        let tainted = hs.data_taint.contains_key(ino) || d.content_taint.contains_key(ino) || d.path_content_taint.contains_key(p);
                        if !tainted && f.had_durable_mut && !f.muts.is_empty() {
                            self.nt = true;
                        }
                    }
                }
                Expect::Dir { ino, .. } => {
                    if let (Some(dd), Node::Dir(cur)) = (d.model.dirs.get(ino), &hs.model.nodes[*ino]) {
                        if dd.had_durable_change && dd.entries != *cur {
                            self.nt = true;
                        }
                    }
                }
                _ => {}
            }
        }
        let pre_crash_current: Vec<Option<Vec<u8>>> = PATHS
            .iter()
            .map(|p| hs.model.lookup(p).filter(|i| !hs.model.is_dir(*i)).map(|i| hs.model.file(i).clone()))
            .collect();

        // ---- the fault
        if let Some(sh) = &self.sim {
            sh.next_life.set(if self.sc.life.is_empty() { 0 } else { self.sc.life[life_idx % self.sc.life.len()] });
        }
        self.run.hosts[h].real.crash();
        let mut finished_host_crashed = false;
        if let (Some(sh), Some(l)) = (&self.sim, life) {
            let (running_before, _running_after) = sh.last_crash.get();
            self.run.out.label(format!("sim-crash:{}", l.name()));
            if l.finished {
                if running_before {
                    // the class was not reached (never seen): counted, not a
                    // C07 clause
                    self.run.out.count("sim-crash: software returned but the host was still reported running", 1);
                } else {
                    finished_host_crashed = true;
                    self.run.out.count("sim-crash: crashes of a host whose software had returned Ok(()) (is_host_running false)", 1);
                }
            }
            if l.twice {
                self.run.out.count("sim-crash: crashes issued twice before the bounce", 1);
            }
            if l.down > 0 {
                self.run.out.label("sim-crash:steps-while-the-host-is-down");
            }
        }
        let obs = self.run.hosts[h].real.scan();
        if let Some(e) = self.sim_error() {
            self.fail("sim: step failed or host software stopped answering".into(), format!("{ctx}: {e}"));
            return false;
        }

        // ---- verification
        let hs = &self.run.hosts[h];
        let d = &self.dur[h];
        let mut problem: Option<(String, String)> = None;
        let mut unasserted = 0u64;
        let mut skipped_taint = 0u64;
        let mut chosen: BTreeMap<Ino, Vec<u8>> = BTreeMap::new();
        let mut excl: Vec<&'static str> = Vec::new();
        let (mut n_absent, mut n_dirs, mut n_files, mut n_rolled_back, mut n_knob_visible) = (0u64, 0u64, 0u64, 0u64, 0u64);
        // entries first, directory listings second (so that a lost / surviving
        // entry is reported as such and not as a listing difference)
        let order: Vec<usize> = (0..PATHS.len())
            .filter(|i| !matches!(expects[*i], Expect::Dir { .. }))
            .chain((0..PATHS.len()).filter(|i| matches!(expects[*i], Expect::Dir { .. })))
            .collect();
        for i in order {
            let p = &PATHS[i];
            let (rex, rseen) = &obs[i];
            let mut bad = |aspect: &str, dd: String| {
                if problem.is_none() {
                    problem = Some((aspect.to_string(), format!("path {p}: {dd}")));
                }
            };
            if let Seen::Odd(s) = rseen {
                if !hs.self_tainted(p) && expects[i] != Expect::Unasserted {
                    bad("inconsistent-observation", s.clone());
                }
                continue;
            }
            if let Some(id) = hs.region_taint.iter().find(|(q, _)| is_prefix(q, p)).map(|(_, id)| *id) {
                skipped_taint += 1;
                excl.push(id);
                continue;
            }
            if d.xdir_pending(p) {
                unasserted += 1;
                continue;
            }
            match &expects[i] {
                Expect::Unasserted => unasserted += 1,
                Expect::Absent => {
                    n_absent += 1;
                    if hs.model.lookup(p).is_some() {
                        n_rolled_back += 1; // existed before the crash, must be gone
                    }
                    if *rex || *rseen != Seen::Absent {
                        bad("unsynced-entry-survived", format!("expected absent after the crash, observed {}", seen_short(rseen)));
                    }
                }
                Expect::Dir { entries, .. } => match rseen {
                    Seen::Dir { entries: Some(re) } => {
                        n_dirs += 1;
                        let f = |v: &Vec<String>| -> Vec<String> {
                            v.iter()
                                .filter(|q| {
                                    let unasserted = PATHS
                                        .iter()
                                        .position(|x| x == q)
                                        .map(|k| expects[k] == Expect::Unasserted)
                                        .unwrap_or(false);
                                    !hs.self_tainted(q) && !d.xdir_pending(q) && !unasserted
                                })
                                .cloned()
                                .collect()
                        };
                        let (re, me) = (f(re), f(entries));
                        if re != me {
                            bad("read_dir", format!("entries observed {re:?} expected (durable) {me:?}"));
                        }
                    }
                    Seen::Absent => bad("durable-entry-lost", "durable directory is gone after the crash".into()),
                    other => bad("kind", format!("expected a directory, observed {}", seen_short(other))),
                },
                Expect::File { ino } => match rseen {
                    Seen::File { len, content } => {
                        let content = content.clone().unwrap_or_default();
                        if *len != content.len() as u64 {
                            bad("len-vs-content", format!("metadata len {len} but read returned {} bytes", content.len()));
                            continue;
                        }
                        let taint = hs
                            .data_taint
                            .get(ino)
                            .or_else(|| d.content_taint.get(ino))
                            .or_else(|| d.path_content_taint.get(*p))
                            .copied();
                        if let Some(id) = taint {
                            skipped_taint += 1;
                            excl.push(id);
                            chosen.insert(*ino, content);
                            continue;
                        }
                        let empty = Default::default();
                        let fd = d.model.files.get(ino).unwrap_or(&empty);
                        match fd.admissible(bg, block, 4096) {
                            None => {
                                self.run.out.count("content not asserted: admissible set too large to enumerate", 1);
                            }
                            Some(set) => {
                                n_files += 1;
                                if pre_crash_current[i].as_ref() != Some(&content) {
                                    n_rolled_back += 1; // unsynced data rolled back
                                }
                                if set.len() > 1 && content != fd.durable {
                                    n_knob_visible += 1;
                                }
                                if !set.contains(&content) {
                                    let class = if !bg && block == 0 {
                                        if pre_crash_current[i].as_ref() == Some(&content) {
                                            "unsynced-data-survived"
                                        } else {
                                            "synced-data-lost-or-altered"
                                        }
                                    } else {
                                        "outside-admissible-set"
                                    };
                                    bad(
                                        &format!("content:{class}"),
                                        format!(
                                            "observed {} ; durable {} ; pre-crash current {} ; {} admissible contents{}",
                                            hex(&content),
                                            hex(&fd.durable),
                                            pre_crash_current[i].as_ref().map(|c| hex(c)).unwrap_or_else(|| "-".into()),
                                            set.len(),
                                            if set.len() <= 6 { format!(": {:?}", set.iter().map(|c| hex(c)).collect::<Vec<_>>()) } else { String::new() }
                                        ),
                                    );
                                }
                            }
                        }
                        chosen.insert(*ino, content);
                    }
                    Seen::Absent => bad("durable-entry-lost", "durable file is gone after the crash".into()),
                    other => bad("kind", format!("expected a file, observed {}", seen_short(other))),
                },
            }
        }
        self.run.out.count("post-crash paths unasserted (dangling / cross-dir rename pending)", unasserted);
        self.run.out.count("post-crash asserted: absent", n_absent);
        self.run.out.count("post-crash asserted: directory listing", n_dirs);
        self.run.out.count("post-crash asserted: file content", n_files);
        self.run.out.count("post-crash asserted: something was rolled back", n_rolled_back);
        self.run.out.count("post-crash: background sync / torn write visible in the content", n_knob_visible);
        if n_knob_visible > 0 {
            self.run.out.label("background-sync-or-torn-write-visible-after-crash");
        }
        if n_rolled_back > 0 {
            self.run.out.label("crash-rolled-something-back");
            if finished_host_crashed {
                self.run.out.label("sim-crash:finished-host-had-something-to-roll-back");
                self.run.out.count("sim-crash: crashes of a finished host that had to roll something back", 1);
            }
            if self.crashes > 1 && finished_host_crashed {
                self.run.out.label("sim-crash:finished-host-in-a-later-cycle-had-something-to-roll-back");
            }
        }
        self.run.out.count("post-crash comparisons skipped (taint)", skipped_taint);
        for id in excl {
            self.run.out.exclude(id);
        }
        if let Some((aspect, dd)) = problem {
            self.fail(format!("post-crash:{aspect}"), format!("{ctx}: {dd}"));
            return false;
        }
        // the other host did not crash: it still shows its current view
        for o in 0..self.run.hosts.len() {
            if o != h {
                self.run.scan_host(o, "other-host-after-crash", &ctx);
                if let Some(f) = self.run.out.failure.take() {
                    self.fail(format!("isolation:{}", f.signature), f.detail);
                    return false;
                }
            }
        }
        if continue_after {
            // rebase on what is there now (verified above where asserted)
            match tree_from_obs(&obs) {
                Some(t) => {
                    self.dur[h] = Dur {
                        model: Durable::all_durable(&t),
                        ..Default::default()
                    };
                    // existence / kind under a region tainted by a known
                    // finding stays unknown across the crash (e.g. a stale
                    // durable-entry marker left by F-C10-10, or a file and a
                    // directory under one name after F-C10-11)
                    let carry = self.run.hosts[h].region_taint.clone();
                    self.run.hosts[h].reset_to(t);
                    self.run.hosts[h].region_taint = carry;
                }
                None => {
                    self.run.out.label("dangling-subtree-after-crash (continuation stopped)");
                    return false;
                }
            }
        }
        true
    }
}

fn seen_short(s: &Seen) -> String {
    match s {
        Seen::Absent => "absent".into(),
        Seen::File { len, content } => format!("file len {len} content {}", hex(content.as_deref().unwrap_or(&[]))),
        Seen::Dir { entries } => format!("dir {:?}", entries.clone().unwrap_or_default()),
        Seen::Odd(s) => format!("inconsistent: {s}"),
    }
}

/// Build a model tree from an observation; `None` if it is not a tree (an
/// existing path whose parent is absent: a dangling subtree).
fn tree_from_obs(obs: &[(bool, Seen)]) -> Option<Tree> {
    let mut t = Tree::new();
    // PATHS is ordered so that parents come before children except /d2; sort by depth
    let mut idx: Vec<usize> = (1..PATHS.len()).collect();
    idx.sort_by_key(|i| PATHS[*i].matches('/').count());
    for i in idx {
        let p = PATHS[i];
        match &obs[i].1 {
            Seen::Absent => {}
            Seen::Dir { .. } => {
                t.mkdir(p).ok()?;
            }
            Seen::File { content, .. } => {
                let o = t
                    .open(
                        p,
                        crate::models::posixfs::Flags {
                            write: true,
                            create: true,
                            ..Default::default()
                        },
                    )
                    .ok()?;
                t.pwrite(o.ino, 0, content.as_deref().unwrap_or(&[]));
            }
            Seen::Odd(_) => return None,
        }
    }
    Some(t)
}

fn run_chain(sc: &Scenario, points: &[usize], sim: bool, life_base: usize, agg: &mut Outcome) -> bool {
    let c10sc = c10::Scenario {
        ops: Vec::new(),
        scan_every: 255,
        strict: sc.strict,
        probe: None,
    };
    let (hosts, simsh) = if sim {
        let (h, sh, _) = sim_hosts(sc);
        (h, Some(sh))
    } else {
        (direct_hosts(sc), None)
    };
    let mut run = Run::new(&c10sc, hosts);
    run.keep_log = true;
    run.background_sync = sc.sync_pct > 0;
    let mut ch = Chain {
        sc,
        run,
        dur: vec![Dur::default(), Dur::default()],
        sim: simsh,
        crashes: 0,
        nt: false,
        cur_handle: None,
    };
    let mut pos = 0usize;
    let mut ok = true;
    for (k, &cp) in points.iter().enumerate() {
        let cp = cp.min(sc.ops.len());
        if cp < pos {
            continue;
        }
        if !ch.execute(pos, cp) {
            ok = false;
            break;
        }
        pos = cp;
        let h = if cp == 0 { 0 } else { (sc.ops[cp - 1].host as usize) % 2 };
        let more = k + 1 < points.len();
        if !ch.crash_and_verify(h, cp, more, life_base + k) {
            ok = ch.run.out.failure.is_none();
            break;
        }
    }
    for hs in ch.run.hosts.iter_mut() {
        hs.real.shutdown();
    }
    let steps = ch.sim.as_ref().map(|s| s.steps.get()).unwrap_or(0);
    let failed = ch.run.out.failure.is_some();
    // merge into the aggregate outcome
    let o = std::mem::take(&mut ch.run.out);
    for l in o.labels {
        agg.label(l);
    }
    for (k, n) in o.counters {
        agg.count(k, n);
    }
    for e in o.excluded {
        agg.exclude(e);
    }
    if let Some(f) = o.failure {
        agg.fail(f.signature, f.detail);
    }
    agg.count("crashes", ch.crashes);
    if steps > 0 {
        agg.count("sim steps", steps);
    }
    if ch.nt {
        agg.nontrivial = true;
    }
    drop(ch);
    ok && !failed
}

fn run_mode(sc: &Scenario, sim: bool) -> Outcome {
    let mut out = Outcome::ok();
    match &sc.mode {
        Mode::Prefixes => {
            for k in 1..=sc.ops.len() {
                if !run_chain(sc, &[k], sim, k, &mut out) && out.failure.is_some() {
                    break;
                }
            }
            out.label("mode:crash-after-every-prefix");
        }
        Mode::Cycles(points) => {
            let pts: Vec<usize> = points.iter().map(|p| *p as usize).collect();
            run_chain(sc, &pts, sim, 0, &mut out);
            out.label(format!("mode:{}-crash-cycles", pts.len()));
        }
    }
    out.label(match (sc.sync_pct > 0, sc.block > 0) {
        (false, false) => "config:explicit-sync-only,atomic-writes",
        (true, false) => "config:background-sync",
        (false, true) => "config:torn-writes",
        (true, true) => "config:background-sync+torn-writes",
    });
    // collapse duplicate counters of the per-prefix runs: the engine sums them
    out
}

pub fn run(sc: &Scenario) -> Outcome {
    run_mode(sc, false)
}

pub fn run_sim(sc: &Scenario) -> Outcome {
    let mut o = run_mode(sc, true);
    o.label("sim-mode");
    o
}

// ---------------------------------------------------------------------------
// generator

const RW_CREATE: OpenFlags = OpenFlags {
    read: true,
    write: true,
    append: false,
    truncate: false,
    create: true,
    create_new: false,
};

const RO: OpenFlags = OpenFlags {
    read: true,
    write: false,
    append: false,
    truncate: false,
    create: false,
    create_new: false,
};
const WO: OpenFlags = OpenFlags {
    read: false,
    write: true,
    append: false,
    truncate: false,
    create: false,
    create_new: false,
};
const RA: OpenFlags = OpenFlags {
    read: true,
    write: false,
    append: true,
    truncate: false,
    create: false,
    create_new: false,
};
const AO: OpenFlags = OpenFlags {
    read: false,
    write: false,
    append: true,
    truncate: false,
    create: false,
    create_new: false,
};
const RW: OpenFlags = OpenFlags {
    read: true,
    write: true,
    append: false,
    truncate: false,
    create: false,
    create_new: false,
};

fn flags_strategy() -> impl Strategy<Value = OpenFlags> {
    prop_oneof![
        5 => Just(RW_CREATE),
        2 => Just(OpenFlags { read: true, write: true, create_new: true, ..Default::default() }),
        3 => Just(OpenFlags { write: true, create: true, truncate: true, ..Default::default() }),
        2 => Just(OpenFlags { read: true, write: true, truncate: true, ..Default::default() }),
        3 => Just(OpenFlags { read: true, append: true, create: true, ..Default::default() }),
        2 => Just(RW),
        1 => Just(AO),
        // a handle that cannot dirty anything itself (File::open): syncing
        // through it is legal and is a sync of the file
        3 => Just(RO),
        1 => Just(WO),
        1 => Just(OpenFlags { write: true, create: true, ..Default::default() }),
    ]
}

/// Access modes of an additional handle on a file that exists (no creation,
/// no truncation): every access-mode class.
fn access_only_flags() -> impl Strategy<Value = OpenFlags> {
    prop_oneof![5 => Just(RO), 2 => Just(RW), 1 => Just(WO), 1 => Just(RA), 1 => Just(AO)]
}

/// Paths of an additional handle: the two files the prologue keeps open
/// (`/f0`, `/d0/a`) or the k-th existing file.
fn reopen_path() -> impl Strategy<Value = u8> {
    prop_oneof![3 => Just(4u8), 3 => Just(6u8), 4 => fh::sel(fh::SEL_FILE)]
}

fn op_strategy() -> impl Strategy<Value = Op> {
    let slot = 0u8..NSLOTS as u8;
    let off = 0u8..8;
    let len = 1u8..6;
    prop_oneof![
        14 => (slot.clone(), fh::file_path(), fh::fe_strategy(), flags_strategy()).prop_map(|(slot, path, fe, fl)| Op::Open { slot, path, fe, fl }),
        // one more handle on a file that (usually) has one already
        7 => (slot.clone(), reopen_path(), fh::fe_strategy(), access_only_flags()).prop_map(|(slot, path, fe, fl)| Op::Open { slot, path, fe, fl }),
        1 => slot.clone().prop_map(|slot| Op::Close { slot }),
        14 => (slot.clone(), off, len.clone(), fh::fe_strategy()).prop_map(|(slot, off, len, fe)| Op::WriteAt { slot, off, len, fe }),
        7 => (slot.clone(), len.clone(), fh::fe_strategy()).prop_map(|(slot, len, fe)| Op::Write { slot, len, fe }),
        1 => (slot.clone(), Just(Whence::End), Just(0i8), fh::fe_strategy()).prop_map(|(slot, whence, off, fe)| Op::Seek { slot, whence, off, fe }),
        6 => (slot.clone(), 0u8..9, fh::fe_strategy()).prop_map(|(slot, len, fe)| Op::SetLen { slot, len, fe }),
        12 => (slot.clone(), fh::fe_strategy()).prop_map(|(slot, fe)| Op::SyncAll { slot, fe }),
        5 => (slot.clone(), fh::fe_strategy()).prop_map(|(slot, fe)| Op::SyncData { slot, fe }),
        14 => (fh::dir_path(), fh::fe_strategy()).prop_map(|(path, fe)| Op::SyncDir { path, fe }),
        8 => (fh::existing_file(), fh::rename_target(), fh::fe_strategy()).prop_map(|(from, to, fe)| Op::Rename { from, to, fe }),
        1 => (fh::any_path(), fh::any_path(), fh::fe_strategy()).prop_map(|(from, to, fe)| Op::Rename { from, to, fe }),
        5 => (fh::existing_file(), fh::fe_strategy()).prop_map(|(path, fe)| Op::RemoveFile { path, fe }),
        4 => (fh::new_dir_path(), fh::fe_strategy()).prop_map(|(path, fe)| Op::CreateDir { path, fe }),
        3 => (fh::dir_path(), fh::fe_strategy()).prop_map(|(path, fe)| Op::RemoveDir { path, fe }),
        3 => (fh::file_path(), len, fh::fe_strategy()).prop_map(|(path, len, fe)| Op::WriteFile { path, len, fe }),
        1 => (fh::existing_file(), fh::fe_strategy()).prop_map(|(path, fe)| Op::ReadFile { path, fe }),
        1 => (0u16..3000).prop_map(|ms| Op::Advance { ms }),
    ]
}

fn step_strategy() -> impl Strategy<Value = Step> {
    (prop_oneof![4 => Just(0u8), 1 => Just(1u8)], op_strategy()).prop_map(|(host, op)| Step { host, op })
}

/// Number of prologue kinds.
const NPROLOGUES: u8 = 8;

/// Prologue: directory skeleton (kind 0), made durable (1), plus two open
/// files whose entries are durable (2), plus synced content in them (3).
/// Kinds 4..8 are kind 2 / 3 (by parity) plus additional handles of other
/// access modes on the same two files in slots 2 (and 3).
fn prologue(kind: u8, host: u8) -> Vec<Step> {
    let s = Fe::Std;
    let mk = |op| Step { host, op };
    let mut v = vec![mk(Op::CreateDirAll { path: 3, fe: s }), mk(Op::CreateDir { path: 2, fe: Fe::Tokio })];
    let extra = kind >= 4;
    let variant = kind;
    let kind = if extra { 2 + (kind & 1) } else { kind };
    if kind >= 2 {
        v.push(mk(Op::Open { slot: 0, path: 4, fe: s, fl: RW_CREATE }));
        v.push(mk(Op::Open { slot: 1, path: 6, fe: Fe::Tokio, fl: RW_CREATE }));
    }
    match variant {
        4 => v.push(mk(Op::Open { slot: 2, path: 4, fe: Fe::Tokio, fl: RO })),
        5 => v.push(mk(Op::Open { slot: 2, path: 4, fe: s, fl: RO })),
        6 => {
            v.push(mk(Op::Open { slot: 2, path: 4, fe: s, fl: RO }));
            v.push(mk(Op::Open { slot: 3, path: 6, fe: Fe::Tokio, fl: RA }));
        }
        7 => {
            v.push(mk(Op::Open { slot: 2, path: 4, fe: Fe::Tokio, fl: WO }));
            v.push(mk(Op::Open { slot: 3, path: 6, fe: s, fl: RO }));
        }
        _ => {}
    }
    if kind >= 3 {
        v.push(mk(Op::WriteAt { slot: 0, off: 0, len: 4, fe: s }));
        v.push(mk(Op::SyncAll { slot: 0, fe: Fe::Uring }));
        v.push(mk(Op::WriteAt { slot: 1, off: 0, len: 3, fe: Fe::Tokio }));
        v.push(mk(Op::SyncData { slot: 1, fe: s }));
    }
    if kind >= 1 {
        v.push(mk(Op::SyncDir { path: 0, fe: s }));
        v.push(mk(Op::SyncDir { path: 1, fe: Fe::Tokio }));
    }
    v
}

/// Lifecycle codes of the crashed host's software, one per crash (cycled):
/// still running / returned Ok(()) before the crash, crashed once / twice
/// before the bounce, 0-2 extra steps between the return and the crash, 0-1
/// steps while the host is down.  Only the Sim-backed sub-checks read them.
fn life_strategy() -> impl Strategy<Value = Vec<u8>> {
    let one = (
        prop_oneof![3 => Just(0u8), 5 => Just(1u8), 1 => Just(2u8), 2 => Just(3u8)],
        prop_oneof![3 => Just(0u8), 1 => Just(1u8), 1 => Just(2u8)],
        prop_oneof![3 => Just(0u8), 1 => Just(1u8)],
    )
        .prop_map(|(kind, gap, down)| kind + 4 * gap + 12 * down);
    proptest::collection::vec(one, 1..5)
}

fn config_strategy() -> impl Strategy<Value = (u8, u8, u64)> {
    (
        prop_oneof![3 => Just(0u8), 2 => Just(30u8)],
        prop_oneof![3 => Just(0u8), 1 => Just(2u8), 1 => Just(3u8)],
        0u64..1000,
    )
}

pub fn strategy_with(strict: u32, cycles: bool, max_ops: usize) -> BoxedStrategy<Scenario> {
    (
        prop_oneof![1 => Just(0u8), 1 => Just(1u8), 3 => Just(2u8), 3 => Just(3u8), 1 => Just(4u8), 2 => Just(5u8), 1 => Just(6u8), 2 => Just(7u8)],
        prop_oneof![6 => Just(0u8), 2 => Just(1u8), 3 => Just(3u8), 1 => Just(5u8), 1 => Just(7u8)],
        proptest::collection::vec(step_strategy(), 2..max_ops),
        config_strategy(),
        proptest::collection::vec(0u16..u16::MAX, 2..4),
        life_strategy(),
    )
        .prop_map(move |(p0, p1, mut ops, (sync_pct, block, seed), cuts, life)| {
            let mut pre = prologue(p0, 0);
            if p1 > 0 {
                pre.extend(prologue(p1, 1));
            }
            let npre = pre.len();
            pre.append(&mut ops);
            let n = pre.len();
            let mode = if cycles {
                let mut pts: Vec<u8> = cuts.iter().map(|c| (npre + 1 + pick(*c, n - npre)) as u8).collect();
                pts.sort();
                pts.dedup();
                Mode::Cycles(pts)
            } else {
                Mode::Prefixes
            };
            Scenario {
                ops: pre,
                sync_pct,
                block,
                seed,
                mode,
                strict,
                probe: None,
                life,
            }
        })
        .boxed()
}

pub fn strategy() -> BoxedStrategy<Scenario> {
    strategy_with(0, false, 18)
}

/// Clamp a byte-decoded scenario into the generator's domain (fuzz tier).
pub fn fuzz_sanitize(sc: &mut Scenario) -> bool {
    sc.strict = 0;
    sc.probe = None;
    sc.life.truncate(4);
    for v in sc.life.iter_mut() {
        *v %= NLIFE;
    }
    sc.sync_pct = [0u8, 0, 0, 30, 30][(sc.sync_pct % 5) as usize];
    sc.block = [0u8, 0, 0, 2, 3][(sc.block % 5) as usize];
    let kind = (sc.seed >> 32) as u8 % NPROLOGUES;
    sc.seed %= 1000;
    sc.ops.truncate(17);
    for st in sc.ops.iter_mut() {
        fh::sanitize_step(st);
    }
    if sc.ops.len() < 2 {
        return false;
    }
    let mut pre = prologue(kind, 0);
    let npre = pre.len();
    pre.append(&mut sc.ops);
    sc.ops = pre;
    let n = sc.ops.len();
    if let Mode::Cycles(pts) = &mut sc.mode {
        pts.truncate(3);
        for p in pts.iter_mut() {
            *p = (npre + 1 + (*p as usize) % (n - npre)) as u8;
        }
        pts.sort();
        pts.dedup();
        if pts.is_empty() {
            sc.mode = Mode::Prefixes;
        }
    }
    true
}


// ---------------------------------------------------------------------------
// bounded-exhaustive family: several handles on one file

/// Every history of the shape
///
/// ```text
///   [file exists durably with synced content | file created by the writer, entry made durable]
///   writer  = open(/f0, one of 4 writable access modes)        slot 0
///   syncer  = open(/f0, one of 5 access modes, std | tokio)    slot 1   (before or after the mutation)
///   mutation through the writer (write_at / append-write | set_len ; std | tokio | io_uring)
///   [writer closed]
///   sync_all | sync_data through the SYNCER (std | tokio | io_uring fsync)
///   [writer opened again]
///   one more write through the writer (never synced)
/// ```
///
/// under atomic and torn (block 2) writes, executed in mode `Prefixes` (a
/// crash after every prefix).  The clause exercised is the property's "its
/// contents are those at its last data sync (sync_all, sync_data or an
/// io_uring fsync)": a data sync is a sync of the file, so it covers the data
/// written through any of its handles, whatever handle it is issued on.
pub fn handle_family() -> Vec<Scenario> {
    let s = Fe::Std;
    let cr = |f: OpenFlags| OpenFlags { create: true, ..f };
    let writers = [RW_CREATE, cr(WO), cr(RA), cr(AO)];
    let syncers = [RO, RW, WO, RA, AO];
    let fes = [Fe::Std, Fe::Tokio, Fe::Uring];
    // mixed-radix enumeration, last dimension fastest
    let dims = [2usize, 2, 4, 2, 3, 5, 2, 2, 2, 3, 2];
    let total: usize = dims.iter().product();
    let mut v = Vec::with_capacity(total);
    for mut k in 0..total {
        let mut d = [0usize; 11];
        for i in (0..dims.len()).rev() {
            d[i] = k % dims[i];
            k /= dims[i];
        }
        let block = [0u8, 2][d[0]];
        let exists_synced = d[1] == 1;
        let wfl = writers[d[2]];
        let set_len = d[3] == 1;
        let mfe = fes[d[4]];
        let sfl = syncers[d[5]];
        let sofe = [Fe::Std, Fe::Tokio][d[6]];
        let syncer_first = d[7] == 1;
        let sync_data = d[8] == 1;
        let sfe = fes[d[9]];
        let writer_closed = d[10] == 1;

        let wofe = if mfe == Fe::Tokio { Fe::Tokio } else { s };
        let mut ops: Vec<Op> = Vec::new();
        if exists_synced {
            ops.extend([
                Op::Open { slot: 0, path: 4, fe: s, fl: RW_CREATE },
                Op::WriteAt { slot: 0, off: 0, len: 4, fe: s },
                Op::SyncAll { slot: 0, fe: s },
                Op::SyncDir { path: 0, fe: s },
                Op::Close { slot: 0 },
            ]);
        }
        ops.push(Op::Open { slot: 0, path: 4, fe: wofe, fl: wfl });
        if !exists_synced {
            ops.push(Op::SyncDir { path: 0, fe: Fe::Tokio });
        }
        // handle ops address the k-th usable handle: with both slots open, 0 is
        // the writer and 1 the syncer; while only one of them is open every
        // slot number names it
        let mutation = if set_len {
            Op::SetLen { slot: 0, len: 2, fe: mfe }
        } else if wfl.append {
            Op::Write { slot: 0, len: 3, fe: mfe }
        } else {
            Op::WriteAt { slot: 0, off: 1, len: 3, fe: mfe }
        };
        let open_syncer = Op::Open { slot: 1, path: 4, fe: sofe, fl: sfl };
        if syncer_first {
            ops.push(open_syncer);
            ops.push(mutation);
        } else {
            ops.push(mutation);
            ops.push(open_syncer);
        }
        if writer_closed {
            // "open read-only just to fsync": the handle the data was written
            // through is gone when the sync is issued
            ops.push(Op::Close { slot: 0 });
        }
        ops.push(if sync_data { Op::SyncData { slot: 1, fe: sfe } } else { Op::SyncAll { slot: 1, fe: sfe } });
        if writer_closed {
            ops.push(Op::Open { slot: 0, path: 4, fe: wofe, fl: wfl });
        }
        ops.push(if wfl.append {
            Op::Write { slot: 0, len: 2, fe: s }
        } else {
            Op::WriteAt { slot: 0, off: 0, len: 2, fe: s }
        });
        v.push(Scenario {
            ops: ops.into_iter().map(|op| Step { host: 0, op }).collect(),
            sync_pct: 0,
            block,
            seed: 0,
            mode: Mode::Prefixes,
            strict: 0,
            probe: None,
            life: Vec::new(),
        });
    }
    v
}

// ---------------------------------------------------------------------------
// probes (durability-specific findings only; C10 root causes are referenced
// by the taints above)

/// Fixed histories for the durability-specific findings, every avoid/taint
/// rule off; `(sim, scenario)`.  They must fail with their dedicated signature
/// `probe:<name>:<generic signature>`.
pub fn probes() -> Vec<(bool, Scenario)> {
    let s = Fe::Std;
    let mk = |name: &str, ops: Vec<Op>| Scenario {
        ops: ops.into_iter().map(|op| Step { host: 0, op }).collect(),
        sync_pct: 0,
        block: 0,
        seed: 0,
        mode: Mode::Prefixes,
        strict: u32::MAX,
        probe: Some(name.to_string()),
        life: Vec::new(),
    };
    // path indices: 0 "/", 1 /d0, 2 /d1, 4 /f0, 6 /d0/a, 8 /d1/a
    let setup = || {
        vec![
            Op::CreateDir { path: 1, fe: s },
            Op::CreateDir { path: 2, fe: s },
            Op::SyncDir { path: 0, fe: s },
            Op::Open { slot: 0, path: 6, fe: s, fl: RW_CREATE },
            Op::WriteAt { slot: 0, off: 0, len: 3, fe: s },
            Op::SyncAll { slot: 0, fe: s },
            Op::SyncDir { path: 1, fe: s },
            Op::Close { slot: 0 },
        ]
    };
    let mut source_first = setup();
    source_first.extend([
        Op::Rename { from: 6, to: 8, fe: s },
        Op::SyncDir { path: 1, fe: s },
        Op::SyncDir { path: 2, fe: s },
    ]);
    let mut dest_first = setup();
    dest_first.extend([
        Op::Rename { from: 6, to: 8, fe: s },
        Op::SyncDir { path: 2, fe: s },
        Op::SyncDir { path: 1, fe: s },
        // a new file under the old name, data synced, its entry never synced
        Op::Open { slot: 0, path: 6, fe: s, fl: RW_CREATE },
        Op::WriteAt { slot: 0, off: 0, len: 2, fe: s },
        Op::SyncAll { slot: 0, fe: s },
    ]);
    vec![
        (false, mk("F-C07-1-cross-dir-rename-source-dir-synced-first-loses-file", source_first.clone())),
        (false, mk("F-C07-1-cross-dir-rename-dest-dir-synced-first-leaves-stale-durable-marker", dest_first)),
        (true, mk("F-C07-1-sim-cross-dir-rename-source-dir-synced-first-loses-file", source_first)),
    ]
}

fn env_mask(name: &str) -> u32 {
    std::env::var(name)
        .ok()
        .and_then(|s| {
            let s = s.trim().to_string();
            if let Some(h) = s.strip_prefix("0x") {
                u32::from_str_radix(h, 16).ok()
            } else {
                s.parse().ok()
            }
        })
        .unwrap_or(0)
}

fn check(tier: Tier, seed: u64) -> i32 {
    let ctx = Ctx::new("C07", tier, seed, "fault_enumeration");
    ctx.replay_corpus(&replay);
    // development aid: C07_STRICT=<mask> switches C10 known-finding rules off
    let strict = env_mask("C07_STRICT");
    // development aid: C07_SUBS=a,b runs only the named sub-checks (class
    // distribution of one sub-check)
    let only: Option<Vec<String>> = std::env::var("C07_SUBS").ok().map(|v| v.split(',').map(|x| x.trim().to_string()).collect());
    let want = |sub: &str| only.as_ref().map(|o| o.iter().any(|x| x == sub)).unwrap_or(true);
    let ps = probes();
    if let Ok(dir) = std::env::var("C07_DUMP_PROBES") {
        // development aid: write one replay file per probe with its actual failure
        let _ = std::fs::create_dir_all(&dir);
        for (sim, sc) in &ps {
            let o = if *sim { run_sim(sc) } else { run(sc) };
            let name = sc.probe.clone().unwrap();
            let body = serde_json::json!({
                "property": "C07", "sub": if *sim { "sim-probe" } else { "probe" }, "tier": "quick", "seed": 0,
                "failure": o.failure.as_ref().map(|f| serde_json::json!({"signature": f.signature, "detail": f.detail})),
                "scenario": sc,
            });
            std::fs::write(format!("{dir}/known-{name}.json"), serde_json::to_string_pretty(&body).unwrap()).unwrap();
            println!("{name}\t{}", o.failure.map(|f| format!("{} || {}", f.signature, f.detail)).unwrap_or_else(|| "PASSED".into()));
        }
        return 0;
    }
    {
        let direct: Vec<Scenario> = ps.iter().filter(|(sim, _)| !sim).map(|(_, s)| s.clone()).collect();
        let simp: Vec<Scenario> = ps.iter().filter(|(sim, _)| *sim).map(|(_, s)| s.clone()).collect();
        ctx.exhaustive(
            "probe",
            &format!("{} fixed probe histories (crash after every prefix), one per durability-specific root cause / manifestation, all avoid/taint rules off", direct.len()),
            Box::new(direct.into_iter()),
            &run,
        );
        ctx.exhaustive(
            "sim-probe",
            &format!("{} of the probes inside a running turmoil::Sim (Sim::crash + Sim::bounce)", simp.len()),
            Box::new(simp.into_iter()),
            &run_sim,
        );
    }
    {
        let fam = handle_family();
        let n = fam.len();
        // inside a Sim: every 11th member in the quick tier (11 is coprime to every
        // dimension of the family, so all values of all dimensions are sampled), all in thorough
        let stride = tier.pick(11usize, 1usize);
        // the lifecycle of the crashed host's software rotates over the prefixes
        // of each member (still running | returned Ok(()) before the crash) x
        // (crashed once | twice before the bounce), the rotation offset by the
        // member's index
        let simfam: Vec<Scenario> = fam
            .iter()
            .enumerate()
            .filter(|(i, _)| (i + seed as usize) % stride == 0)
            .map(|(i, s)| {
                let mut s = s.clone();
                s.life = (0..4).map(|j| ((i / stride + j) % 4) as u8).collect();
                s
            })
            .collect();
        if want("handles") {
            ctx.exhaustive(
                "handles",
                &format!("{n} histories: a file (existing durably with synced content | just created, entry durable) with two handles open at once, writer access mode in {{read+write, write-only, read+append, append-only}} x mutation in {{write, set_len}} through the writer via {{std, tokio, io_uring}} x second handle of access mode in {{read-only, read+write, write-only, read+append, append-only}} opened via {{std, tokio}} before | after the mutation x {{sync_all, sync_data}} through the SECOND handle via {{std, tokio, io_uring fsync}} while the writer is still open | already closed, then one more unsynced write through the writer; block_size in {{None, 2}}; a crash after every prefix"),
                Box::new(fam.into_iter()),
                &run,
            );
        }
        if want("sim-handles") {
            ctx.exhaustive(
                "sim-handles",
                &format!("{} members of the `handles` family (every {stride}th, offset by the seed) inside a running turmoil::Sim (Sim::crash + Sim::bounce after every prefix; the lifecycle of the crashed software rotates over the prefixes: still running | returned Ok(()) and collected before the crash, crashed once | twice before the bounce)", simfam.len()),
                Box::new(simfam.into_iter()),
                &run_sim,
            );
        }
    }
    if want("prefixes") {
        ctx.random("prefixes", tier.pick(12_000, 150_000), &move || strategy_with(strict, false, 18), &run);
    }
    if want("cycles") {
        ctx.random("cycles", tier.pick(12_000, 150_000), &move || strategy_with(strict, true, 30), &run);
    }
    if want("sim") {
        ctx.random("sim", tier.pick(1_000, 12_000), &move || strategy_with(strict, false, 12), &run_sim);
    }
    if want("sim-cycles") {
        ctx.random("sim-cycles", tier.pick(1_000, 12_000), &move || strategy_with(strict, true, 24), &run_sim);
    }
    ctx.finish(
        "random histories (prologue of 2-12 ops per host + up to 17 / 29 generated ops over the 13-path universe of C10, two hosts = two independent trees; create, create_new, open with truncate / append, read-only / write-only / append-only opens, additional handles of every access mode on a file that is already open (up to 4 handles per host), write_at, cursor write and append, set_len, sync_all, sync_data, io_uring fsync through ANY open handle of the file whatever its access mode (a data sync is per file: it makes durable what was written through every handle), sync_dir, rename incl. onto existing names and across directories, remove_file, create_dir, remove_dir, fs::write; std shim, tokio shim and io_uring mixed) under a configuration sync_probability in {0, 0.3} x block_size in {None, 2, 3} x Fs seed. Sub `handles` (bounded-exhaustive) / `sim-handles`: the two-handle family described under exhaustive_subspaces, a crash after every prefix. Sub `prefixes`: a crash (Fs::crash + IoUringHostState::crash, as Sim::crash does) after EVERY prefix of every history, each prefix re-executed from scratch on fresh hosts; sub `cycles`: one linear execution with 2-3 crash-continue-crash cycles; subs `sim` / `sim-cycles`: the same inside a running turmoil::Sim, ops executed by host software (an interpreter of ops sent as data), crash = Sim::crash + Sim::bounce, the post-crash observation made by the restarted software; per crash a generated lifecycle of the crashed host's software: still parked waiting for work | it has RETURNED Ok(()) after its ops and the Sim was stepped until the runtime collected the result (Sim::is_host_running false) before Sim::crash, 0-2 further steps in between; Sim::crash called once | twice (second time on the host that is already down) before the bounce; 0-1 steps while the host is down — the expected image is the same in all of them (the property and the rustdoc of Sim::crash speak of the host, not of its software). Before the crash the C10 lock-step oracle applies to every op; after the crash exists / metadata / read / read_dir over the whole universe is compared with the two-level durability model (data-durable content per inode, durable entry map per directory; admissible sets for background sync and torn writes enumerated), and the other host must still show its current view. Non-trivial = a crashed prefix contains a durable and a non-durable mutation of the same untainted, asserted file or directory. Distinct by scenario hash.",
        &[
            "io_error / corruption / short_read probabilities 0, io_latency None, no capacity limit, no page cache",
            "asserted only for files and directories all of whose ancestor directories exist durably; everything strictly below a directory that was removed and created again since the last crash, and below a directory whose durable and current incarnation differ, is a dangling subtree and not asserted",
            "the two names of a cross-directory rename are not asserted until both parent directories were synced after it",
            "with block_size, content is not asserted if the admissible set has more than 4096 members (counted)",
            "a handle is only used while its path still names the inode it was opened on; read-only open of a directory, write_at on an append handle, rename/remove of / are not generated",
            "objects touched by C10 findings that are still \"known\" (F-C10-1, 2, 4, 10, 11: path-keyed pending log) and by F-C07-1 while known are avoided / tainted, status-driven through is_known, counted in excluded_by_known_finding; region taints are carried across a crash in the cycles classes",
            "symlinks, hard links, permissions, timestamps are outside the property",
        ],
    )
}

fn replay(sub: &str, v: &Value) -> Result<Outcome, String> {
    if sub.starts_with("sim") {
        replay_as::<Scenario>(v, &run_sim)
    } else {
        replay_as::<Scenario>(v, &run)
    }
}

//! C17 — turmoil-net binds and routes packets like a real socket table.
//! DESIGN.md §6 C17.  NetWire driver, controller flavour (`netwire_ext`).  Two wire classes: in
//! the *immediate* class every packet is delivered in the round it is emitted; in the *delayed*
//! class (`Scenario::wire`, about half of the cases) every TCP segment emitted while a TCP
//! connect is in progress (scenario connects and the TCP probe matrix) is held 0 or 2..=4 rounds
//! by a generated pattern (so segments are also reordered) and optionally one SYN-ACK is lost.
//! With retx_threshold 3 the connector's SYN is then retransmitted before the SYN-ACK returns:
//! duplicate SYNs, SYN-ACKs and handshake ACKs reach hosts that already hold the connection, and
//! the clause "an established TCP connection before a listener" is exercised on the handshake
//! itself.  The delayed class runs with retx_max 4, so holds <= 4 and one lost SYN-ACK stay well
//! inside the retransmit budget and every modelled result (Ok / Refused / TimedOut) is certain;
//! after each connect the wire is left to settle (idle for retx_threshold*(retx_max+2) rounds)
//! before anything is judged.
//!
//! A scenario builds 2..=3 hosts with 1..=2 addresses per family, shrinks
//! every host's ephemeral range (hook H3) to 1..=4 ports that overlap two of
//! the three fixed ports, and runs a sequence of bind / UDP connect / TCP
//! connect(+accept) / close operations.  A socket-table model is stepped in
//! lock-step:
//!
//! * BIND     `Ok` iff the address is the wildcard, loopback or an address of
//!            this host, and no live socket of the same (family, protocol,
//!            port) on this host has the same address or a wildcard on either
//!            side; otherwise `AddrNotAvailable` (non-local) / `AddrInUse`.
//!            Port 0 yields a port of the ephemeral range that no live socket
//!            of that (family, protocol) uses at *any* local address, and
//!            fails with `AddrInUse` exactly when there is none.  When BOTH
//!            failure reasons hold at once (non-local address AND the port is
//!            held by a wildcard socket / the range is exhausted) the property
//!            does not rank them: either kind is accepted; with exactly one
//!            reason the kind is asserted.  `local_addr`
//!            reports the bound address.  Closing frees the binding (observed
//!            through later binds, and through H2 counts after every step).
//! * CONNECT  (scenario step, TCP) `Ok` iff the model finds a listener for
//!            the destination (exact address, else wildcard, same family) on
//!            the host owning the address (loopback: the own host);
//!            `ConnectionRefused` otherwise; unknown address -> `TimedOut`;
//!            ephemeral range exhausted -> the connect fails at once and leaves
//!            no socket behind, with `AddrInUse` or `AddrNotAvailable` (the
//!            property does not name the kind for the implicit source-port bind
//!            of a connect; Linux says EADDRNOTAVAIL); a connect that fails this
//!            way while a port IS free is a violation.  The client's local
//!            address is some address of its host in the family (loopback
//!            towards loopback) with a free ephemeral port.  The connection comes
//!            out of exactly that listener with mirrored addresses, exactly once (a second
//!            poll of every listener finds nothing), and after the wire settled the H2 counts
//!            equal the model: one server-side socket per established 4-tuple.
//! * ROUTE    probe matrix at the end: from every host one tagged UDP
//!            datagram and one TCP connect to every (address, port) with
//!            address in {every address of every host, loopback, one unknown
//!            address} x both families, plus the address *spellings* that alias
//!            an owned address without being one -- the IPv4-mapped
//!            (`::ffff:a.b.c.d`) and IPv4-compatible (`::a.b.c.d`) IPv6 forms of
//!            every owned IPv4 address and `::ffff:127.0.0.1`; these are IPv6
//!            destinations nobody owns (binding one is `AddrNotAvailable`), so
//!            they are unknown destinations: nothing may be delivered to any
//!            socket of any host (in particular not to an IPv6 wildcard socket
//!            of the host owning a.b.c.d) and a TCP connect must time out, not
//!            be refused or accepted -- and port in {3 fixed ports, every port
//!            in use}; plus, for every connected UDP socket, a datagram sent
//!            from exactly its peer address when that address can be bound.
//!            Every datagram is received by exactly the socket the model
//!            names (payload and source address intact) and by no other
//!            socket on any host.  WHICH of its host's addresses a sender that
//!            is not tied to one (wildcard-bound UDP socket, unbound socket of
//!            an outgoing TCP connect) uses as source towards a non-loopback
//!            destination is NOT part of the property: on a host with several
//!            addresses of the family every one is a candidate, the model
//!            computes the outcome (receiving socket or none -- the
//!            connected-peer filter depends on the source) per candidate, and
//!            the observation must equal the outcome of one candidate, the
//!            `from` the receiver reports being exactly that candidate.  A
//!            sender bound to a specific address, a loopback destination or a
//!            single-address host leave one candidate.
//!            Every TCP probe has the modelled result and
//!            is accepted by exactly the modelled listener; a tag written on
//!            each established connection is read by its peer stream only; after the probe
//!            connections are closed the H2 counts equal the model again.

use crate::drivers::netwire::{Fate, Kind, PktRec, SockRow, Tracker};
use crate::drivers::netwire_ext::{now_or_never, poll_once, AllNow, Held, Policy, World};
use crate::engine::{replay_as, Ctx, Outcome, Tier};
use proptest::prelude::*;
use serde::{Deserialize, Serialize};
use serde_json::Value;
use std::collections::{BTreeMap, BTreeSet};
use std::future::Future;
use std::io::ErrorKind;
use std::net::{IpAddr, Ipv4Addr, Ipv6Addr, SocketAddr};
use std::pin::Pin;
use std::task::Poll;
use turmoil_net::shim::tokio::net::{TcpListener, TcpStream, UdpSocket};
use turmoil_net::KernelConfig;

pub const PROP: super::Prop = super::Prop { id: "C17", level: "exploration", check, replay };

const FIXED: [u16; 3] = [5000, 5001, 5002];
const EPH_BASE: u16 = 5001;
const PROBE_EPH: std::ops::RangeInclusive<u16> = 30000..=30999;
const PROBE_SRC_PORT: u16 = 20000;
const RETX_T: u32 = 3;
const RETX_M: u32 = 1;
/// retransmit budget of the delayed-wire class (holds <= 4 rounds and one lost SYN-ACK must fit)
const RETX_M_DELAYED: u32 = 4;
const MAX_HOLD: u32 = 4;

#[derive(Clone, Copy, Debug, Serialize, Deserialize, PartialEq)]
pub enum AddrSel {
    Any,
    Lo,
    /// i-th address (of the family) of the acting host
    Local(u8),
    /// i-th address (of the family) of the next host: not local
    Foreign(u8),
    Unknown,
    /// IPv4-mapped IPv6 spelling `::ffff:a.b.c.d` of the i-th IPv4 address of the host in question
    /// (the acting host for a bind, the target host for a connect).  Always an IPv6 address, and
    /// one that NO host owns: not local anywhere, an unknown destination on the wire.
    Mapped(u8),
    /// IPv4-compatible IPv6 spelling `::a.b.c.d`, likewise owned by nobody
    Compat(u8),
}

#[derive(Clone, Copy, Debug, Serialize, Deserialize, PartialEq)]
pub enum PortSel {
    Zero,
    Fixed(u8),
}

#[derive(Clone, Debug, Serialize, Deserialize, PartialEq)]
pub enum Op {
    BindUdp { h: u8, addr: AddrSel, v6: bool, port: PortSel },
    BindTcp { h: u8, addr: AddrSel, v6: bool, port: PortSel },
    /// connect the s-th live UDP socket of host h to (address `addr` of host `ph`, p-th candidate port)
    UdpConnect { h: u8, s: u8, ph: u8, addr: AddrSel, p: u8 },
    /// TCP connect from host h to (address `addr` of host `th` in the family, p-th candidate port), then accept
    TcpConnect { h: u8, th: u8, addr: AddrSel, v6: bool, p: u8 },
    /// TCP connect from host h to the l-th live listener (any host): through its own address, or,
    /// for a wildcard listener, the first address of its host (loopback if `lo` and h is that host)
    TcpConnectL { h: u8, l: u8, lo: bool },
    /// close the s-th live socket of host h (a connection is closed on both ends, this end first)
    Close { h: u8, s: u8 },
}

#[derive(Clone, Debug, Serialize, Deserialize, PartialEq)]
pub struct HostCfg {
    pub v4: u8,
    pub v6: u8,
    /// ephemeral range = EPH_BASE ..= EPH_BASE + eph_len - 1
    pub eph_len: u8,
}

#[derive(Clone, Debug, Serialize, Deserialize, PartialEq)]
pub struct Scenario {
    pub hosts: Vec<HostCfg>,
    pub ops: Vec<Op>,
    /// None: every packet is delivered in the round it is emitted.  Some: the delayed-wire class
    #[serde(default)]
    pub wire: Option<WirePlan>,
}

/// Delay / reorder policy applied to TCP segments while TCP connects are in progress (scenario
/// connects and the TCP probe matrix), so that retransmitted SYNs, SYN-ACKs and other duplicates
/// reach hosts that already hold the connection.
#[derive(Clone, Debug, Serialize, Deserialize, PartialEq)]
pub struct WirePlan {
    /// hold (rounds) of the n-th TCP segment = holds[n % len]; 0/1 = deliver at once, otherwise 2..=4
    pub holds: Vec<u8>,
    /// drop the n-th SYN-ACK (once; well within the retransmit budget)
    pub drop_synack: Option<u8>,
}

struct WirePol {
    holds: Vec<u32>,
    drop_synack: Option<u32>,
    active: bool,
    n_tcp: usize,
    n_synack: u32,
    dropped: bool,
}
impl Policy for WirePol {
    fn fate(&mut self, rec: &PktRec, _tr: &Tracker) -> Fate {
        if !self.active || rec.tcp.is_none() || self.holds.is_empty() {
            return Fate::Now;
        }
        if rec.kind == Kind::SynAck {
            let n = self.n_synack;
            self.n_synack += 1;
            if !self.dropped && self.drop_synack == Some(n) {
                self.dropped = true;
                return Fate::Drop;
            }
        }
        let h = self.holds[self.n_tcp % self.holds.len()];
        self.n_tcp += 1;
        if h < 2 {
            Fate::Now
        } else {
            Fate::Hold(h.min(MAX_HOLD))
        }
    }
}

// ---------------------------------------------------------------- model

#[derive(Clone, Copy, Debug, PartialEq)]
enum Role {
    Udp { peer: Option<SocketAddr> },
    Listener,
    /// one end of an established connection: `conn` indexes `Sim::conns`
    ConnEnd { conn: usize, peer: SocketAddr },
}

#[derive(Clone, Debug)]
struct Entry {
    host: usize,
    tcp: bool,
    addr: IpAddr,
    port: u16,
    role: Role,
    live: bool,
}
impl Entry {
    fn v6(&self) -> bool {
        self.addr.is_ipv6()
    }
}

/// One tagged probe datagram, sent on `host` to `dst`.  `srcs` are the source addresses it may
/// carry: one when the sending socket is bound to a specific address (or the destination is
/// loopback), every address of the sender's host in the destination's family when the sender is
/// bound to the wildcard -- the property leaves that choice to the stack.
#[derive(Clone, Debug)]
struct UdpProbe {
    host: usize,
    srcs: Vec<SocketAddr>,
    dst: SocketAddr,
    /// class label recorded when the datagram is delivered (to that socket entry, when given)
    note: Option<(&'static str, Option<usize>)>,
}

enum Obj {
    Udp(Held<UdpSocket>),
    Lst(Held<TcpListener>),
    Stream(Held<TcpStream>),
    None,
}

type ConnFut = Pin<Box<dyn Future<Output = std::io::Result<TcpStream>>>>;

fn unknown_ip(v6: bool) -> IpAddr {
    if v6 {
        IpAddr::V6(Ipv6Addr::new(0xfd00, 0, 0, 0, 0, 0, 9, 9))
    } else {
        IpAddr::V4(Ipv4Addr::new(10, 9, 9, 9))
    }
}
/// IPv4-mapped (`::ffff:a.b.c.d`) / IPv4-compatible (`::a.b.c.d`) IPv6 spelling of an IPv4 address.
/// These are distinct IPv6 addresses: a host that owns a.b.c.d does not own them (binding them is
/// `AddrNotAvailable`), so on the wire they are unknown destinations.
fn alias_of(ip: IpAddr, mapped: bool) -> IpAddr {
    match ip {
        IpAddr::V4(a) => {
            if mapped {
                IpAddr::V6(a.to_ipv6_mapped())
            } else {
                let o = a.octets();
                IpAddr::V6(Ipv6Addr::new(0, 0, 0, 0, 0, 0, u16::from_be_bytes([o[0], o[1]]), u16::from_be_bytes([o[2], o[3]])))
            }
        }
        v6 => v6,
    }
}
/// the IPv4 address an IPv6 address is an alias spelling of (mapped or compatible form), if any
fn alias_target(ip: IpAddr) -> Option<IpAddr> {
    let IpAddr::V6(a) = ip else { return None };
    let s = a.segments();
    if s[0..5] == [0, 0, 0, 0, 0] && (s[5] == 0xffff || s[5] == 0) && (s[6] != 0 || s[7] > 1) {
        Some(IpAddr::V4(Ipv4Addr::new((s[6] >> 8) as u8, s[6] as u8, (s[7] >> 8) as u8, s[7] as u8)))
    } else {
        None
    }
}
fn lo(v6: bool) -> IpAddr {
    if v6 {
        Ipv6Addr::LOCALHOST.into()
    } else {
        Ipv4Addr::LOCALHOST.into()
    }
}
fn any(v6: bool) -> IpAddr {
    if v6 {
        Ipv6Addr::UNSPECIFIED.into()
    } else {
        Ipv4Addr::UNSPECIFIED.into()
    }
}
fn host_addr(h: usize, v6: bool, i: usize) -> IpAddr {
    if v6 {
        IpAddr::V6(Ipv6Addr::new(0xfd00, 0, 0, 0, 0, 0, (h + 1) as u16, (i + 1) as u16))
    } else {
        IpAddr::V4(Ipv4Addr::new(10, 0, (h + 1) as u8, (i + 1) as u8))
    }
}

struct Sim {
    nh: usize,
    cfg: Vec<HostCfg>,
    entries: Vec<Entry>,
    objs: Vec<Obj>,
    /// (client entry, child entry)
    conns: Vec<(usize, usize)>,
    out: Outcome,
    failed: bool,
    shared_port: bool,
    port0_allocs: BTreeMap<(usize, bool, bool), u32>,
    trace: bool,
    retx_m: u32,
    delayed: bool,
    pol: WirePol,
    syn_seen: BTreeSet<(SocketAddr, SocketAddr)>,
    world: World,
}

impl Sim {
    fn fail(&mut self, sig: &str, detail: String) {
        if !self.failed {
            self.failed = true;
            self.out.fail(sig, detail);
        }
    }

    fn naddrs(&self, h: usize, v6: bool) -> usize {
        (if v6 { self.cfg[h].v6 } else { self.cfg[h].v4 }) as usize
    }
    fn first_addr(&self, h: usize, v6: bool) -> IpAddr {
        host_addr(h, v6, 0)
    }
    fn is_local(&self, h: usize, ip: IpAddr) -> bool {
        ip.is_loopback() || self.world.owner(ip) == Some(h)
    }
    fn eph(&self, h: usize) -> std::ops::RangeInclusive<u16> {
        EPH_BASE..=EPH_BASE + self.cfg[h].eph_len as u16 - 1
    }

    fn sel_addr(&self, h: usize, sel: AddrSel, v6: bool) -> IpAddr {
        match sel {
            AddrSel::Any => any(v6),
            AddrSel::Lo => lo(v6),
            AddrSel::Local(i) => host_addr(h, v6, i as usize % self.naddrs(h, v6)),
            AddrSel::Foreign(i) => {
                let o = (h + 1) % self.nh;
                host_addr(o, v6, i as usize % self.naddrs(o, v6))
            }
            AddrSel::Unknown => unknown_ip(v6),
            AddrSel::Mapped(i) => alias_of(host_addr(h, false, i as usize % self.naddrs(h, false)), true),
            AddrSel::Compat(i) => alias_of(host_addr(h, false, i as usize % self.naddrs(h, false)), false),
        }
    }

    fn live_on(&self, h: usize) -> Vec<usize> {
        (0..self.entries.len()).filter(|i| self.entries[*i].live && self.entries[*i].host == h).collect()
    }

    /// ports worth probing / connecting to: the fixed ones and every port in use
    fn candidate_ports(&self) -> Vec<u16> {
        let mut s: BTreeSet<u16> = FIXED.iter().copied().collect();
        for e in self.entries.iter().filter(|e| e.live) {
            s.insert(e.port);
        }
        s.into_iter().collect()
    }

    // ------------------------------------------------------------ model functions

    /// Expected result of bind(addr, port) on host h: Ok(set of admissible ports), or Err(the error
    /// kinds the property admits).  The bind must fail iff at least one of the two failure reasons
    /// holds: the address is not local (`AddrNotAvailable`), or the port is taken -- a conflicting
    /// live socket on an explicit port, no free ephemeral port for port 0 -- (`AddrInUse`).  The
    /// property says a failing bind "fails with AddrInUse or AddrNotAvailable" and does not rank the
    /// two reasons: when exactly one holds its kind is the only admissible one, when BOTH hold
    /// (non-local address whose port is held by a wildcard socket; non-local address with port 0
    /// while the range is exhausted) either kind is admissible, the reason found first listed first.
    fn model_bind(&self, h: usize, tcp: bool, addr: IpAddr, port: u16, range: &std::ops::RangeInclusive<u16>) -> Result<BTreeSet<u16>, Vec<ErrorKind>> {
        let not_local = !addr.is_unspecified() && !self.is_local(h, addr);
        let v6 = addr.is_ipv6();
        let same = |e: &&Entry| e.live && e.host == h && e.tcp == tcp && e.v6() == v6;
        let ports: BTreeSet<u16> = if port == 0 {
            let used: BTreeSet<u16> = self.entries.iter().filter(same).map(|e| e.port).collect();
            range.clone().filter(|p| !used.contains(p)).collect()
        } else {
            let conflict = self.entries.iter().filter(same).any(|e| e.port == port && (e.addr == addr || e.addr.is_unspecified() || addr.is_unspecified()));
            if conflict {
                BTreeSet::new()
            } else {
                [port].into_iter().collect()
            }
        };
        let mut kinds = Vec::new();
        if not_local {
            kinds.push(ErrorKind::AddrNotAvailable);
        }
        if ports.is_empty() {
            kinds.push(ErrorKind::AddrInUse);
        }
        if kinds.is_empty() {
            Ok(ports)
        } else {
            Err(kinds)
        }
    }

    /// Source addresses a socket of host `h` that is not tied to one local address (bound to the
    /// wildcard, or not bound at all like the socket of an outgoing TCP connect) may use towards
    /// `dst`: loopback towards loopback, otherwise ANY configured address of the host in the
    /// destination's family -- the property does not say which one the stack picks.
    fn free_source_ips(&self, h: usize, dst: IpAddr) -> Vec<IpAddr> {
        let v6 = dst.is_ipv6();
        if dst.is_loopback() {
            vec![lo(v6)]
        } else {
            (0..self.naddrs(h, v6)).map(|i| host_addr(h, v6, i)).collect()
        }
    }

    /// Candidate source addresses of a datagram that socket entry `e` sends to `dst`: the bound
    /// address when there is one (then the source is determined), else `free_source_ips`.
    fn source_ips(&self, e: &Entry, dst: IpAddr) -> Vec<IpAddr> {
        if !e.addr.is_unspecified() {
            vec![e.addr]
        } else {
            self.free_source_ips(e.host, dst)
        }
    }

    /// Host that gets a packet for `dst` sent from host `from`.
    fn target_host(&self, from: usize, dst: IpAddr) -> Option<usize> {
        if dst.is_loopback() {
            Some(from)
        } else {
            self.world.owner(dst)
        }
    }

    /// The UDP socket that must receive a datagram src -> dst (sent on host `from`).
    fn route_udp(&self, from: usize, src: SocketAddr, dst: SocketAddr) -> Option<usize> {
        let t = self.target_host(from, dst.ip())?;
        let cand = |i: &usize| {
            let e = &self.entries[*i];
            e.live && e.host == t && !e.tcp && e.v6() == dst.is_ipv6() && e.port == dst.port()
        };
        let exact = (0..self.entries.len()).filter(cand).find(|i| self.entries[*i].addr == dst.ip());
        let wild = (0..self.entries.len()).filter(cand).find(|i| self.entries[*i].addr.is_unspecified());
        let chosen = exact.or(wild)?;
        if let Role::Udp { peer: Some(p) } = self.entries[chosen].role {
            if p != src {
                return None;
            }
        }
        Some(chosen)
    }

    /// The listener that must take a SYN for `dst` (sent on host `from`); Err(true) = unknown address
    fn route_syn(&self, from: usize, dst: SocketAddr) -> Result<Option<usize>, ()> {
        let Some(t) = self.target_host(from, dst.ip()) else { return Err(()) };
        let cand = |i: &usize| {
            let e = &self.entries[*i];
            e.live && e.host == t && e.tcp && e.role == Role::Listener && e.v6() == dst.is_ipv6() && e.port == dst.port()
        };
        let exact = (0..self.entries.len()).filter(cand).find(|i| self.entries[*i].addr == dst.ip());
        let wild = (0..self.entries.len()).filter(cand).find(|i| self.entries[*i].addr.is_unspecified());
        Ok(exact.or(wild))
    }

    // ------------------------------------------------------------ wire

    /// one round: with the delay policy while it is active, else everything at once
    fn step(&mut self) -> (usize, usize, usize) {
        let before = self.world.pkts.len();
        let (d, st) = if self.pol.active { self.world.step(&mut self.pol) } else { self.world.step(&mut AllNow) };
        for id in d.iter() {
            let r = &self.world.pkts[*id];
            if r.kind == Kind::Syn && !self.syn_seen.insert((r.src, r.dst)) {
                // a second SYN of a 4-tuple reaches a host that already answered the first with a SYN-ACK
                let answered = self.world.tracker.lookup(r.src, r.dst).map(|(c, _)| self.world.tracker.conns[c].ends[1].isn.is_some()).unwrap_or(false);
                if answered {
                    self.out.label("wire:duplicate-syn-reaches-host-holding-the-connection");
                }
            }
        }
        (self.world.pkts.len() - before, d.len(), st.held)
    }

    fn pump(&mut self) {
        if self.pol.active {
            // retransmissions are part of the picture: wait them out
            return self.settle();
        }
        let mut quiet = 0;
        let mut n = 0;
        while quiet < 2 && n < 200 {
            let (e, d, held) = self.step();
            if e == 0 && d == 0 && held == 0 {
                quiet += 1;
            } else {
                quiet = 0;
            }
            n += 1;
        }
    }

    /// wait until no TCP retransmit counter can be running any more
    fn settle(&mut self) {
        let q = RETX_T * (self.retx_m + 2);
        let mut quiet = 0;
        let mut n = 0;
        while quiet < q && n < 40 * q {
            let (e, d, held) = self.step();
            if e == 0 && d == 0 && held == 0 {
                quiet += 1;
            } else {
                quiet = 0;
            }
            n += 1;
        }
    }

    fn note_shared(&mut self) {
        if self.shared_port {
            return;
        }
        for h in 0..self.nh {
            let mut by_port: BTreeMap<u16, BTreeSet<(bool, IpAddr)>> = BTreeMap::new();
            for e in self.entries.iter().filter(|e| e.live && e.host == h) {
                by_port.entry(e.port).or_default().insert((e.tcp, e.addr));
            }
            if by_port.values().any(|s| s.len() >= 2) {
                self.shared_port = true;
            }
        }
    }

    /// H2 counts against the model after every step
    fn check_counts(&mut self, after: &str) {
        for h in 0..self.nh {
            let live: Vec<&Entry> = self.entries.iter().filter(|e| e.live && e.host == h).collect();
            let exp_s = live.len();
            let exp_c = live.iter().filter(|e| matches!(e.role, Role::ConnEnd { .. })).count();
            let got = self.world.counts(h);
            if got != (exp_s, exp_s, exp_c) {
                let d = format!(
                    "after {after}: host {h} table_counts (sockets, bindings, connections) = {got:?}, the model has {exp_s} live sockets of which {exp_c} connection ends: {:?}; netstat {:?}",
                    live.iter().map(|e| format!("{}{}:{} {:?}", if e.tcp { "tcp " } else { "udp " }, e.addr, e.port, e.role)).collect::<Vec<_>>(),
                    self.rows(h)
                );
                self.fail("table:counts-differ-from-the-socket-table-model", d);
                return;
            }
        }
    }

    fn rows(&self, h: usize) -> Vec<String> {
        self.world.rows(h).iter().map(|r: &SockRow| format!("{}{}<-{:?} {}", if r.tcp { "tcp " } else { "udp " }, r.local, r.peer, r.state.unwrap_or("-"))).collect()
    }

    // ------------------------------------------------------------ operations

    fn bind(&mut self, h: usize, tcp: bool, sel: AddrSel, v6: bool, port: PortSel, range: std::ops::RangeInclusive<u16>, probe: bool) -> Option<usize> {
        let addr = self.sel_addr(h, sel, v6);
        let port = match port {
            PortSel::Zero => 0,
            PortSel::Fixed(i) => FIXED[i as usize % FIXED.len()],
        };
        self.bind_at(h, tcp, addr, port, range, probe)
    }

    fn bind_at(&mut self, h: usize, tcp: bool, addr: IpAddr, port: u16, range: std::ops::RangeInclusive<u16>, probe: bool) -> Option<usize> {
        let sa = SocketAddr::new(addr, port);
        let exp = self.model_bind(h, tcp, addr, port, &range);
        self.world.pin(h);
        let (res, obj): (Result<SocketAddr, std::io::Error>, Obj) = if tcp {
            match now_or_never(TcpListener::bind(sa)) {
                Some(Ok(l)) => (l.local_addr(), Obj::Lst(self.world.hold(h, l))),
                Some(Err(e)) => (Err(e), Obj::None),
                None => {
                    self.fail("bind:future-pending", format!("TcpListener::bind({sa}) on host {h} did not complete at once"));
                    return None;
                }
            }
        } else {
            match now_or_never(UdpSocket::bind(sa)) {
                Some(Ok(s)) => (s.local_addr(), Obj::Udp(self.world.hold(h, s))),
                Some(Err(e)) => (Err(e), Obj::None),
                None => {
                    self.fail("bind:future-pending", format!("UdpSocket::bind({sa}) on host {h} did not complete at once"));
                    return None;
                }
            }
        };
        let what = format!("{} bind({sa}) on host {h}", if tcp { "tcp" } else { "udp" });
        let ctx = |s: &Sim| {
            format!(
                "{what}; live sockets of the host: {:?}; ephemeral range {:?}",
                s.entries.iter().filter(|e| e.live && e.host == h).map(|e| format!("{}{}:{}", if e.tcp { "tcp " } else { "udp " }, e.addr, e.port)).collect::<Vec<_>>(),
                range
            )
        };
        if !probe {
            let k = if tcp { "tcp" } else { "udp" };
            match &res {
                Ok(_) => self.out.label(format!("bind:{k}:ok")),
                Err(e) => self.out.label(format!("bind:{k}:{:?}", e.kind())),
            }
            if port == 0 && addr.is_unspecified() | self.is_local(h, addr) {
                let n = self.port0_allocs.entry((h, tcp, addr.is_ipv6())).or_default();
                *n += 1;
                if *n > self.cfg[h].eph_len as u32 {
                    self.out.label("port0:cursor-wrapped");
                }
            }
        }
        match (res, exp) {
            (Ok(local), Ok(ports)) => {
                if local.ip() != addr || !ports.contains(&local.port()) {
                    let d = format!("{}: Ok with local_addr {local}; the model admits address {addr} and ports {ports:?}", ctx(self));
                    self.fail(if port == 0 { "bind:port-0-yields-a-port-in-use-or-outside-the-range" } else { "bind:local-addr-differs-from-requested" }, d);
                    return None;
                }
                if port == 0 && !probe {
                    self.out.label("port0:allocated");
                }
                self.entries.push(Entry { host: h, tcp, addr, port: local.port(), role: if tcp { Role::Listener } else { Role::Udp { peer: None } }, live: true });
                self.objs.push(obj);
                Some(self.entries.len() - 1)
            }
            (Ok(local), Err(ks)) => {
                let d = format!("{}: Ok (local_addr {local}) but the model says {ks:?}", ctx(self));
                drop(obj);
                let k = ks[0];
                self.fail(&format!("bind:ok-where-the-model-says-{k:?}"), d);
                None
            }
            (Err(e), Ok(ports)) => {
                let d = format!("{}: {:?} but the model says Ok (ports {ports:?})", ctx(self), e.kind());
                self.fail(&format!("bind:{:?}-where-the-model-says-ok", e.kind()), d);
                None
            }
            (Err(e), Err(ks)) => {
                if !ks.contains(&e.kind()) {
                    let d = format!("{}: {:?} but the model admits only {ks:?}", ctx(self), e.kind());
                    self.fail("bind:wrong-error-kind", d);
                } else {
                    if ks.len() > 1 && !probe {
                        // both failure reasons hold: the property does not rank them
                        self.out.label(format!("bind:both-failure-reasons-hold:{:?}", e.kind()));
                    }
                    if port == 0 && ks == [ErrorKind::AddrInUse] && !probe {
                        self.out.label("port0:exhausted");
                    }
                }
                None
            }
        }
    }

    fn udp_connect(&mut self, h: usize, s: u8, ph: usize, sel: AddrSel, p: u8) {
        let udps: Vec<usize> = self.live_on(h).into_iter().filter(|i| !self.entries[*i].tcp).collect();
        if udps.is_empty() {
            return;
        }
        let ei = udps[s as usize % udps.len()];
        let v6 = self.entries[ei].v6();
        let ports = self.candidate_ports();
        let port = ports[p as usize % ports.len()];
        let ip = match sel {
            AddrSel::Any => self.sel_addr(ph, AddrSel::Local(0), v6),
            // the alias spellings are IPv6 addresses: an IPv4 socket gets the plain unknown address
            AddrSel::Mapped(_) | AddrSel::Compat(_) if !v6 => unknown_ip(false),
            other => self.sel_addr(ph, other, v6),
        };
        if alias_target(ip).is_some() {
            self.out.label("udp-connect:peer-is-an-alias-spelling-of-an-ipv4-address");
        }
        let peer = SocketAddr::new(ip, port);
        let Obj::Udp(u) = &self.objs[ei] else { return };
        match now_or_never(u.get().connect(peer)) {
            Some(Ok(())) => {
                let pa = u.get().peer_addr().ok();
                if pa != Some(peer) {
                    self.fail("udp-connect:peer_addr-differs", format!("connect({peer}) then peer_addr() = {pa:?}"));
                    return;
                }
                self.entries[ei].role = Role::Udp { peer: Some(peer) };
                self.out.label("udp-connect:ok");
            }
            Some(Err(e)) => self.fail("udp-connect:error", format!("udp socket {}:{} on host {h} connect({peer}): {e:?}", self.entries[ei].addr, self.entries[ei].port)),
            None => self.fail("udp-connect:pending", format!("connect({peer})")),
        }
    }

    /// run a connect to completion; returns the result and the rounds it took
    fn drive_connect(&mut self, h: usize, dst: SocketAddr) -> std::io::Result<TcpStream> {
        self.world.pin(h);
        let mut fut: Held<ConnFut> = self.world.hold(h, Box::pin(TcpStream::connect(dst)));
        for _ in 0..((self.retx_m + 2) * RETX_T + 6) {
            if let Poll::Ready(r) = poll_once(fut.get_mut().as_mut()) {
                return r;
            }
            self.step();
        }
        Err(std::io::Error::other("connect never resolved"))
    }

    fn tcp_connect(&mut self, h: usize, th: usize, sel: AddrSel, v6: bool, p: u8) {
        let ports = self.candidate_ports();
        let port = ports[p as usize % ports.len()];
        let ip = match sel {
            AddrSel::Any | AddrSel::Foreign(_) => self.sel_addr(th, AddrSel::Local(0), v6),
            AddrSel::Lo => lo(v6),
            other => self.sel_addr(th, other, v6),
        };
        if alias_target(ip).is_some() {
            self.out.label("connect:destination-is-an-alias-spelling-of-an-ipv4-address");
        }
        self.tcp_connect_to(h, SocketAddr::new(ip, port));
    }

    fn tcp_connect_to(&mut self, h: usize, dst: SocketAddr) {
        self.tcp_connect_inner(h, dst);
        if self.pol.active {
            // let every delayed duplicate arrive before the next step (and before the count check)
            if !self.failed {
                self.settle();
            }
            self.pol.active = false;
        }
    }

    fn tcp_connect_inner(&mut self, h: usize, dst: SocketAddr) {
        let v6 = dst.is_ipv6();
        let range = self.eph(h);
        // model
        let free: BTreeSet<u16> = {
            let used: BTreeSet<u16> = self.entries.iter().filter(|e| e.live && e.host == h && e.tcp && e.v6() == v6).map(|e| e.port).collect();
            range.clone().filter(|p| !used.contains(p)).collect()
        };
        if self.is_local(h, dst.ip()) && free.contains(&dst.port()) {
            // the client could be given the destination port itself: a self-connect, which the
            // property does not speak about
            self.out.label("connect:skipped-possible-self-connect");
            return;
        }
        let route = self.route_syn(h, dst);
        // No free ephemeral port: the connect must fail (and leave no socket or binding behind, see
        // the count check after the step), but the property does not name the error KIND of a
        // connect that cannot get a source port -- AddrInUse (the port space is used up) and
        // AddrNotAvailable (Linux connect(2): EADDRNOTAVAIL) are both admitted.
        let exhausted = free.is_empty();
        let exp: Result<usize, ErrorKind> = if exhausted {
            Err(ErrorKind::AddrInUse)
        } else {
            match route {
                Err(()) => Err(ErrorKind::TimedOut),
                Ok(None) => Err(ErrorKind::ConnectionRefused),
                Ok(Some(l)) => Ok(l),
            }
        };
        self.pol.active = self.delayed;
        let res = self.drive_connect(h, dst);
        let ctx = format!("tcp connect({dst}) from host {h}; model: {exp:?}; free ephemeral ports {free:?}; listeners {:?}", self.entries.iter().filter(|e| e.live && e.role == Role::Listener).map(|e| format!("h{} {}:{}", e.host, e.addr, e.port)).collect::<Vec<_>>());
        match (res, exp) {
            (Ok(s), Ok(li)) => {
                let (cl, cp) = (s.local_addr().ok(), s.peer_addr().ok());
                let cs = self.world.hold(h, s);
                // the connecting socket is unbound: which of the host's addresses it takes as source
                // is not fixed by the property (loopback towards loopback), only that it is local
                let exp_ips = self.free_source_ips(h, dst.ip());
                let ok_local = cl.map(|l| exp_ips.contains(&l.ip()) && free.contains(&l.port())).unwrap_or(false);
                if !ok_local || cp != Some(dst) {
                    self.fail("connect:client-addresses-wrong", format!("{ctx}: local_addr {cl:?} (expected one of {exp_ips:?} and a free ephemeral port), peer_addr {cp:?}"));
                    return;
                }
                if exp_ips.len() > 1 {
                    self.out.label("connect:client-source-address-open");
                }
                let cl = cl.unwrap();
                // the handshake ACK needs one more round
                self.pump();
                // exactly the modelled listener hands it out
                let mut got: Option<(Held<TcpStream>, usize)> = None;
                for i in 0..self.entries.len() {
                    if !(self.entries[i].live && self.entries[i].role == Role::Listener) {
                        continue;
                    }
                    let Obj::Lst(l) = &self.objs[i] else { continue };
                    let mut cx = std::task::Context::from_waker(std::task::Waker::noop());
                    if let Poll::Ready(r) = l.get().poll_accept(&mut cx) {
                        match r {
                            Ok((s, peer)) => {
                                let sl = s.local_addr().ok();
                                let hs = self.world.hold(self.entries[i].host, s);
                                if i != li || peer != cl || sl != Some(dst) {
                                    let d = format!("{ctx}: accepted by listener h{} {}:{} with (local {sl:?}, peer {peer}); the model names listener h{} {}:{} and (local {dst}, peer {cl})", self.entries[i].host, self.entries[i].addr, self.entries[i].port, self.entries[li].host, self.entries[li].addr, self.entries[li].port);
                                    self.fail("connect:accepted-by-the-wrong-listener-or-with-wrong-addresses", d);
                                    return;
                                }
                                got = Some((hs, i));
                            }
                            Err(e) => {
                                self.fail("accept:error", format!("{ctx}: {e:?}"));
                                return;
                            }
                        }
                    }
                }
                let Some((hs, _)) = got else {
                    self.fail("connect:ok-but-no-listener-has-the-connection", ctx);
                    return;
                };
                // ... and exactly once: no listener has anything more to hand out
                for i in 0..self.entries.len() {
                    if !(self.entries[i].live && self.entries[i].role == Role::Listener) {
                        continue;
                    }
                    let Obj::Lst(l) = &self.objs[i] else { continue };
                    let mut cx = std::task::Context::from_waker(std::task::Waker::noop());
                    if let Poll::Ready(r) = l.get().poll_accept(&mut cx) {
                        let what = match r {
                            Ok((s, peer)) => {
                                let sl = s.local_addr().ok();
                                drop(self.world.hold(self.entries[i].host, s));
                                format!("(local {sl:?}, peer {peer})")
                            }
                            Err(e) => format!("{e:?}"),
                        };
                        let d = format!("{ctx}: after the connection was accepted once, listener h{} {}:{} hands out another one: {what}", self.entries[i].host, self.entries[i].addr, self.entries[i].port);
                        self.fail("connect:one-connect-yields-a-second-accepted-connection", d);
                        return;
                    }
                }
                let sh = self.entries[li].host;
                self.entries.push(Entry { host: h, tcp: true, addr: cl.ip(), port: cl.port(), role: Role::ConnEnd { conn: self.conns.len(), peer: dst }, live: true });
                self.objs.push(Obj::Stream(cs));
                self.entries.push(Entry { host: sh, tcp: true, addr: dst.ip(), port: dst.port(), role: Role::ConnEnd { conn: self.conns.len(), peer: cl }, live: true });
                self.objs.push(Obj::Stream(hs));
                self.conns.push((self.entries.len() - 2, self.entries.len() - 1));
                self.out.label("connect:ok");
            }
            (Ok(s), Err(k)) => {
                let l = s.local_addr().ok();
                drop(self.world.hold(h, s));
                self.fail(&format!("connect:ok-where-the-model-says-{k:?}"), format!("{ctx}: Ok (local {l:?})"));
            }
            (Err(e), Ok(_)) => self.fail(&format!("connect:{:?}-where-the-model-names-a-listener", e.kind()), format!("{ctx}: {e:?}")),
            (Err(e), Err(k)) => {
                if exhausted {
                    self.out.label(format!("connect:ephemeral-range-exhausted:{:?}", e.kind()));
                    if !matches!(e.kind(), ErrorKind::AddrInUse | ErrorKind::AddrNotAvailable) {
                        self.fail("connect:wrong-error-kind", format!("{ctx} (no free ephemeral port: AddrInUse or AddrNotAvailable admitted): {e:?}"));
                    }
                    return;
                }
                self.out.label(format!("connect:{k:?}"));
                if e.kind() != k {
                    self.fail("connect:wrong-error-kind", format!("{ctx}: {e:?}"));
                }
            }
        }
    }

    fn close(&mut self, h: usize, s: u8) {
        let live = self.live_on(h);
        if live.is_empty() {
            return;
        }
        let ei = live[s as usize % live.len()];
        match self.entries[ei].role {
            Role::ConnEnd { conn, .. } => {
                let (a, b) = self.conns[conn];
                let (first, second) = if ei == a { (a, b) } else { (b, a) };
                let o = std::mem::replace(&mut self.objs[first], Obj::None);
                drop(o);
                self.pump();
                let o = std::mem::replace(&mut self.objs[second], Obj::None);
                drop(o);
                self.settle();
                self.entries[a].live = false;
                self.entries[b].live = false;
                self.out.label(if ei == a { "close:connection-client-first" } else { "close:connection-server-first" });
            }
            _ => {
                let o = std::mem::replace(&mut self.objs[ei], Obj::None);
                drop(o);
                self.entries[ei].live = false;
                self.out.label(if self.entries[ei].tcp { "close:listener" } else { "close:udp" });
                self.pump();
            }
        }
    }

    // ------------------------------------------------------------ probe matrix

    fn dest_addrs(&self) -> Vec<IpAddr> {
        let mut v = Vec::new();
        for v6 in [false, true] {
            for h in 0..self.nh {
                for i in 0..self.naddrs(h, v6) {
                    v.push(host_addr(h, v6, i));
                }
            }
            v.push(lo(v6));
            v.push(unknown_ip(v6));
        }
        // spellings that alias (or nearly alias) owned addresses but are owned by nobody: the
        // IPv4-mapped and IPv4-compatible IPv6 forms of every owned IPv4 address and of IPv4
        // loopback.  They are IPv6 destinations (sent from the IPv6 probe sockets) and unknown ones.
        for mapped in [true, false] {
            for h in 0..self.nh {
                for i in 0..self.naddrs(h, false) {
                    v.push(alias_of(host_addr(h, false, i), mapped));
                }
            }
        }
        v.push(alias_of(lo(false), true));
        v
    }

    /// class label for a probe to an alias spelling: is there an IPv6 wildcard socket of that
    /// protocol on the probed port on the host owning the aliased IPv4 address (own host for loopback)?
    fn note_alias_probe(&mut self, from: usize, tcp: bool, dst: SocketAddr) {
        let Some(v4) = alias_target(dst.ip()) else { return };
        let owner = if v4.is_loopback() { Some(from) } else { self.world.owner(v4) };
        let Some(o) = owner else { return };
        let victim = self.entries.iter().any(|e| e.live && e.host == o && e.tcp == tcp && e.v6() && e.addr.is_unspecified() && e.port == dst.port() && (!tcp || e.role == Role::Listener));
        let k = if tcp { "tcp" } else { "udp" };
        self.out.label(format!("probe:{k}:alias-spelling-of-an-owned-ipv4-address"));
        if victim {
            self.out.label(format!("probe:{k}:alias-spelling-with-ipv6-wildcard-on-the-owner's-port"));
        }
    }

    fn probes(&mut self) {
        for h in 0..self.nh {
            self.world.set_eph(h, PROBE_EPH);
        }
        let ports = self.candidate_ports();
        let dsts = self.dest_addrs();
        let scenario_entries = self.entries.len();

        // ---- established connections first: a tag each way
        self.conn_tags("before-probes");
        if self.failed {
            return;
        }

        // ---- UDP
        // probe sockets: per host and family, wildcard : PROBE_SRC_PORT + h
        let mut psock: BTreeMap<(usize, bool), usize> = BTreeMap::new();
        for h in 0..self.nh {
            for v6 in [false, true] {
                let Some(e) = self.bind_at(h, false, any(v6), PROBE_SRC_PORT + h as u16, PROBE_EPH, true) else {
                    if !self.failed {
                        self.fail("probe:cannot-bind-probe-socket", format!("host {h} v6={v6}"));
                    }
                    return;
                };
                psock.insert((h, v6), e);
            }
        }
        // every probe is judged on its own: sent[tag] = where it went and which sources it may carry
        let mut tag: u32 = 1;
        let mut sent: BTreeMap<u32, UdpProbe> = BTreeMap::new();
        let mut judged: u32 = 0;
        for h in 0..self.nh {
            for d in dsts.iter() {
                for p in ports.iter() {
                    let dst = SocketAddr::new(*d, *p);
                    let pe = psock[&(h, d.is_ipv6())];
                    let srcs = self.probe_srcs(pe, *d);
                    self.note_alias_probe(h, false, dst);
                    if !self.udp_send(pe, dst, tag) {
                        return;
                    }
                    sent.insert(tag, UdpProbe { host: h, srcs, dst, note: None });
                    tag += 1;
                }
            }
        }
        if !self.drain_udp(&sent, &mut judged) {
            return;
        }
        // datagrams from exactly the peer of every connected socket (own phase: the temporary
        // sockets bound at peer addresses must not see the matrix)
        let connected: Vec<usize> = (0..scenario_entries).filter(|i| self.entries[*i].live && matches!(self.entries[*i].role, Role::Udp { peer: Some(_) })).collect();
        for ci in connected.iter().copied() {
            let Role::Udp { peer: Some(peer) } = self.entries[ci].role else { continue };
            let ch = self.entries[ci].host;
            // the connected socket's own `send` goes to its peer
            {
                let srcs = self.probe_srcs(ci, peer.ip());
                let mut b = [0u8; 8];
                b[0..4].copy_from_slice(&tag.to_le_bytes());
                b[4..8].copy_from_slice(&[0xC1, 0x7C, 0x17, 0xAA]);
                let r = if let Obj::Udp(u) = &self.objs[ci] { u.get().try_send(&b) } else { Ok(8) };
                if !matches!(r, Ok(8)) {
                    let d = format!("connected udp socket h{ch} {}:{} send() to its peer {peer} -> {r:?}", self.entries[ci].addr, self.entries[ci].port);
                    self.fail("udp:connected-send-failed", d);
                    return;
                }
                sent.insert(tag, UdpProbe { host: ch, srcs, dst: peer, note: Some(("connected-send:reaches-a-socket", None)) });
                tag += 1;
            }
        }
        if !self.drain_udp(&sent, &mut judged) {
            return;
        }
        let mut temp: Vec<usize> = Vec::new();
        for ci in connected {
            let Role::Udp { peer: Some(peer) } = self.entries[ci].role else { continue };
            let ch = self.entries[ci].host;
            let Some(ph) = self.target_host(ch, peer.ip()) else {
                self.out.label("peer-probe:peer-address-unknown");
                continue;
            };
            // where to send: the connected socket's own address
            let dip = if !self.entries[ci].addr.is_unspecified() {
                self.entries[ci].addr
            } else if peer.ip().is_loopback() {
                lo(peer.is_ipv6())
            } else {
                self.first_addr(ch, peer.is_ipv6())
            };
            if dip.is_loopback() != peer.ip().is_loopback() && (dip.is_loopback() || peer.ip().is_loopback()) && ph != ch {
                self.out.label("peer-probe:loopback-mismatch");
                continue;
            }
            let dst = SocketAddr::new(dip, self.entries[ci].port);
            // a socket on ph whose datagrams to dst can carry source == peer: preferably one bound
            // to exactly the peer address (then the source is determined), else a wildcard-bound
            // one (judged over every source it may pick)
            let existing = (0..self.entries.len())
                .filter(|i| {
                    let e = &self.entries[*i];
                    e.live && e.host == ph && !e.tcp && e.v6() == peer.is_ipv6() && e.port == peer.port() && self.source_ips(e, dip).contains(&peer.ip())
                })
                .min_by_key(|i| self.source_ips(&self.entries[*i], dip).len());
            let sender = match existing {
                Some(s) => Some(s),
                None => {
                    if self.model_bind(ph, false, peer.ip(), peer.port(), &PROBE_EPH).is_ok() {
                        let e = self.bind_at(ph, false, peer.ip(), peer.port(), PROBE_EPH, true);
                        if let Some(e) = e {
                            temp.push(e);
                        }
                        e
                    } else {
                        None
                    }
                }
            };
            if self.failed {
                return;
            }
            let Some(sender) = sender else {
                self.out.label("peer-probe:peer-address-not-bindable");
                continue;
            };
            // the packet reaches host `ph`'s view of dst
            if self.target_host(ph, dip) != Some(ch) {
                self.out.label("peer-probe:destination-not-reachable-from-peer");
                continue;
            }
            let srcs = self.probe_srcs(sender, dip);
            if !self.udp_send(sender, dst, tag) {
                return;
            }
            sent.insert(tag, UdpProbe { host: ph, srcs, dst, note: Some(("peer-probe:delivered-to-connected-socket", Some(ci))) });
            tag += 1;
        }
        if !self.drain_udp(&sent, &mut judged) {
            return;
        }
        self.out.count("udp_probes_sent", (tag - 1) as u64);
        // close probe sockets
        for e in psock.values().copied().chain(temp.into_iter()) {
            let o = std::mem::replace(&mut self.objs[e], Obj::None);
            drop(o);
            self.entries[e].live = false;
        }

        // ---- TCP
        struct P {
            h: usize,
            dst: SocketAddr,
            fut: Option<Held<ConnFut>>,
            res: Option<Result<(SocketAddr, Held<TcpStream>), ErrorKind>>,
            exp: Result<usize, ErrorKind>,
        }
        let mut ps: Vec<P> = Vec::new();
        for h in 0..self.nh {
            for d in dsts.iter() {
                for p in ports.iter() {
                    let dst = SocketAddr::new(*d, *p);
                    let exp = match self.route_syn(h, dst) {
                        Err(()) => Err(ErrorKind::TimedOut),
                        Ok(None) => Err(ErrorKind::ConnectionRefused),
                        Ok(Some(l)) => Ok(l),
                    };
                    self.note_alias_probe(h, true, dst);
                    self.world.pin(h);
                    let fut: Held<ConnFut> = self.world.hold(h, Box::pin(TcpStream::connect(dst)));
                    ps.push(P { h, dst, fut: Some(fut), res: None, exp });
                }
            }
        }
        self.pol.active = self.delayed;
        for _ in 0..((self.retx_m + 2) * RETX_T + 8) {
            let mut pending = 0;
            for p in ps.iter_mut() {
                if let Some(f) = p.fut.as_mut() {
                    match poll_once(f.get_mut().as_mut()) {
                        Poll::Ready(Ok(s)) => {
                            let l = s.local_addr().unwrap_or(SocketAddr::new(any(false), 0));
                            p.res = Some(Ok((l, self.world.hold(p.h, s))));
                            p.fut = None;
                        }
                        Poll::Ready(Err(e)) => {
                            p.res = Some(Err(e.kind()));
                            p.fut = None;
                        }
                        Poll::Pending => pending += 1,
                    }
                }
            }
            if pending == 0 {
                break;
            }
            self.step();
        }
        self.pump();
        self.pol.active = false;
        // results
        let mut per_listener: BTreeMap<usize, BTreeSet<(SocketAddr, SocketAddr)>> = BTreeMap::new();
        for p in ps.iter() {
            let got: Result<SocketAddr, ErrorKind> = match &p.res {
                None => Err(ErrorKind::Other),
                Some(Ok((l, _))) => Ok(*l),
                Some(Err(k)) => Err(*k),
            };
            let ok = match (&got, &p.exp) {
                (Ok(_), Ok(_)) => true,
                (Err(a), Err(b)) => a == b,
                _ => false,
            };
            if !ok {
                let d = format!("tcp probe from host {} to {}: {:?}; the model says {}; listeners {:?}", p.h, p.dst, got, match p.exp { Ok(l) => format!("accepted by listener h{} {}:{}", self.entries[l].host, self.entries[l].addr, self.entries[l].port), Err(k) => format!("{k:?}") }, self.entries.iter().filter(|e| e.live && e.role == Role::Listener).map(|e| format!("h{} {}:{}", e.host, e.addr, e.port)).collect::<Vec<_>>());
                let sig = match (&got, &p.exp) {
                    (Ok(_), Err(_)) => "route-tcp:connect-succeeds-where-the-model-has-no-listener",
                    (Err(_), Ok(_)) => "route-tcp:connect-fails-where-the-model-names-a-listener",
                    _ => "route-tcp:wrong-error-kind",
                };
                self.out.fail(sig, d);
                self.failed = true;
                break;
            }
            if let (Ok(l), Ok(li)) = (&got, &p.exp) {
                per_listener.entry(*li).or_default().insert((p.dst, *l));
            }
        }
        if !self.failed {
            // every listener hands out exactly the modelled connections
            for i in 0..scenario_entries {
                if !(self.entries[i].live && self.entries[i].role == Role::Listener) {
                    continue;
                }
                let mut got: BTreeSet<(SocketAddr, SocketAddr)> = BTreeSet::new();
                let mut dup = false;
                if let Obj::Lst(l) = &self.objs[i] {
                    loop {
                        let mut cx = std::task::Context::from_waker(std::task::Waker::noop());
                        match l.get().poll_accept(&mut cx) {
                            Poll::Ready(Ok((s, peer))) => {
                                let sl = s.local_addr().unwrap_or(SocketAddr::new(any(false), 0));
                                drop(self.world.hold(self.entries[i].host, s));
                                if !got.insert((sl, peer)) {
                                    dup = true;
                                }
                            }
                            Poll::Ready(Err(_)) => break,
                            Poll::Pending => break,
                        }
                    }
                }
                let exp = per_listener.remove(&i).unwrap_or_default();
                if got != exp || dup {
                    let e = &self.entries[i];
                    let d = format!("listener h{} {}:{} accepted (local, peer) {:?}; the model routes {:?} to it (duplicate: {dup})", e.host, e.addr, e.port, got.difference(&exp).collect::<Vec<_>>(), exp.difference(&got).collect::<Vec<_>>());
                    self.out.fail("route-tcp:listener-accepts-a-different-set-of-probe-connections", d);
                    self.failed = true;
                    break;
                }
                self.out.count("tcp_probes_accepted", got.len() as u64);
            }
        }
        self.out.count("tcp_probes", ps.len() as u64);
        // tear the probes down (pending futures and streams are Held)
        drop(ps);
        if self.failed {
            return;
        }
        self.settle();
        self.conn_tags("after-probes");
        if !self.failed {
            // every probe connection is closed on both ends: exactly the scenario's sockets remain
            // (one server-side socket per established 4-tuple)
            self.check_counts("the probe matrix");
        }
    }

    /// (candidate source address, source port) of a datagram that UDP socket entry `e` sends to `dst`
    fn probe_srcs(&self, e: usize, dst: IpAddr) -> Vec<SocketAddr> {
        let en = &self.entries[e];
        self.source_ips(en, dst).into_iter().map(|ip| SocketAddr::new(ip, en.port)).collect()
    }

    /// Deliver what is on the wire, read every live UDP socket empty, then judge every probe with
    /// a tag above `*judged` on its own.  For each source address the probe may carry the model
    /// names the receiving socket (or none); the observation -- which socket got the datagram, if
    /// any, and the `from` it reports -- must equal the outcome of ONE of those sources: delivered
    /// to the socket the model names for that source with exactly that source as `from`, or not
    /// delivered where the model names none for some admissible source.  A datagram seen twice, one
    /// that belongs to no probe of this phase, or one whose payload is not a probe is a violation.
    fn drain_udp(&mut self, sent: &BTreeMap<u32, UdpProbe>, judged: &mut u32) -> bool {
        self.pump();
        // tag -> [(receiving socket entry, from)]
        let mut obs: BTreeMap<u32, Vec<(usize, SocketAddr)>> = BTreeMap::new();
        let mut received: u64 = 0;
        for i in 0..self.entries.len() {
            if !self.entries[i].live || self.entries[i].tcp {
                continue;
            }
            if let Obj::Udp(u) = &self.objs[i] {
                let mut buf = [0u8; 16];
                loop {
                    match u.get().try_recv_from(&mut buf) {
                        Ok((n, from)) => {
                            let t = if n == 8 && buf[4..8] == [0xC1, 0x7C, 0x17, 0xAA] { u32::from_le_bytes(buf[0..4].try_into().unwrap()) } else { 0 };
                            obs.entry(t).or_default().push((i, from));
                            received += 1;
                        }
                        Err(e) if e.kind() == ErrorKind::WouldBlock => break,
                        Err(e) => {
                            self.fail("udp:recv-error", format!("{e:?}"));
                            return false;
                        }
                    }
                }
            }
        }
        const EXTRA: &str = "route-udp:datagram-delivered-to-a-socket-the-model-does-not-name";
        const MISSING: &str = "route-udp:datagram-not-delivered-to-the-socket-the-model-names";
        let sock = |s: &Sim, i: usize| {
            let e = &s.entries[i];
            format!("h{} {}:{} ({:?})", e.host, e.addr, e.port, e.role)
        };
        let socks = |s: &Sim| s.entries.iter().filter(|e| e.live && !e.tcp).map(|e| format!("h{} {}:{} {:?}", e.host, e.addr, e.port, e.role)).collect::<Vec<_>>();
        // deliveries that belong to no probe of this phase
        for (t, v) in obs.iter() {
            if *t <= *judged || !sent.contains_key(t) {
                let (i, from) = v[0];
                let d = format!("udp socket {} received a datagram with tag {t} from {from} that is no probe of this phase (earlier probe: {:?}); udp sockets: {:?}", sock(self, i), sent.get(t), socks(self));
                self.fail(EXTRA, d);
                return false;
            }
        }
        let first = *judged + 1;
        for (t, p) in sent.range(first..) {
            // admissible outcomes, one per candidate source: (receiving socket, from) or not delivered
            let adm: Vec<Option<(usize, SocketAddr)>> = p.srcs.iter().map(|s| self.route_udp(p.host, *s, p.dst).map(|r| (r, *s))).collect();
            let got: &[(usize, SocketAddr)] = obs.get(t).map(|v| v.as_slice()).unwrap_or(&[]);
            let adm_txt = |s: &Sim| adm.iter().zip(p.srcs.iter()).map(|(a, src)| match a { Some((r, _)) => format!("source {src} -> socket {}", sock(s, *r)), None => format!("source {src} -> no socket") }).collect::<Vec<_>>();
            let verdict: Option<(&str, String)> = match got {
                [] => {
                    if adm.contains(&None) {
                        None
                    } else {
                        Some((MISSING, format!("probe tag {t} sent on host {} to {} was received by no socket; the model: {:?}", p.host, p.dst, adm_txt(self))))
                    }
                }
                [one] => {
                    if adm.contains(&Some(*one)) {
                        None
                    } else {
                        Some((EXTRA, format!("probe tag {t} sent on host {} to {} was received by socket {} with from {}; the model: {:?}", p.host, p.dst, sock(self, one.0), one.1, adm_txt(self))))
                    }
                }
                many => Some((EXTRA, format!("probe tag {t} sent on host {} to {} was received {} times: {:?}; the model: {:?}", p.host, p.dst, many.len(), many.iter().map(|(i, f)| format!("socket {} from {f}", sock(self, *i))).collect::<Vec<_>>(), adm_txt(self)))),
            };
            if let Some((sig, d)) = verdict {
                let d = format!("{d}; udp sockets: {:?}", socks(self));
                self.fail(sig, d);
                return false;
            }
            if p.srcs.len() > 1 {
                self.out.label("udp-probe:source-address-open");
                if adm.iter().any(|a| a.map(|x| x.0) != adm[0].map(|x| x.0)) {
                    self.out.label("udp-probe:outcome-depends-on-the-source-address");
                }
            }
            if let (Some((r, _)), Some((label, to))) = (got.first(), p.note) {
                if to.is_none() || to == Some(*r) {
                    self.out.label(label);
                }
            }
        }
        if let Some((t, _)) = sent.iter().next_back() {
            *judged = *t;
        }
        self.out.count("udp_probes_received", received);
        true
    }

    fn udp_send(&mut self, e: usize, dst: SocketAddr, tag: u32) -> bool {
        let Obj::Udp(u) = &self.objs[e] else { return true };
        let mut b = [0u8; 8];
        b[0..4].copy_from_slice(&tag.to_le_bytes());
        b[4..8].copy_from_slice(&[0xC1, 0x7C, 0x17, 0xAA]);
        match u.get().try_send_to(&b, dst) {
            Ok(8) => true,
            other => {
                let d = format!("udp socket h{} {}:{} send_to({dst}) -> {other:?}", self.entries[e].host, self.entries[e].addr, self.entries[e].port);
                self.fail("udp:send_to-failed", d);
                false
            }
        }
    }

    /// a distinct tag written on each end of every established connection is read by the other end only
    fn conn_tags(&mut self, stage: &str) {
        let conns: Vec<(usize, usize)> = self.conns.iter().copied().filter(|(a, _)| self.entries[*a].live).collect();
        for (n, (a, b)) in conns.iter().enumerate() {
            for (side, e) in [(0u8, *a), (1u8, *b)] {
                if let Obj::Stream(s) = &self.objs[e] {
                    let tag = [0xE0 | side, n as u8, 0x5A, stage.len() as u8];
                    if let Err(er) = s.get().try_write(&tag) {
                        self.fail("conn:write-failed", format!("{stage}: connection {n} side {side}: {er:?}"));
                        return;
                    }
                }
            }
        }
        self.pump();
        for (n, (a, b)) in conns.iter().enumerate() {
            for (side, e) in [(0u8, *a), (1u8, *b)] {
                if let Obj::Stream(s) = &self.objs[e] {
                    let mut buf = [0u8; 16];
                    let want = [0xE0 | (1 - side), n as u8, 0x5A, stage.len() as u8];
                    match s.get().try_read(&mut buf) {
                        Ok(4) if buf[..4] == want => {}
                        other => {
                            let en = &self.entries[e];
                            let d = format!("{stage}: connection {n}: end h{} {}:{} ({:?}) read {other:?} {:?}, expected the 4-byte tag {want:?} of its peer", en.host, en.addr, en.port, en.role, &buf[..4]);
                            self.fail("route-tcp:segment-of-an-established-connection-not-delivered-to-its-socket", d);
                            return;
                        }
                    }
                }
            }
        }
        self.out.count("conn_tag_roundtrips", conns.len() as u64);
    }
}

pub fn run(sc: &Scenario) -> Outcome {
    let nh = sc.hosts.len().clamp(2, 3);
    let mut cfg: Vec<HostCfg> = sc.hosts.iter().take(nh).cloned().collect();
    while cfg.len() < nh {
        cfg.push(HostCfg { v4: 1, v6: 1, eph_len: 2 });
    }
    for c in cfg.iter_mut() {
        c.v4 = c.v4.clamp(1, 2);
        c.v6 = c.v6.clamp(1, 2);
        c.eph_len = c.eph_len.clamp(1, 6);
    }
    let hosts: Vec<Vec<IpAddr>> = (0..nh)
        .map(|h| {
            let mut v = Vec::new();
            for i in 0..cfg[h].v4 as usize {
                v.push(host_addr(h, false, i));
            }
            for i in 0..cfg[h].v6 as usize {
                v.push(host_addr(h, true, i));
            }
            v
        })
        .collect();
    let delayed = sc.wire.as_ref().map(|w| w.holds.iter().any(|h| *h >= 2) || w.drop_synack.is_some()).unwrap_or(false);
    let retx_m = if delayed { RETX_M_DELAYED } else { RETX_M };
    let k = KernelConfig::default().retx_threshold(RETX_T).retx_max(retx_m);
    let world = World::new(k, &hosts);
    for h in 0..nh {
        world.set_eph(h, EPH_BASE..=EPH_BASE + cfg[h].eph_len as u16 - 1);
    }
    let mut sim = Sim {
        nh,
        cfg,
        entries: Vec::new(),
        objs: Vec::new(),
        conns: Vec::new(),
        out: Outcome::ok(),
        failed: false,
        shared_port: false,
        port0_allocs: BTreeMap::new(),
        trace: std::env::var("VERIF_TRACE").is_ok(),
        retx_m,
        delayed,
        pol: WirePol {
            holds: sc.wire.as_ref().map(|w| if w.holds.is_empty() { vec![0] } else { w.holds.iter().map(|h| *h as u32).collect() }).unwrap_or_default(),
            drop_synack: sc.wire.as_ref().and_then(|w| w.drop_synack.map(|n| n as u32)),
            active: false,
            n_tcp: 0,
            n_synack: 0,
            dropped: false,
        },
        syn_seen: BTreeSet::new(),
        world,
    };
    for op in sc.ops.iter() {
        if sim.trace {
            eprintln!("OP {op:?}");
        }
        match op {
            Op::BindUdp { h, addr, v6, port } => {
                let h = *h as usize % nh;
                let r = sim.eph(h);
                sim.bind(h, false, *addr, *v6, *port, r, false);
            }
            Op::BindTcp { h, addr, v6, port } => {
                let h = *h as usize % nh;
                let r = sim.eph(h);
                sim.bind(h, true, *addr, *v6, *port, r, false);
            }
            Op::UdpConnect { h, s, ph, addr, p } => sim.udp_connect(*h as usize % nh, *s, *ph as usize % nh, *addr, *p),
            Op::TcpConnect { h, th, addr, v6, p } => sim.tcp_connect(*h as usize % nh, *th as usize % nh, *addr, *v6, *p),
            Op::TcpConnectL { h, l, lo: via_lo } => {
                let ls: Vec<usize> = (0..sim.entries.len()).filter(|i| sim.entries[*i].live && sim.entries[*i].role == Role::Listener).collect();
                if !ls.is_empty() {
                    let e = sim.entries[ls[*l as usize % ls.len()]].clone();
                    let h = *h as usize % nh;
                    let ip = if !e.addr.is_unspecified() {
                        e.addr
                    } else if *via_lo && h == e.host {
                        lo(e.v6())
                    } else {
                        host_addr(e.host, e.v6(), 0)
                    };
                    sim.tcp_connect_to(h, SocketAddr::new(ip, e.port));
                }
            }
            Op::Close { h, s } => sim.close(*h as usize % nh, *s),
        }
        if sim.failed {
            break;
        }
        sim.note_shared();
        sim.check_counts(&format!("{op:?}"));
        if sim.failed {
            break;
        }
        if sim.trace {
            for h in 0..nh {
                eprintln!("   host {h}: {:?}", sim.rows(h));
            }
        }
    }
    if !sim.failed {
        sim.probes();
    }
    sim.out.nontrivial = sim.shared_port;
    sim.out.label(format!("hosts={nh}"));
    sim.out.label(if delayed { "wire:delayed" } else { "wire:immediate" });
    if sim.pol.dropped {
        sim.out.label("wire:dropped-a-syn-ack");
    }
    if sim.cfg.iter().any(|c| c.v4 == 2 || c.v6 == 2) {
        sim.out.label("multi-homed");
    }
    let live = sim.entries.iter().filter(|e| e.live).count();
    sim.out.label(format!("live-at-probe={}", live.min(8)));
    if sim.entries.iter().any(|e| e.live && matches!(e.role, Role::Udp { peer: Some(_) })) {
        sim.out.label("connected-udp-at-probe");
    }
    if sim.entries.iter().any(|e| e.live && matches!(e.role, Role::ConnEnd { .. })) {
        sim.out.label("established-tcp-at-probe");
    }
    let out = std::mem::replace(&mut sim.out, Outcome::ok());
    // drop order: objects (Held) before the world
    sim.objs.clear();
    drop(sim);
    out
}

// ---------------------------------------------------------------- generator

fn addr_sel() -> BoxedStrategy<AddrSel> {
    prop_oneof![
        8 => Just(AddrSel::Any),
        4 => Just(AddrSel::Lo),
        10 => (0u8..2).prop_map(AddrSel::Local),
        2 => (0u8..2).prop_map(AddrSel::Foreign),
        2 => Just(AddrSel::Unknown),
        1 => (0u8..2).prop_map(AddrSel::Mapped),
        1 => (0u8..2).prop_map(AddrSel::Compat),
    ]
    .boxed()
}
fn port_sel() -> BoxedStrategy<PortSel> {
    prop_oneof![3 => Just(PortSel::Zero), 5 => (0u8..3).prop_map(PortSel::Fixed)].boxed()
}

fn op_strategy() -> BoxedStrategy<Op> {
    let h = 0u8..3;
    let v6 = prop::bool::weighted(0.3);
    prop_oneof![
        6 => (h.clone(), addr_sel(), v6.clone(), port_sel()).prop_map(|(h, addr, v6, port)| Op::BindUdp { h, addr, v6, port }),
        5 => (h.clone(), addr_sel(), v6.clone(), port_sel()).prop_map(|(h, addr, v6, port)| Op::BindTcp { h, addr, v6, port }),
        2 => (h.clone(), 0u8..6, 0u8..3, prop_oneof![6 => (0u8..2).prop_map(AddrSel::Local), 2 => Just(AddrSel::Lo), 2 => Just(AddrSel::Unknown), 1 => (0u8..2).prop_map(AddrSel::Mapped), 1 => (0u8..2).prop_map(AddrSel::Compat)], 0u8..8).prop_map(|(h, s, ph, addr, p)| Op::UdpConnect { h, s, ph, addr, p }),
        1 => (h.clone(), 0u8..3, prop_oneof![8 => (0u8..2).prop_map(AddrSel::Local), 2 => Just(AddrSel::Lo), 2 => Just(AddrSel::Unknown), 1 => (0u8..2).prop_map(AddrSel::Mapped), 1 => (0u8..2).prop_map(AddrSel::Compat)], v6, 0u8..8).prop_map(|(h, th, addr, v6, p)| Op::TcpConnect { h, th, addr, v6, p }),
        4 => (h.clone(), 0u8..6, prop::bool::ANY).prop_map(|(h, l, lo)| Op::TcpConnectL { h, l, lo }),
        3 => (h, 0u8..8).prop_map(|(h, s)| Op::Close { h, s }),
    ]
    .boxed()
}

pub fn strategy() -> BoxedStrategy<Scenario> {
    let host = (1u8..=2, 1u8..=2, 1u8..=4).prop_map(|(v4, v6, eph_len)| HostCfg { v4, v6, eph_len });
    let wire = prop_oneof![
        1 => Just(None),
        1 => (prop::collection::vec(prop_oneof![2 => Just(0u8), 2 => Just(2u8), 2 => Just(3u8), 1 => Just(4u8)], 1..8), prop::option::weighted(0.35, 0u8..6)).prop_map(|(holds, drop_synack)| Some(WirePlan { holds, drop_synack })),
    ];
    (prop::collection::vec(host, 2..=3), prop::collection::vec(op_strategy(), 3..26), wire).prop_map(|(hosts, ops, wire)| Scenario { hosts, ops, wire }).boxed()
}

fn check(tier: Tier, seed: u64) -> i32 {
    let ctx = Ctx::new("C17", tier, seed, "exploration");
    ctx.replay_corpus(&replay);
    ctx.random("table", tier.pick(30_000, 400_000), &|| strategy(), &run);
    ctx.finish(
        "random scenarios: 2-3 hosts with 1-2 IPv4 and 1-2 IPv6 addresses each, ephemeral range 5001..=5001+k-1 (k = 1..4, hook H3; overlaps the fixed ports 5001 and 5002) x wire class (immediate 50% / delayed 50%: TCP segments of connects held 0 or 2..4 rounds by a generated pattern, in 35% of those one SYN-ACK lost; retx_threshold 3, retx_max 1 resp. 4) x 3-25 operations (UDP bind / TCP listener bind to wildcard, loopback, a local address, an address of another host, an unknown address or the IPv4-mapped / IPv4-compatible IPv6 spelling of an own IPv4 address (7% of the binds; must fail: AddrNotAvailable, or also AddrInUse when a wildcard socket holds the port), port 0 or 5000/5001/5002; UDP connect to an address of some host, loopback, an unknown address or such an alias spelling; TCP connect (also to an alias spelling: must time out) + accept; close) x the full probe matrix (from every host a tagged UDP datagram and a TCP connect to every address of every host, loopback and an unknown address in both families, and -- from the IPv6 probe sockets -- to the IPv4-mapped (::ffff:a.b.c.d) and IPv4-compatible (::a.b.c.d) spelling of every owned IPv4 address and to ::ffff:127.0.0.1, which nobody owns (classes probe:*:alias-spelling-with-ipv6-wildcard-on-the-owner's-port count the cases where the owner of a.b.c.d has an IPv6 wildcard socket/listener on the probed port), on the 3 fixed ports and every port in use; the own send of every connected UDP socket and a datagram from its exact peer (sent from a socket bound to the peer address when one can be bound, else from a wildcard-bound socket on the peer's port); a tag each way on every established connection). Non-trivial = at some point >= 2 live UDP sockets / TCP listeners of one host share a port number across addresses, families or protocols; distinct by scenario hash.",
        &[
            "no SO_REUSEADDR/SO_REUSEPORT: the shim does not expose them and Kernel::set_option panics (unimplemented) for them; without them an exact-address socket and a wildcard socket of the same (family, protocol, port) can never coexist, so the 'exact before wildcard' order and the 'connected exact socket vs. wildcard fallback' case are not reachable through the public API",
            "IPv4 and IPv6 are separate port spaces (no dual-stack wildcard); turmoil-net documents no dual-stack delivery (IPV6_V6ONLY is listed as an option but set_option is unimplemented), address ownership is exact (Net::add_host registers the given IpAddr values, the fabric 'routes by destination IP and silently drops unknown addresses'), so ::ffff:a.b.c.d and ::a.b.c.d are addresses distinct from a.b.c.d that no host owns",
            "UDP datagrams and the segments of closing connections are always delivered in the round they are emitted; only TCP segments emitted while a connect is in progress are delayed / reordered (delayed class), holds <= 4 rounds and at most one lost SYN-ACK against a budget of retx_threshold 3 x retx_max 4, and the wire is left to settle before results, accept queues and table counts are judged",
            "TCP connections are closed on both ends and left to finish before the next step, so that 'live socket' is unambiguous",
            "which free port an ephemeral allocation returns is not predicted (any port of the range unused at every local address of that family+protocol is accepted); an explicit bind(addr:0) on an exhausted range must fail with AddrInUse; a TCP connect on an exhausted range must fail immediately, with AddrInUse or AddrNotAvailable (the property does not name the error kind of the implicit source-port bind), and must not fail that way while a port is free",
            "error kind of a failing bind: AddrNotAvailable when only 'address not local' holds, AddrInUse when only 'port taken / no ephemeral port free' holds; when both hold (a non-local address whose port is held by a same-protocol wildcard socket, or non-local:0 on an exhausted range) the property ('fails with AddrInUse or AddrNotAvailable otherwise') does not rank the reasons and either kind is accepted (class bind:both-failure-reasons-hold:*); that the bind fails is asserted in every case",
            "the source address chosen by a sender that is not tied to one local address is not asserted: a wildcard-bound UDP socket sending to a non-loopback destination, and the unbound socket of an outgoing TCP connect, may use any configured address of their host in the destination's family (loopback towards loopback). For such a datagram the model computes the receiving socket per candidate source (the connected-peer filter depends on it) and accepts the observation iff it equals the outcome of one candidate, with the receiver's `from` equal to exactly that candidate; a TCP client's local_addr must be one of the candidates with a free ephemeral port, and the accepting side must report exactly the address the client reports",
        ],
    )
}

fn replay(_sub: &str, v: &Value) -> Result<Outcome, String> {
    replay_as::<Scenario>(v, &run)
}

// ---------------------------------------------------------------- coverage-guided tier

/// Clamp a byte-decoded scenario (engine::bytesde) into exactly the domain of `strategy()` (sub
/// `table`): 2..=3 hosts with 1..=2 addresses per family and 1..=4 ephemeral ports, 3..=25
/// operations within `op_strategy`'s ranges (connect targets only Local/Lo/Unknown/Mapped/Compat), wire class
/// None or holds of 1..=7 entries out of {0,2,3,4} with an optional lost SYN-ACK 0..=5.
pub fn fuzz_sanitize(sc: &mut Scenario) -> bool {
    sc.hosts.truncate(3);
    while sc.hosts.len() < 2 {
        sc.hosts.push(HostCfg { v4: 0, v6: 0, eph_len: 0 });
    }
    for h in sc.hosts.iter_mut() {
        h.v4 = 1 + h.v4 % 2;
        h.v6 = 1 + h.v6 % 2;
        h.eph_len = 1 + h.eph_len % 4;
    }
    let bind_addr = |a: &mut AddrSel| {
        if let AddrSel::Local(i) | AddrSel::Foreign(i) | AddrSel::Mapped(i) | AddrSel::Compat(i) = a {
            *i %= 2;
        }
    };
    let conn_addr = |a: &mut AddrSel| {
        *a = match *a {
            AddrSel::Local(i) | AddrSel::Foreign(i) => AddrSel::Local(i % 2),
            AddrSel::Any | AddrSel::Lo => AddrSel::Lo,
            AddrSel::Unknown => AddrSel::Unknown,
            AddrSel::Mapped(i) => AddrSel::Mapped(i % 2),
            AddrSel::Compat(i) => AddrSel::Compat(i % 2),
        }
    };
    let port_sel = |p: &mut PortSel| {
        if let PortSel::Fixed(i) = p {
            *i %= 3;
        }
    };
    sc.ops.truncate(25);
    while sc.ops.len() < 3 {
        sc.ops.push(Op::Close { h: 0, s: 0 });
    }
    for op in sc.ops.iter_mut() {
        match op {
            Op::BindUdp { h, addr, port, .. } | Op::BindTcp { h, addr, port, .. } => {
                *h %= 3;
                bind_addr(addr);
                port_sel(port);
            }
            Op::UdpConnect { h, s, ph, addr, p } => {
                *h %= 3;
                *s %= 6;
                *ph %= 3;
                conn_addr(addr);
                *p %= 8;
            }
            Op::TcpConnect { h, th, addr, p, .. } => {
                *h %= 3;
                *th %= 3;
                conn_addr(addr);
                *p %= 8;
            }
            Op::TcpConnectL { h, l, .. } => {
                *h %= 3;
                *l %= 6;
            }
            Op::Close { h, s } => {
                *h %= 3;
                *s %= 8;
            }
        }
    }
    if let Some(w) = sc.wire.as_mut() {
        w.holds.truncate(7);
        if w.holds.is_empty() {
            w.holds.push(0);
        }
        for h in w.holds.iter_mut() {
            *h = [0u8, 2, 3, 4][(*h % 4) as usize];
        }
        if let Some(n) = w.drop_synack.as_mut() {
            *n %= 6;
        }
    }
    true
}

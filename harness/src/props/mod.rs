use crate::engine::{Outcome, Tier};
use serde_json::Value;

pub struct Prop {
    pub id: &'static str,
    pub level: &'static str,
    pub check: fn(Tier, u64) -> i32,
    pub replay: fn(&str, &Value) -> Result<Outcome, String>,
}

pub mod c01;
pub mod c02;
pub mod c03;
pub mod c04;
pub mod c05;
pub mod c06;
pub mod c08;
pub mod c09;
pub mod c10;
pub mod c11;
pub mod c12;
pub mod c14;
pub mod c15;
pub mod c16;
pub mod c18;
pub mod c20;

pub static ALL: &[Prop] = &[c01::PROP, c02::PROP, c03::PROP, c04::PROP, c05::PROP, c06::PROP, c08::PROP, c09::PROP, c10::PROP, c11::PROP, c12::PROP, c14::PROP, c15::PROP, c16::PROP, c18::PROP, c20::PROP];

/// Internal sub-commands (child processes of a check).
pub fn internal(cmd: &str, _args: &[String]) -> Option<i32> {
    match cmd {
        "c01-child" => Some(c01::child_main()),
        "c01-stress" => Some(c01::stress_main(_args)),
        _ => None,
    }
}

use crate::engine::{Outcome, Tier};
use serde_json::Value;

pub struct Prop {
    pub id: &'static str,
    pub level: &'static str,
    pub check: fn(Tier, u64) -> i32,
    pub replay: fn(&str, &Value) -> Result<Outcome, String>,
}

pub mod c01;
pub mod c02;
pub mod c03;
pub mod c04;
pub mod c05;
pub mod c06;
pub mod c07;
pub mod c08;
pub mod c09;
pub mod c10;
pub mod c11;
pub mod c12;
pub mod c13;
pub mod c14;
pub mod c15;
pub mod c16;
pub mod c17;
pub mod c18;
pub mod c19;
pub mod c20;

pub static ALL: &[Prop] = &[c01::PROP, c02::PROP, c03::PROP, c04::PROP, c05::PROP, c06::PROP, c07::PROP, c08::PROP, c09::PROP, c10::PROP, c11::PROP, c12::PROP, c13::PROP, c14::PROP, c15::PROP, c16::PROP, c17::PROP, c18::PROP, c19::PROP, c20::PROP];

/// Internal sub-commands (child processes of a check).
pub fn internal(cmd: &str, _args: &[String]) -> Option<i32> {
    match cmd {
        "c01-child" => Some(c01::child_main()),
        "c01-stress" => Some(c01::stress_main(_args)),
        // debug aid: run one fuzz input file through a fuzz target (`tvh fuzz-one <target> <file>`)
        "fuzz-one" => {
            let data = std::fs::read(&_args[1]).expect("read input");
            fuzz_entry(&_args[0], &data);
            Some(0)
        }
        _ => None,
    }
}

/// Fuzz targets (coverage-guided tier, thorough only): name -> (property id, sub name,
/// scenario type, sanitizer, run).  The fuzzer's bytes are decoded structurally into the
/// scenario type (engine::bytesde), clamped into the generator's domain by the module's
/// `fuzz_sanitize`, and run through the same interpreter + oracle as the random tier.
pub fn fuzz_entry(target: &str, data: &[u8]) {
    use crate::engine::{fuzz_one, fuzz_report};
    macro_rules! t {
        ($prop:expr, $sub:expr, $ty:ty, $san:expr, $run:expr) => {
            fuzz_report($prop, $sub, fuzz_one::<$ty>($prop, &$san, &$run, data))
        };
    }
    match target {
        "c02" => t!("C02", "random", c02::Scenario, c02::fuzz_sanitize, c02::run),
        "c03" => t!("C03", "random", c03::Scenario, c03::fuzz_sanitize, c03::run),
        "c04" => t!("C04", "random", c04::Scenario, c04::fuzz_sanitize, c04::run),
        "c05" => t!("C05", "whole-ms", c05::Scenario, c05::fuzz_sanitize, c05::run),
        "c06" => t!("C06", "walk", c06::Scenario, c06::fuzz_sanitize, c06::run),
        "c07" => t!("C07", "prefixes", c07::Scenario, c07::fuzz_sanitize, c07::run),
        "c08" => t!("C08", "random", c08::Scenario, c08::fuzz_sanitize, c08::run),
        "c09" => t!("C09", "routing", c09::Scenario, c09::fuzz_sanitize, c09::run),
        "c10" => t!("C10", "histories", c10::Scenario, c10::fuzz_sanitize, c10::run),
        "c11" => t!("C11", "outcomes", c11::Scenario, c11::fuzz_sanitize, c11::run),
        "c12" => t!("C12", "pairing", c12::Scenario, c12::fuzz_sanitize, c12::run),
        "c13" => t!("C13", "lifecycle", c13::Scenario, c13::fuzz_sanitize, c13::run),
        "c14" => t!("C14", "latency-window", c14::Scenario, c14::fuzz_sanitize, c14::run),
        "c15" => t!("C15", "ports", c15::PortScenario, c15::fuzz_sanitize, c15::run_ports),
        "c16" => t!("C16", "monitors", c16::Scenario, c16::fuzz_sanitize, c16::run),
        "c17" => t!("C17", "table", c17::Scenario, c17::fuzz_sanitize, c17::run),
        "c19" => t!("C19", "chains", c19::Scenario, c19::fuzz_sanitize, c19::run),
        "c20" => t!("C20", "manual", c20::Scenario, c20::fuzz_sanitize, c20::run),
        other => panic!("unknown fuzz target {other}"),
    }
}

pub const FUZZ_TARGETS: &[&str] = &["c02", "c03", "c04", "c05", "c06", "c07", "c08", "c09", "c10", "c11", "c12", "c13", "c14", "c15", "c16", "c17", "c19", "c20"];

use crate::engine::{Outcome, Tier};
use serde_json::Value;

pub struct Prop {
    pub id: &'static str,
    pub level: &'static str,
    pub check: fn(Tier, u64) -> i32,
    pub replay: fn(&str, &Value) -> Result<Outcome, String>,
}

pub mod c01;
pub mod c02;
pub mod c03;
pub mod c04;
pub mod c05;
pub mod c06;
pub mod c08;
pub mod c09;
pub mod c10;
pub mod c11;
pub mod c12;
pub mod c13;
pub mod c14;
pub mod c15;
pub mod c16;
pub mod c17;
pub mod c18;
pub mod c19;
pub mod c20;

pub static ALL: &[Prop] = &[c01::PROP, c02::PROP, c03::PROP, c04::PROP, c05::PROP, c06::PROP, c08::PROP, c09::PROP, c10::PROP, c11::PROP, c12::PROP, c13::PROP, c14::PROP, c15::PROP, c16::PROP, c17::PROP, c18::PROP, c19::PROP, c20::PROP];

/// Internal sub-commands (child processes of a check).
pub fn internal(cmd: &str, _args: &[String]) -> Option<i32> {
    match cmd {
        "c01-child" => Some(c01::child_main()),
        "c01-stress" => Some(c01::stress_main(_args)),
        _ => None,
    }
}

/// Fuzz targets (coverage-guided tier): name -> (property id, sub name, strategy, run).
/// The strategy is built once per thread.
pub fn fuzz_entry(target: &str, data: &[u8]) {
    use crate::engine::{fuzz_one, fuzz_report};
    macro_rules! t {
        ($prop:expr, $sub:expr, $ty:ty, $strat:expr, $run:expr) => {{
            thread_local! { static S: proptest::strategy::BoxedStrategy<$ty> = $strat; }
            S.with(|st| fuzz_report($prop, $sub, fuzz_one($prop, st, &$run, data)));
        }};
    }
    match target {
        "c02" => t!("C02", "random", c02::Scenario, c02::strategy(), c02::run),
        "c03" => t!("C03", "random", c03::Scenario, c03::strategy(), c03::run),
        "c04" => t!("C04", "random", c04::Scenario, c04::strategy(), c04::run),
        "c06" => t!("C06", "walk", c06::Scenario, c06::strategy(), c06::run),
        "c08" => t!("C08", "random", c08::Scenario, c08::strategy(), c08::run),
        "c09" => t!("C09", "routing", c09::Scenario, c09::strategy(), c09::run),
        "c10" => t!("C10", "random", c10::Scenario, c10::strategy(), c10::run),
        "c12" => t!("C12", "pairing", c12::Scenario, c12::strategy(), c12::run),
        "c15" => t!("C15", "ports", c15::PortScenario, c15::port_strategy(), c15::run_ports),
        "c16" => t!("C16", "monitors", c16::Scenario, c16::strategy(), c16::run),
        "c18" => t!("C18", "direct", c18::Scenario, c18::strategy(), c18::run),
        other => panic!("unknown fuzz target {other}"),
    }
}

//! C03 — nothing sent across an explicitly partitioned direction is ever
//! delivered.  DESIGN.md §6 C03.  SimDriver; a link-state model driven only
//! by the controller's own calls, over a global event log kept in execution
//! order (everything is single-threaded, so log order is real order).

use crate::drivers::linktraffic::*;
use crate::drivers::sel::{self, Sel};
use crate::engine::{replay_as, Ctx, Outcome, Tier};
use proptest::prelude::*;
use serde::{Deserialize, Serialize};
use serde_json::Value;
use std::collections::{BTreeMap, BTreeSet};
use std::time::{Duration, SystemTime};

pub const PROP: super::Prop = super::Prop {
    id: "C03",
    level: "fault_enumeration",
    check,
    replay,
};

#[derive(Clone, Debug, Serialize, Deserialize)]
pub struct Scenario {
    pub nhosts: usize,
    pub tick_ms: u32,
    pub lat_min: u32,
    pub lat_max: u32,
    pub fail_x100: u32,
    pub repair_x100: u32,
    pub seed: u64,
    pub random_order: bool,
    pub v6: bool,
    pub traffic_steps: u32,
    pub tcp: bool,
    /// (step offset, src, dst): at most one per ordered pair is used
    pub probes: Vec<(u32, usize, usize)>,
    pub ctl: Vec<CtlEv>,
}

#[derive(Clone, Copy, Debug, PartialEq, Eq)]
enum St {
    Clear,
    /// sent while its direction was explicitly cut
    SentWhileCut,
    /// in flight when a cut was imposed on its direction
    InFlightAtCut,
    DontCare,
}

pub fn run(sc: &Scenario) -> Outcome {
    let mut out = Outcome::ok();
    let n = sc.nhosts.clamp(2, 4);
    let tick = sc.tick_ms.max(1) as u64;
    let lat_min = sc.lat_min.min(sc.lat_max) as u64;
    let lat_max = sc.lat_max.max(sc.lat_min) as u64;
    let fixed = lat_min == lat_max;
    let fail = (sc.fail_x100.min(100)) as f64 / 100.0;
    let repair = (sc.repair_x100.min(100)) as f64 / 100.0;
    let warm = (n as u64) * (lat_max.div_ceil(tick) + 3) + 3;
    let traffic_end = warm + sc.traffic_steps as u64;
    let tail = lat_max.div_ceil(tick) + 4;
    let sh = Shared::default();

    let mut b = turmoil::Builder::new();
    b.tick_duration(Duration::from_millis(tick))
        .min_message_latency(Duration::from_millis(lat_min))
        .max_message_latency(Duration::from_millis(lat_max))
        .epoch(SystemTime::UNIX_EPOCH + Duration::from_secs(1))
        .rng_seed(sc.seed)
        .repair_rate(repair)
        .simulation_duration(Duration::from_secs(100_000));
    if sc.random_order {
        b.enable_random_order();
    }
    if sc.v6 {
        b.ip_version(turmoil::IpVersion::V6);
    }
    // random link failures only after the warm-up (set through the Sim handle below)
    let mut sim = b.build();

    // plans
    let mut used_probe = BTreeSet::new();
    let mut probes_by_host: Vec<BTreeMap<u64, Vec<usize>>> = vec![BTreeMap::new(); n];
    for (st, s, d) in &sc.probes {
        let (s, d) = (s % n, d % n);
        if s == d || !used_probe.insert((s, d)) || *st >= sc.traffic_steps {
            continue;
        }
        probes_by_host[s].entry(warm + 1 + *st as u64).or_default().push(d);
    }
    let mut sim_ctl_at: BTreeMap<u64, Vec<CtlEv>> = BTreeMap::new();
    let mut host_ctl_at: Vec<BTreeMap<u64, Vec<CtlEv>>> = vec![BTreeMap::new(); n];
    for c in &sc.ctl {
        if c.step >= sc.traffic_steps {
            continue;
        }
        match c.by {
            None => sim_ctl_at.entry(warm + c.step as u64).or_default().push(c.clone()),
            Some(h) => host_ctl_at[h % n].entry(warm + 1 + c.step as u64).or_default().push(c.clone()),
        }
    }
    for h in 0..n {
        let plan = HostPlan {
            me: h,
            n,
            v6: sc.v6,
            warm,
            traffic_end,
            tcp: sc.tcp,
            ctl: host_ctl_at[h].clone(),
            probes: probes_by_host[h].clone(),
            sends: None,
        };
        let shc = sh.clone();
        sim.host(format!("h{h}"), move || host_software(shc.clone(), plan.clone()));
    }
    let ip2h: BTreeMap<std::net::IpAddr, usize> = (0..n).map(|h| (sim.lookup(format!("h{h}")), h)).collect();

    let total = traffic_end + tail;
    for done in 0..total {
        if done == warm && fail > 0.0 {
            sim.set_fail_rate(fail);
        }
        if let Some(cs) = sim_ctl_at.get(&done) {
            for c in cs {
                let snap = snapshot(&sim, &ip2h);
                sh.log.borrow_mut().push(Ev::Ctl {
                    kind: c.kind,
                    pairs: sel::pairs(&c.a, &c.b, n),
                    step: done,
                    by_host: false,
                    snapshot: Some(snap),
                });
                sim_ctl(&sim, c, n);
            }
        }
        sh.step.set(done + 1);
        if let Err(e) = sim.step() {
            out.fail("step-error", format!("{e}"));
            return out;
        }
    }
    let _ = repair;
    if !sh.errors.borrow().is_empty() {
        out.fail("unexpected-io-error", format!("{:?}", sh.errors.borrow()));
        return out;
    }

    // ---------------- model pass over the log
    let log = sh.log.borrow();
    let mut cut: BTreeSet<(usize, usize)> = BTreeSet::new();
    let mut ever_cut: BTreeSet<(usize, usize)> = BTreeSet::new();
    let mut touched_links: BTreeSet<(usize, usize)> = BTreeSet::new();
    let mut status: BTreeMap<MsgId, St> = BTreeMap::new();
    let mut sent_step: BTreeMap<MsgId, u64> = BTreeMap::new();
    let mut order: Vec<MsgId> = Vec::new();
    let mut received: BTreeMap<MsgId, u32> = BTreeMap::new();
    let mut after_repair: BTreeSet<MsgId> = BTreeSet::new();
    let mut probe_results: BTreeMap<MsgId, (bool, String)> = BTreeMap::new();
    let mut n_sent_cut = 0u64;
    let mut n_inflight = 0u64;
    let mut n_after_repair = 0u64;
    let mut host_issued = false;
    let mut oneway = false;
    let mut bothways = false;
    let mut regex_sel = false;
    for c in &sc.ctl {
        if matches!(c.a, Sel::Regex(_)) || matches!(c.b, Sel::Regex(_)) {
            regex_sel = true;
        }
    }
    for ev in log.iter() {
        match ev {
            Ev::Send { id, step } => {
                let dir = (id.1, id.2);
                let st = if cut.contains(&dir) {
                    n_sent_cut += 1;
                    St::SentWhileCut
                } else {
                    if ever_cut.contains(&dir) {
                        after_repair.insert(*id);
                        n_after_repair += 1;
                    }
                    St::Clear
                };
                status.insert(*id, st);
                sent_step.insert(*id, *step);
                order.push(*id);
            }
            Ev::Recv { id } => {
                *received.entry(*id).or_default() += 1;
            }
            Ev::ProbeResult { id, ok, kind } => {
                probe_results.insert(*id, (*ok, kind.clone()));
            }
            Ev::Manual { .. } => {}
            Ev::Ctl { kind, pairs, step, by_host, snapshot } => {
                if *by_host {
                    host_issued = true;
                }
                let mut dirs: Vec<(usize, usize)> = Vec::new();
                for (x, y) in pairs {
                    touched_links.insert((*x.min(y), *x.max(y)));
                    match kind {
                        Kind::Partition | Kind::Repair => {
                            dirs.push((*x, *y));
                            dirs.push((*y, *x));
                        }
                        Kind::PartitionOneway | Kind::RepairOneway => dirs.push((*x, *y)),
                        Kind::Hold | Kind::Release => {}
                    }
                }
                match kind {
                    Kind::Partition | Kind::PartitionOneway => {
                        if *kind == Kind::Partition {
                            bothways = true;
                        } else {
                            oneway = true;
                        }
                        for d in &dirs {
                            cut.insert(*d);
                            ever_cut.insert(*d);
                        }
                        // in-flight messages of the affected directions are dropped
                        match snapshot {
                            Some(snap) => {
                                for id in snap {
                                    let key = if id.0 == P::Syn {
                                        // resolve the outstanding probe of that pair
                                        order.iter().rev().find(|m| m.0 == P::Syn && m.1 == id.1 && m.2 == id.2).copied()
                                    } else {
                                        Some(*id)
                                    };
                                    let Some(key) = key else { continue };
                                    if dirs.contains(&(key.1, key.2)) {
                                        if let Some(s) = status.get_mut(&key) {
                                            if *s == St::Clear {
                                                *s = St::InFlightAtCut;
                                                n_inflight += 1;
                                            }
                                        }
                                    }
                                }
                            }
                            None => {
                                // host-issued: no iterator available from host code
                                for id in order.iter() {
                                    if !dirs.contains(&(id.1, id.2)) || status[id] != St::Clear {
                                        continue;
                                    }
                                    let k = sent_step[id];
                                    if fixed {
                                        // deliver_after = k*tick + L ; link.now during step m = m*tick
                                        if k * tick + lat_min > *step * tick {
                                            status.insert(*id, St::InFlightAtCut);
                                            n_inflight += 1;
                                        }
                                    } else if (k * tick + lat_max > *step * tick) && !received.contains_key(id) {
                                        status.insert(*id, St::DontCare);
                                    }
                                }
                            }
                        }
                    }
                    Kind::Repair | Kind::RepairOneway => {
                        for d in &dirs {
                            cut.remove(d);
                        }
                    }
                    Kind::Hold | Kind::Release => {}
                }
            }
        }
    }

    // ---------------- rules
    let mut tcp_broken: BTreeSet<(usize, usize)> = BTreeSet::new();
    let mut checked_must_not = 0u64;
    let mut checked_must = 0u64;
    for id in &order {
        let st = status[id];
        let got = received.get(id).copied().unwrap_or(0);
        if got > 1 {
            out.fail("message-delivered-twice", format!("{id:?} received {got} times"));
            return out;
        }
        match id.0 {
            P::Udp | P::Tcp => {
                if id.0 == P::Tcp && tcp_broken.contains(&(id.1, id.2)) {
                    // behind a lost segment: ordered delivery (C02) decides, not this property
                    if st != St::Clear {
                        continue;
                    }
                    continue;
                }
                match st {
                    St::SentWhileCut | St::InFlightAtCut => {
                        checked_must_not += 1;
                        if id.0 == P::Tcp {
                            tcp_broken.insert((id.1, id.2));
                        }
                        if got > 0 {
                            let proto = if id.0 == P::Udp { "udp" } else { "tcp" };
                            let why = if st == St::SentWhileCut { "sent-while-partitioned" } else { "in-flight-when-partition-imposed" };
                            let flavour = if fail > 0.0 { "random-failures-on" } else { "random-failures-off" };
                            out.fail(
                                format!("{proto}-{why}-was-delivered:{flavour}"),
                                format!("{id:?} (proto, src, dst, seq) sent in step {} was received by h{}; fail_rate {fail} repair_rate {repair}", sent_step[id], id.2),
                            );
                            return out;
                        }
                    }
                    St::DontCare => {
                        if id.0 == P::Tcp {
                            tcp_broken.insert((id.1, id.2));
                        }
                    }
                    St::Clear => {
                        if fail == 0.0 {
                            checked_must += 1;
                            if got == 0 {
                                let link = (id.1.min(id.2), id.1.max(id.2));
                                let wher = if !touched_links.contains(&link) {
                                    "on-a-link-no-call-ever-named"
                                } else if after_repair.contains(id) {
                                    "sent-after-explicit-repair"
                                } else if ever_cut.contains(&(id.2, id.1)) && !ever_cut.contains(&(id.1, id.2)) {
                                    "reverse-direction-of-oneway-partition"
                                } else {
                                    "sent-while-direction-clear"
                                };
                                let proto = if id.0 == P::Udp { "udp" } else { "tcp" };
                                out.fail(
                                    format!("{proto}-clear-message-lost:{wher}"),
                                    format!("{id:?} sent in step {} while {}->{} was not partitioned, never received", sent_step[id], id.1, id.2),
                                );
                                return out;
                            }
                        } else if id.0 == P::Tcp && got == 0 {
                            tcp_broken.insert((id.1, id.2));
                        }
                    }
                }
            }
            P::Syn => {
                let Some((ok, kind)) = probe_results.get(id) else {
                    // still pending at the end
                    if st == St::SentWhileCut || st == St::InFlightAtCut || fail == 0.0 {
                        out.fail("connect-hangs", format!("probe {id:?} (status {st:?}) never returned"));
                        return out;
                    }
                    continue;
                };
                match st {
                    St::SentWhileCut | St::InFlightAtCut => {
                        checked_must_not += 1;
                        if *ok {
                            out.fail(
                                "tcp-connect-succeeded-across-partition",
                                format!("probe {id:?} status {st:?} connected"),
                            );
                            return out;
                        }
                        if kind != "ConnectionRefused" {
                            out.fail("tcp-connect-across-partition-wrong-error", format!("probe {id:?}: {kind}"));
                            return out;
                        }
                    }
                    St::Clear if fail == 0.0 => {
                        checked_must += 1;
                        if !*ok {
                            out.fail("tcp-connect-refused-on-clear-direction", format!("probe {id:?}: {kind}"));
                            return out;
                        }
                    }
                    _ => {}
                }
            }
        }
    }
    // nothing received that was never sent
    for id in received.keys() {
        if !status.contains_key(id) {
            out.fail("unsent-message-received", format!("{id:?}"));
            return out;
        }
    }

    if oneway {
        out.label("oneway");
    }
    if bothways {
        out.label("both-ways");
    }
    if fail > 0.0 {
        out.label("rates>0");
    }
    if host_issued {
        out.label("host-issued");
    }
    if regex_sel {
        out.label("regex");
    }
    if sc.tcp {
        out.label("tcp");
    }
    if !fixed {
        out.label("ranged-latency");
    }
    if sc.random_order {
        out.label("random-order");
    }
    out.count("must-not-arrive messages checked", checked_must_not);
    out.count("must-arrive messages checked", checked_must);
    out.nontrivial = n_sent_cut >= 1 && n_inflight >= 1 && n_after_repair >= 1;
    if n_sent_cut >= 1 {
        out.label("has-sent-during-cut");
    }
    if n_inflight >= 1 {
        out.label("has-in-flight-at-imposition");
    }
    if n_after_repair >= 1 {
        out.label("has-sent-after-repair");
    }
    out
}

fn kind_strategy() -> BoxedStrategy<Kind> {
    prop_oneof![
        Just(Kind::Partition),
        Just(Kind::PartitionOneway),
        Just(Kind::Repair),
        Just(Kind::RepairOneway)
    ]
    .boxed()
}

pub fn strategy() -> BoxedStrategy<Scenario> {
    let rates = prop_oneof![
        3 => Just((0u32, 100u32)),
        2 => (1u32..=60, 1u32..=100),
        1 => Just((100u32, 100u32)),
        1 => (1u32..=60, Just(0u32)),
    ];
    let lat = prop_oneof![
        2 => (0u32..=12).prop_map(|v| (v, v)),
        2 => (0u32..=6, 1u32..=12).prop_map(|(a, d)| (a, a + d)),
    ];
    (
        (2usize..=4, 1u32..=4, lat, rates, any::<u64>(), any::<bool>(), any::<bool>(), 8u32..=24, any::<bool>()),
        proptest::collection::vec((0u32..24, 0usize..4, 0usize..4), 0..4),
        proptest::collection::vec(
            (
                0u32..24,
                prop_oneof![2 => Just(None), 1 => (0usize..4).prop_map(Some)],
                kind_strategy(),
                sel::strategy(),
                sel::strategy(),
            ),
            1..7,
        ),
    )
        .prop_map(
            |((nhosts, tick_ms, (lat_min, lat_max), (fail_x100, repair_x100), seed, random_order, v6, traffic_steps, tcp), probes, ctl)| {
                let mut ctl: Vec<CtlEv> = ctl
                    .into_iter()
                    .map(|(step, by, kind, a, b)| CtlEv { step, by, kind, a, b })
                    .collect();
                // bias: half of the cases get a cut that is later repaired with
                // the matching call, so that "sent after repair" is common
                if seed % 2 == 0 {
                    let first = ctl[0].clone();
                    let cut_kind = if seed % 4 == 0 { Kind::Partition } else { Kind::PartitionOneway };
                    let rep_kind = if seed % 8 < 4 {
                        if cut_kind == Kind::Partition { Kind::Repair } else { Kind::RepairOneway }
                    } else if cut_kind == Kind::Partition { Kind::RepairOneway } else { Kind::Repair };
                    let s0 = first.step % (traffic_steps / 2).max(1);
                    let s1 = s0 + 1 + (seed as u32 >> 8) % (traffic_steps / 2).max(1);
                    ctl[0] = CtlEv { step: s0, kind: cut_kind, ..first.clone() };
                    ctl.push(CtlEv { step: s1, kind: rep_kind, ..first });
                }
                ctl.sort_by_key(|c| c.step);
                Scenario {
                    nhosts,
                    tick_ms,
                    lat_min,
                    lat_max,
                    fail_x100,
                    repair_x100,
                    seed,
                    random_order,
                    v6,
                    traffic_steps,
                    tcp,
                    probes,
                    ctl,
                }
            },
        )
        .boxed()
}

/// All sequences of length <= 3 over {4 kinds} x {(A,B),(B,A)} = 584, at a
/// given placement and rate setting, on 3 hosts (h2 is the bystander).
fn exhaustive_space(tier: Tier) -> Vec<Scenario> {
    let acts: Vec<(Kind, usize, usize)> = [Kind::Partition, Kind::PartitionOneway, Kind::Repair, Kind::RepairOneway]
        .iter()
        .flat_map(|k| [(*k, 0usize, 1usize), (*k, 1, 0)])
        .collect();
    let mut seqs: Vec<Vec<(Kind, usize, usize)>> = Vec::new();
    for a in &acts {
        seqs.push(vec![*a]);
        for b in &acts {
            seqs.push(vec![*a, *b]);
            for c in &acts {
                seqs.push(vec![*a, *b, *c]);
            }
        }
    }
    assert_eq!(seqs.len(), 584);
    let placements: Vec<[u32; 3]> = vec![[2, 6, 10], [3, 4, 5], [4, 4, 4]];
    // (fail, repair, latency (min,max), tick, by-host?)
    let mut settings: Vec<(u32, u32, (u32, u32), u32, bool)> = vec![(0, 100, (3, 3), 1, false), (30, 50, (2, 2), 1, false)];
    if tier == Tier::Thorough {
        settings.extend([
            (0, 100, (0, 0), 2, false),
            (0, 100, (1, 5), 1, false),
            (0, 100, (3, 3), 1, true),
            (30, 50, (0, 4), 1, false),
            (30, 50, (2, 2), 1, true),
            (100, 100, (2, 2), 1, false),
            (10, 100, (3, 3), 2, false),
            (50, 10, (1, 1), 1, false),
            (0, 100, (5, 5), 3, false),
            (20, 20, (0, 0), 1, true),
        ]);
    }
    let mut out = Vec::new();
    for (si, (fail, rep, lat, tick, by_host)) in settings.iter().enumerate() {
        for (pi, pl) in placements.iter().enumerate() {
            for (qi, s) in seqs.iter().enumerate() {
                let ctl = s
                    .iter()
                    .enumerate()
                    .map(|(i, (k, a, b))| CtlEv {
                        step: pl[i],
                        by: if *by_host { Some(*a) } else { None },
                        kind: *k,
                        a: if (qi + i) % 3 == 0 { Sel::Ip(*a) } else { Sel::Name(*a) },
                        b: if (qi + i) % 3 == 1 { Sel::Regex(vec![*b]) } else { Sel::Name(*b) },
                    })
                    .collect();
                out.push(Scenario {
                    nhosts: 3,
                    tick_ms: *tick,
                    lat_min: lat.0,
                    lat_max: lat.1,
                    fail_x100: *fail,
                    repair_x100: *rep,
                    seed: (si * 1000 + pi * 100) as u64 + qi as u64,
                    random_order: false,
                    v6: (qi + pi) % 2 == 1,
                    traffic_steps: 16,
                    tcp: qi % 2 == 0,
                    probes: vec![(pl[0] + 1, 0, 1), (pl[1] + 1, 1, 0)],
                    ctl,
                });
            }
        }
    }
    out
}

/// Clamp a structurally decoded scenario into the generator's domain (fuzz tier).
pub fn fuzz_sanitize(sc: &mut Scenario) -> bool {
    sc.nhosts = 2 + sc.nhosts % 3;
    sc.tick_ms = 1 + sc.tick_ms % 4;
    sc.lat_min %= 7;
    sc.lat_max = sc.lat_min + sc.lat_max % 13;
    sc.traffic_steps = 8 + sc.traffic_steps % 17;
    sc.probes.truncate(4);
    for p in sc.probes.iter_mut() {
        p.0 %= 24;
        p.1 %= 4;
        p.2 %= 4;
    }
    let fix_sel = |s: &mut Sel| match s {
        Sel::Name(i) | Sel::Ip(i) => *i %= 4,
        Sel::Regex(v) => {
            v.truncate(3);
            for i in v.iter_mut() {
                *i %= 4;
            }
            if v.is_empty() {
                v.push(0);
            }
        }
    };
    for c in sc.ctl.iter_mut() {
        c.step %= 24;
        c.by = c.by.map(|h| h % 4);
        fix_sel(&mut c.a);
        fix_sel(&mut c.b);
    }
    sc.fail_x100 %= 101;
    sc.repair_x100 %= 101;
    sc.ctl.retain(|c| !matches!(c.kind, Kind::Hold | Kind::Release));
    sc.ctl.truncate(7);
    sc.ctl.sort_by_key(|c| c.step);
    !sc.ctl.is_empty()
}

fn check(tier: Tier, seed: u64) -> i32 {
    let ctx = Ctx::new("C03", tier, seed, "fault_enumeration");
    ctx.replay_corpus(&replay);
    let space = exhaustive_space(tier);
    let desc = format!(
        "all 584 sequences of length <= 3 over {{partition, partition_oneway, repair, repair_oneway}} x {{(A,B),(B,A)}} x 3 step placements x {} (fail/repair rate, latency, tick, issuer) settings = {} scenarios on 3 hosts",
        space.len() / (584 * 3),
        space.len()
    );
    ctx.exhaustive("sequences<=3", &desc, Box::new(space.into_iter()), &run);
    ctx.random("random", tier.pick(16_000, 200_000), &|| strategy(), &run);
    ctx.finish(
        "bounded-exhaustive enumeration of every controller sequence of length <= 3 (see exhaustive_subspaces) plus random longer sequences (1-6 calls by name/IP/regex from the Sim handle or from host code, 2-4 hosts, fixed or ranged latency, fail/repair rates in [0,1], UDP every step on every ordered pair, optional persistent TCP streams and connect probes). Model: explicit[a->b] driven only by the controller's calls; in-flight sets taken from Sim::links immediately before each Sim-side call (computed from the fixed latency for host-side calls). Non-trivial = >=1 message sent during a cut, >=1 in flight when a cut was imposed and >=1 sent after the repair of a direction that had been cut. Distinct by scenario hash.",
        &[
            "hold/release is outside the alphabet (documented as unsupported with one-way partitions)",
            "for host-issued calls under a ranged latency, messages of the affected direction that may or may not have been in flight are neither required nor forbidden",
            "TCP chunks behind a lost segment are left to C02",
            "the keeps-flowing half is only asserted with fail_rate = 0",
        ],
    )
}

fn replay(_sub: &str, v: &Value) -> Result<Outcome, String> {
    replay_as::<Scenario>(v, &run)
}

//! C03 — nothing sent across an explicitly partitioned direction is ever
//! delivered.  DESIGN.md §6 C03.  SimDriver; a link-state model driven only
//! by the controller's own calls, over a global event log kept in execution
//! order (everything is single-threaded, so log order is real order).
//!
//! The traffic driver is a private copy of `drivers::linktraffic` (shared with
//! C08) extended with (a) an address plan -- names resolved out of
//! registration order, hosts registered under explicit IP addresses -- and
//! (b) TCP close operations plus observation of what the surviving end sees
//! (EOF, reset, failing writes).  A "message" in the property text is a
//! turmoil wire message (`turmoil::Protocol`): UDP datagrams, TCP data
//! segments, SYN, and the control segments FIN and RST.  FIN / RST carry no
//! payload; their delivery is observable by the application as EOF /
//! ConnectionReset / BrokenPipe on the receiving end.

use crate::drivers::linktraffic::{CtlEv, Kind};
use crate::drivers::sel::{self, poll_once, Sel, SelArg};
use crate::engine::{replay_as, Ctx, Outcome, Tier};
use crate::sel2;
use proptest::prelude::*;
use serde::{Deserialize, Serialize};
use serde_json::Value;
use std::cell::{Cell, RefCell};
use std::collections::{BTreeMap, BTreeSet};
use std::net::{IpAddr, Ipv4Addr, Ipv6Addr};
use std::rc::Rc;
use std::time::{Duration, SystemTime};
use tokio::io::{AsyncReadExt, AsyncWriteExt};
use turmoil::{Datagram, Protocol, Segment};

pub const PROP: super::Prop = super::Prop {
    id: "C03",
    level: "fault_enumeration",
    check,
    replay,
};

#[derive(Clone, Debug, Serialize, Deserialize)]
pub struct Scenario {
    pub nhosts: usize,
    pub tick_ms: u32,
    pub lat_min: u32,
    pub lat_max: u32,
    pub fail_x100: u32,
    pub repair_x100: u32,
    pub seed: u64,
    pub random_order: bool,
    pub v6: bool,
    pub traffic_steps: u32,
    pub tcp: bool,
    /// (step offset, src, dst): at most one per ordered pair is used
    pub probes: Vec<(u32, usize, usize)>,
    pub ctl: Vec<CtlEv>,
    /// how host names / addresses are laid out (default: names, addresses in registration order)
    #[serde(default)]
    pub addr: AddrPlan,
    /// TCP close operations on the persistent streams (at most one per host pair is used)
    #[serde(default)]
    pub closes: Vec<CloseOp>,
}

/// Address layout.  Hosts are always registered in index order h0, h1, ...;
/// what varies is which address each one gets, so that the hosts of a link are
/// registered in ascending, descending or mixed address order.
#[derive(Clone, Debug, Default, Serialize, Deserialize)]
pub struct AddrPlan {
    /// host names resolved through `Sim::lookup` (which allocates the address)
    /// before any host is registered, in this order
    #[serde(default)]
    pub pre_resolve: Vec<usize>,
    /// per host: Some(k) = registered under explicit address #k of a fixed
    /// pool (such a host has no DNS name; it is named by IP or IP string)
    #[serde(default)]
    pub explicit: Vec<Option<u8>>,
}

#[derive(Clone, Copy, Debug, Serialize, Deserialize, PartialEq, Eq)]
pub enum CloseHow {
    /// drop read half then write half (what dropping a TcpStream does)
    DropBoth,
    /// drop only the read half; keep writing
    DropReader,
    /// drop only the write half (FIN); keep reading
    DropWriter,
    /// `shutdown()` the write half (FIN); keep reading
    Shutdown,
}

#[derive(Clone, Debug, Serialize, Deserialize)]
pub struct CloseOp {
    /// offset (in steps) after the warm-up
    pub step: u32,
    pub host: usize,
    pub peer: usize,
    pub how: CloseHow,
}

#[derive(Clone, Copy, Debug, PartialEq, Eq)]
enum St {
    Clear,
    /// sent while its direction was explicitly cut
    SentWhileCut,
    /// in flight when a cut was imposed on its direction
    InFlightAtCut,
    DontCare,
}


// ======================================================================
// traffic driver: private, extended copy of drivers::linktraffic

#[derive(Clone, Copy, Debug, PartialEq, Eq, PartialOrd, Ord, Hash)]
enum P {
    Udp,
    Tcp,
    Syn,
    /// the FIN of the persistent stream src -> dst (seq is always 0)
    Fin,
}

/// (proto, src, dst, seq)
type MsgId = (P, usize, usize, u32);

#[derive(Clone, Copy, Debug, PartialEq, Eq)]
enum Seen {
    /// read returned end-of-stream: the peer's FIN was delivered
    Eof,
    /// read failed (ConnectionReset): a RST from the peer was delivered
    ReadReset,
    /// write failed (BrokenPipe): a RST from the peer was delivered
    WriteErr,
}

#[derive(Clone, Debug)]
enum Ev {
    Send { id: MsgId, step: u64 },
    Recv { id: MsgId },
    Ctl { kind: Kind, pairs: Vec<(usize, usize)>, step: u64, by_host: bool, snapshot: Option<Vec<MsgId>> },
    ProbeResult { id: MsgId, ok: bool, kind: String },
    /// `host` closes (part of) its end of the persistent stream with `peer`
    Close { host: usize, peer: usize, how: CloseHow, step: u64 },
    /// what the application on `at` saw on its end of the stream with `peer`
    Saw { at: usize, peer: usize, what: Seen, kind: String, step: u64 },
}

#[derive(Clone, Default)]
struct Shared {
    step: Rc<Cell<u64>>,
    log: Rc<RefCell<Vec<Ev>>>,
    errors: Rc<RefCell<Vec<String>>>,
    ready: Rc<Cell<usize>>,
    /// address of every host, filled in once all hosts are registered
    addrs: Rc<RefCell<Vec<IpAddr>>>,
}

const UDP_PORT: u16 = 9000;
const TCP_PORT: u16 = 9001;
const PROBE_PORT: u16 = 9002;

fn enc(p: P, src: usize, dst: usize, seq: u32) -> [u8; 12] {
    let mut b = [0u8; 12];
    b[0] = match p {
        P::Udp => 1,
        P::Tcp => 2,
        P::Syn => 3,
        P::Fin => 4,
    };
    b[1] = src as u8;
    b[2] = dst as u8;
    b[4..8].copy_from_slice(&seq.to_le_bytes());
    b[8..12].copy_from_slice(&(seq ^ 0xA5A5_5A5A).to_le_bytes());
    b
}
fn dec(b: &[u8]) -> Option<MsgId> {
    if b.len() != 12 {
        return None;
    }
    let p = match b[0] {
        1 => P::Udp,
        2 => P::Tcp,
        _ => return None,
    };
    let seq = u32::from_le_bytes(b[4..8].try_into().unwrap());
    if u32::from_le_bytes(b[8..12].try_into().unwrap()) != seq ^ 0xA5A5_5A5A {
        return None;
    }
    Some((p, b[1] as usize, b[2] as usize, seq))
}

#[derive(Clone)]
struct HostPlan {
    me: usize,
    n: usize,
    v6: bool,
    warm: u64,
    traffic_end: u64,
    tcp: bool,
    /// per host: registered under a DNS name (h<i>) rather than an explicit address
    named: Vec<bool>,
    /// absolute step -> host-issued controller calls
    ctl: BTreeMap<u64, Vec<CtlEv>>,
    /// absolute step -> probe targets
    probes: BTreeMap<u64, Vec<usize>>,
    /// absolute step -> (peer, how) close operations
    closes: BTreeMap<u64, Vec<(usize, CloseHow)>>,
}

/// Fixed pool of explicit addresses: even k sorts below, odd k above the
/// range turmoil allocates names from (192.168.0.0/16, fe80::/64).
fn pool_addr(k: u8, v6: bool) -> IpAddr {
    let k = (k % 8) as u16;
    let low = k % 2 == 0;
    if v6 {
        if low {
            IpAddr::V6(Ipv6Addr::new(0xfd00, 0, 0, 0, 0, 0, 0, 0x10 + k))
        } else {
            IpAddr::V6(Ipv6Addr::new(0xfe80, 0, 0, 1, 0, 0, 0, 0x10 + k))
        }
    } else if low {
        IpAddr::V4(Ipv4Addr::new(10, 0, 0, (0x10 + k) as u8))
    } else {
        IpAddr::V4(Ipv4Addr::new(203, 0, 113, (0x10 + k) as u8))
    }
}

/// A host without a DNS name cannot be matched by a regex: restrict regex
/// selectors to the named hosts (or name the first host by IP if none is left).
fn eff_sel(s: &Sel, n: usize, named: &[bool]) -> Sel {
    match s {
        Sel::Regex(_) => {
            let hs = sel::hosts(s, n);
            let keep: Vec<usize> = hs.iter().copied().filter(|h| named[*h]).collect();
            if hs.is_empty() || keep.len() == hs.len() {
                s.clone()
            } else if keep.is_empty() {
                Sel::Ip(hs[0])
            } else {
                Sel::Regex(keep)
            }
        }
        other => other.clone(),
    }
}

fn arg2(s: &Sel, n: usize, named: &[bool], addrs: &[IpAddr], lookup: &dyn Fn(String) -> IpAddr) -> SelArg {
    match s {
        Sel::Name(i) => {
            let i = i % n;
            if named[i] {
                SelArg::Name(format!("h{i}"))
            } else {
                // "named by string": the textual form of the address
                SelArg::Name(addrs[i].to_string())
            }
        }
        Sel::Ip(i) => {
            let i = i % n;
            if named[i] {
                SelArg::Ip(lookup(format!("h{i}")))
            } else {
                SelArg::Ip(addrs[i])
            }
        }
        Sel::Regex(_) => sel::arg(s, n, lookup),
    }
}

fn host_ctl(c: &CtlEv, n: usize, named: &[bool], addrs: &[IpAddr]) {
    let lookup = |name: String| turmoil::lookup(name);
    let a = arg2(&c.a, n, named, addrs, &lookup);
    let b = arg2(&c.b, n, named, addrs, &lookup);
    match c.kind {
        Kind::Partition => sel2!(a, b, |x, y| turmoil::partition(x, y)),
        Kind::PartitionOneway => sel2!(a, b, |x, y| turmoil::partition_oneway(x, y)),
        Kind::Repair => sel2!(a, b, |x, y| turmoil::repair(x, y)),
        Kind::RepairOneway => sel2!(a, b, |x, y| turmoil::repair_oneway(x, y)),
        Kind::Hold => sel2!(a, b, |x, y| turmoil::hold(x, y)),
        Kind::Release => sel2!(a, b, |x, y| turmoil::release(x, y)),
    }
}

fn sim_ctl(sim: &turmoil::Sim<'_>, c: &CtlEv, n: usize, named: &[bool], addrs: &[IpAddr]) {
    let lookup = |name: String| sim.lookup(name);
    let a = arg2(&c.a, n, named, addrs, &lookup);
    let b = arg2(&c.b, n, named, addrs, &lookup);
    match c.kind {
        Kind::Partition => sel2!(a, b, |x, y| sim.partition(x, y)),
        Kind::PartitionOneway => sel2!(a, b, |x, y| sim.partition_oneway(x, y)),
        Kind::Repair => sel2!(a, b, |x, y| sim.repair(x, y)),
        Kind::RepairOneway => sel2!(a, b, |x, y| sim.repair_oneway(x, y)),
        Kind::Hold => sel2!(a, b, |x, y| sim.hold(x, y)),
        Kind::Release => sel2!(a, b, |x, y| sim.release(x, y)),
    }
}

/// The messages currently in flight on all links, as far as the model tracks them.
fn snapshot(sim: &turmoil::Sim<'_>, ip2h: &BTreeMap<IpAddr, usize>) -> Vec<MsgId> {
    let mut out = Vec::new();
    sim.links(|links| {
        for link in links {
            for sent in link {
                let (s, d) = sent.pair();
                match sent.protocol() {
                    Protocol::Udp(Datagram(b)) => {
                        if let Some(id) = dec(b) {
                            out.push(id);
                        }
                    }
                    Protocol::Tcp(Segment::Data(_, b)) => {
                        if let Some(id) = dec(b) {
                            out.push(id);
                        }
                    }
                    Protocol::Tcp(Segment::Syn(_)) if d.port() == PROBE_PORT => {
                        if let (Some(a), Some(b)) = (ip2h.get(&s.ip()), ip2h.get(&d.ip())) {
                            // at most one probe per ordered pair
                            out.push((P::Syn, *a, *b, u32::MAX));
                        }
                    }
                    Protocol::Tcp(Segment::Fin(_)) if s.port() == TCP_PORT || d.port() == TCP_PORT => {
                        if let (Some(a), Some(b)) = (ip2h.get(&s.ip()), ip2h.get(&d.ip())) {
                            out.push((P::Fin, *a, *b, 0));
                        }
                    }
                    _ => {}
                }
            }
        }
    });
    out
}

#[derive(Default)]
struct Conn {
    w: Option<turmoil::net::tcp::OwnedWriteHalf>,
    /// write half shut down by the application (FIN sent)
    shut: bool,
    reader: Option<tokio::task::JoinHandle<()>>,
}

fn spawn_reader(sh: Shared, me: usize, peer: usize, mut r: turmoil::net::tcp::OwnedReadHalf) -> tokio::task::JoinHandle<()> {
    tokio::task::spawn_local(async move {
        let mut buf = [0u8; 12];
        loop {
            match r.read_exact(&mut buf).await {
                Ok(_) => match dec(&buf) {
                    Some(id) if id.2 == me => sh.log.borrow_mut().push(Ev::Recv { id }),
                    other => {
                        sh.errors.borrow_mut().push(format!("h{me}: bad tcp chunk {other:?}"));
                        break;
                    }
                },
                Err(e) => {
                    let what = if e.kind() == std::io::ErrorKind::UnexpectedEof { Seen::Eof } else { Seen::ReadReset };
                    sh.log.borrow_mut().push(Ev::Saw { at: me, peer, what, kind: format!("{:?}", e.kind()), step: sh.step.get() });
                    break;
                }
            }
        }
        // the application never closes on its own: keep the read half alive
        std::future::pending::<()>().await;
        drop(r);
    })
}

async fn host_software(sh: Shared, plan: HostPlan) -> turmoil::Result {
    let me = plan.me;
    let any = if plan.v6 { "::" } else { "0.0.0.0" };
    let udp = Rc::new(turmoil::net::UdpSocket::bind((any, UDP_PORT)).await?);
    let lis = turmoil::net::TcpListener::bind((any, TCP_PORT)).await?;
    let probe_lis = turmoil::net::TcpListener::bind((any, PROBE_PORT)).await?;
    sh.ready.set(sh.ready.get() + 1);

    // UDP receiver
    {
        let (sh, udp) = (sh.clone(), udp.clone());
        tokio::task::spawn_local(async move {
            let mut buf = [0u8; 64];
            loop {
                match udp.recv_from(&mut buf).await {
                    Ok((n, _)) => match dec(&buf[..n]) {
                        Some(id) if id.2 == me => sh.log.borrow_mut().push(Ev::Recv { id }),
                        other => sh.errors.borrow_mut().push(format!("h{me}: bad datagram {other:?}")),
                    },
                    Err(e) => sh.errors.borrow_mut().push(format!("h{me}: recv_from {e}")),
                }
            }
        });
    }
    // probe acceptor: accept and drop
    tokio::task::spawn_local(async move {
        loop {
            if probe_lis.accept().await.is_err() {
                break;
            }
        }
    });
    // persistent TCP: one stream per peer, accepted from lower-numbered hosts,
    // connected to higher-numbered ones
    let conns: Rc<RefCell<BTreeMap<usize, Conn>>> = Default::default();
    if plan.tcp {
        let (sh2, c2, n) = (sh.clone(), conns.clone(), plan.n);
        tokio::task::spawn_local(async move {
            loop {
                match lis.accept().await {
                    Ok((s, from)) => {
                        let peer = sh2.addrs.borrow().iter().take(n).position(|a| *a == from.ip());
                        let Some(peer) = peer else { continue };
                        let (r, w) = s.into_split();
                        let reader = spawn_reader(sh2.clone(), me, peer, r);
                        c2.borrow_mut().insert(peer, Conn { w: Some(w), shut: false, reader: Some(reader) });
                    }
                    Err(_) => break,
                }
            }
        });
    } else {
        drop(lis);
    }

    // wait until every host has bound
    while sh.ready.get() < plan.n {
        tokio::time::sleep(Duration::from_millis(1)).await;
    }
    if plan.tcp {
        for peer in (me + 1)..plan.n {
            let r = if plan.named[peer] {
                turmoil::net::TcpStream::connect((format!("h{peer}").as_str(), TCP_PORT)).await
            } else {
                let ip = sh.addrs.borrow()[peer];
                turmoil::net::TcpStream::connect((ip, TCP_PORT)).await
            };
            match r {
                Ok(s) => {
                    let (r, w) = s.into_split();
                    let reader = spawn_reader(sh.clone(), me, peer, r);
                    conns.borrow_mut().insert(peer, Conn { w: Some(w), shut: false, reader: Some(reader) });
                }
                Err(e) => sh.errors.borrow_mut().push(format!("h{me}: warm-up connect to h{peer}: {e}")),
            }
        }
    }

    // main per-step driver
    let mut last = 0u64;
    let mut seq = 0u32;
    let mut probe_seq = 0u32;
    loop {
        let k = sh.step.get();
        if k != last {
            last = k;
            if k > plan.warm {
                if let Some(cs) = plan.ctl.get(&k) {
                    for c in cs {
                        let pairs = sel::pairs(&c.a, &c.b, plan.n);
                        sh.log.borrow_mut().push(Ev::Ctl { kind: c.kind, pairs, step: k, by_host: true, snapshot: None });
                        let addrs = sh.addrs.borrow().clone();
                        host_ctl(c, plan.n, &plan.named, &addrs);
                    }
                }
                // closes come before this step's traffic: the closing end does not write in that step
                if let Some(cl) = plan.closes.get(&k) {
                    for (peer, how) in cl {
                        let conn = conns.borrow_mut().remove(peer);
                        let Some(mut c) = conn else { continue };
                        let fin = matches!(how, CloseHow::DropBoth | CloseHow::DropWriter | CloseHow::Shutdown) && c.w.is_some() && !c.shut;
                        sh.log.borrow_mut().push(Ev::Close { host: me, peer: *peer, how: *how, step: k });
                        if fin {
                            // a FIN is put on the wire now (DropBoth may send a RST instead)
                            sh.log.borrow_mut().push(Ev::Send { id: (P::Fin, me, *peer, 0), step: k });
                        }
                        if matches!(how, CloseHow::DropBoth | CloseHow::DropReader) {
                            if let Some(h) = c.reader.take() {
                                h.abort();
                                // resolves once the task, and with it the read half, has been dropped
                                let _ = h.await;
                            }
                        }
                        match how {
                            CloseHow::DropBoth | CloseHow::DropWriter => c.w = None,
                            CloseHow::Shutdown => {
                                if let Some(w) = c.w.as_mut() {
                                    if !c.shut {
                                        let _ = poll_once(w.shutdown()).await;
                                        c.shut = true;
                                    }
                                }
                            }
                            CloseHow::DropReader => {}
                        }
                        conns.borrow_mut().insert(*peer, c);
                    }
                }
                if k <= plan.traffic_end {
                    for peer in 0..plan.n {
                        if peer == me {
                            continue;
                        }
                        let id = (P::Udp, me, peer, seq);
                        sh.log.borrow_mut().push(Ev::Send { id, step: k });
                        let r = if plan.named[peer] {
                            udp.send_to(&enc(P::Udp, me, peer, seq), (format!("h{peer}").as_str(), UDP_PORT)).await
                        } else {
                            let ip = sh.addrs.borrow()[peer];
                            udp.send_to(&enc(P::Udp, me, peer, seq), (ip, UDP_PORT)).await
                        };
                        if let Err(e) = r {
                            sh.errors.borrow_mut().push(format!("h{me}: send_to {e}"));
                        }
                        if plan.tcp {
                            let mut cs = conns.borrow_mut();
                            if let Some(c) = cs.get_mut(&peer) {
                                if !c.shut {
                                    if let Some(w) = c.w.as_mut() {
                                        let id = (P::Tcp, me, peer, seq);
                                        let chunk = enc(P::Tcp, me, peer, seq);
                                        match poll_once(w.write_all(&chunk)).await {
                                            Some(Ok(())) => sh.log.borrow_mut().push(Ev::Send { id, step: k }),
                                            Some(Err(e)) => {
                                                // the stream is broken: nothing was sent
                                                sh.log.borrow_mut().push(Ev::Saw {
                                                    at: me,
                                                    peer,
                                                    what: Seen::WriteErr,
                                                    kind: format!("{:?}", e.kind()),
                                                    step: k,
                                                });
                                                c.w = None;
                                            }
                                            // refused by flow control: nothing was sent
                                            None => {}
                                        }
                                    }
                                }
                            }
                        }
                    }
                    seq += 1;
                    if let Some(ps) = plan.probes.get(&k) {
                        for peer in ps {
                            let id = (P::Syn, me, *peer, probe_seq);
                            probe_seq += 1;
                            sh.log.borrow_mut().push(Ev::Send { id, step: k });
                            let sh4 = sh.clone();
                            let dst: Result<String, IpAddr> =
                                if plan.named[*peer] { Ok(format!("h{peer}")) } else { Err(sh.addrs.borrow()[*peer]) };
                            tokio::task::spawn_local(async move {
                                let r = match dst {
                                    Ok(name) => turmoil::net::TcpStream::connect((name.as_str(), PROBE_PORT)).await,
                                    Err(ip) => turmoil::net::TcpStream::connect((ip, PROBE_PORT)).await,
                                };
                                sh4.log.borrow_mut().push(Ev::ProbeResult {
                                    id,
                                    ok: r.is_ok(),
                                    kind: r.as_ref().err().map(|e| format!("{:?}", e.kind())).unwrap_or_default(),
                                });
                            });
                        }
                    }
                }
            }
        }
        tokio::time::sleep(Duration::from_millis(1)).await;
    }
}

// ======================================================================

pub fn run(sc: &Scenario) -> Outcome {
    let mut out = Outcome::ok();
    let n = sc.nhosts.clamp(2, 4);
    let tick = sc.tick_ms.max(1) as u64;
    let lat_min = sc.lat_min.min(sc.lat_max) as u64;
    let lat_max = sc.lat_max.max(sc.lat_min) as u64;
    let fixed = lat_min == lat_max;
    let fail = (sc.fail_x100.min(100)) as f64 / 100.0;
    let repair = (sc.repair_x100.min(100)) as f64 / 100.0;
    let warm = (n as u64) * (lat_max.div_ceil(tick) + 3) + 3;
    let traffic_end = warm + sc.traffic_steps as u64;
    let tail = lat_max.div_ceil(tick) + 4;
    let sh = Shared::default();

    let mut b = turmoil::Builder::new();
    b.tick_duration(Duration::from_millis(tick))
        .min_message_latency(Duration::from_millis(lat_min))
        .max_message_latency(Duration::from_millis(lat_max))
        .epoch(SystemTime::UNIX_EPOCH + Duration::from_secs(1))
        .rng_seed(sc.seed)
        .repair_rate(repair)
        .simulation_duration(Duration::from_secs(100_000));
    if sc.random_order {
        b.enable_random_order();
    }
    if sc.v6 {
        b.ip_version(turmoil::IpVersion::V6);
    }
    // random link failures only after the warm-up (set through the Sim handle below)
    let mut sim = b.build();

    // address plan
    let named: Vec<bool> = (0..n).map(|h| sc.addr.explicit.get(h).copied().flatten().is_none()).collect();
    let mut pre_seen = BTreeSet::new();
    for h in &sc.addr.pre_resolve {
        let h = h % n;
        if named[h] && pre_seen.insert(h) {
            // resolving a name allocates its address
            let _ = sim.lookup(format!("h{h}"));
        }
    }
    let mut pool_used = BTreeSet::new();
    let mut explicit_ip: Vec<Option<IpAddr>> = vec![None; n];
    for h in 0..n {
        if let Some(k) = sc.addr.explicit.get(h).copied().flatten() {
            let mut k = k % 8;
            while !pool_used.insert(k) {
                k = (k + 1) % 8;
            }
            explicit_ip[h] = Some(pool_addr(k, sc.v6));
        }
    }
    // selectors as they are really issued (regexes cannot match unnamed hosts)
    let ctl_eff: Vec<CtlEv> = sc
        .ctl
        .iter()
        .map(|c| CtlEv { a: eff_sel(&c.a, n, &named), b: eff_sel(&c.b, n, &named), ..c.clone() })
        .collect();

    // plans
    let mut used_probe = BTreeSet::new();
    let mut probes_by_host: Vec<BTreeMap<u64, Vec<usize>>> = vec![BTreeMap::new(); n];
    for (st, s, d) in &sc.probes {
        let (s, d) = (s % n, d % n);
        if s == d || !used_probe.insert((s, d)) || *st >= sc.traffic_steps {
            continue;
        }
        probes_by_host[s].entry(warm + 1 + *st as u64).or_default().push(d);
    }
    let mut sim_ctl_at: BTreeMap<u64, Vec<CtlEv>> = BTreeMap::new();
    let mut host_ctl_at: Vec<BTreeMap<u64, Vec<CtlEv>>> = vec![BTreeMap::new(); n];
    for c in &ctl_eff {
        if c.step >= sc.traffic_steps {
            continue;
        }
        match c.by {
            None => sim_ctl_at.entry(warm + c.step as u64).or_default().push(c.clone()),
            Some(h) => host_ctl_at[h % n].entry(warm + 1 + c.step as u64).or_default().push(c.clone()),
        }
    }
    // at most one close per host pair, so that the other end never closes
    let mut closes_by_host: Vec<BTreeMap<u64, Vec<(usize, CloseHow)>>> = vec![BTreeMap::new(); n];
    let mut used_close = BTreeSet::new();
    if sc.tcp {
        for c in &sc.closes {
            let (h, p) = (c.host % n, c.peer % n);
            if h == p || c.step >= sc.traffic_steps || !used_close.insert((h.min(p), h.max(p))) {
                continue;
            }
            closes_by_host[h].entry(warm + 1 + c.step as u64).or_default().push((p, c.how));
        }
    }
    for h in 0..n {
        let plan = HostPlan {
            me: h,
            n,
            v6: sc.v6,
            warm,
            traffic_end,
            tcp: sc.tcp,
            named: named.clone(),
            ctl: host_ctl_at[h].clone(),
            probes: probes_by_host[h].clone(),
            closes: closes_by_host[h].clone(),
        };
        let shc = sh.clone();
        match explicit_ip[h] {
            Some(ip) => sim.host(ip, move || host_software(shc.clone(), plan.clone())),
            None => sim.host(format!("h{h}"), move || host_software(shc.clone(), plan.clone())),
        }
    }
    let addrs: Vec<IpAddr> = (0..n).map(|h| explicit_ip[h].unwrap_or_else(|| sim.lookup(format!("h{h}")))).collect();
    *sh.addrs.borrow_mut() = addrs.clone();
    let ip2h: BTreeMap<IpAddr, usize> = addrs.iter().enumerate().map(|(h, a)| (*a, h)).collect();
    if ip2h.len() != n {
        out.fail("harness:duplicate-address", format!("{addrs:?}"));
        return out;
    }
    // a link is registered (earlier-registered host, new host): hosts are registered in index order
    let descending = |x: usize, y: usize| addrs[x.min(y)] > addrs[x.max(y)];

    let total = traffic_end + tail;
    for done in 0..total {
        if done == warm && fail > 0.0 {
            sim.set_fail_rate(fail);
        }
        if let Some(cs) = sim_ctl_at.get(&done) {
            for c in cs {
                let snap = snapshot(&sim, &ip2h);
                sh.log.borrow_mut().push(Ev::Ctl {
                    kind: c.kind,
                    pairs: sel::pairs(&c.a, &c.b, n),
                    step: done,
                    by_host: false,
                    snapshot: Some(snap),
                });
                sim_ctl(&sim, c, n, &named, &addrs);
            }
        }
        sh.step.set(done + 1);
        if let Err(e) = sim.step() {
            out.fail("step-error", format!("{e}"));
            return out;
        }
    }
    let _ = repair;
    if !sh.errors.borrow().is_empty() {
        out.fail("unexpected-io-error", format!("{:?}", sh.errors.borrow()));
        return out;
    }

    // ---------------- model pass over the log
    let log = sh.log.borrow();
    let mut cut: BTreeSet<(usize, usize)> = BTreeSet::new();
    let mut ever_cut: BTreeSet<(usize, usize)> = BTreeSet::new();
    let mut touched_links: BTreeSet<(usize, usize)> = BTreeSet::new();
    let mut status: BTreeMap<MsgId, St> = BTreeMap::new();
    let mut sent_step: BTreeMap<MsgId, u64> = BTreeMap::new();
    let mut order: Vec<MsgId> = Vec::new();
    let mut received: BTreeMap<MsgId, u32> = BTreeMap::new();
    let mut after_repair: BTreeSet<MsgId> = BTreeSet::new();
    let mut probe_results: BTreeMap<MsgId, (bool, String)> = BTreeMap::new();
    let mut n_sent_cut = 0u64;
    let mut n_inflight = 0u64;
    let mut n_after_repair = 0u64;
    // --- TCP closes (FIN / RST are messages too)
    // (closer, peer): that end closed something itself; what it sees afterwards is its own doing
    let mut closed_end: BTreeSet<(usize, usize)> = BTreeSet::new();
    // unordered pair -> step of the close on that stream
    let mut close_step: BTreeMap<(usize, usize), u64> = BTreeMap::new();
    // FINs whose delivery is required when clear (the stream stays otherwise intact: no RST can be provoked)
    let mut fin_must: BTreeSet<MsgId> = BTreeSet::new();
    // (observer, closer): the closer closed while closer->observer was explicitly cut and that cut
    // has not been lifted since: every FIN/RST of that stream so far was sent into the cut
    let mut shield: BTreeSet<(usize, usize)> = BTreeSet::new();
    let mut reset_violation: Option<(String, String)> = None;
    let mut n_close = 0u64;
    let mut n_close_in_cut = 0u64;
    let mut n_close_in_oneway_cut = 0u64;
    let mut n_rst_provoked_into_cut = 0u64;
    let mut rst_shape: BTreeSet<(usize, usize)> = BTreeSet::new();
    let mut n_shielded_writes = 0u64;
    let mut n_resets_seen = 0u64;
    let mut oneway_on_descending = false;
    let mut host_issued = false;
    let mut oneway = false;
    let mut bothways = false;
    let mut regex_sel = false;
    for c in &ctl_eff {
        if matches!(c.a, Sel::Regex(_)) || matches!(c.b, Sel::Regex(_)) {
            regex_sel = true;
        }
    }
    for ev in log.iter() {
        match ev {
            Ev::Send { id, step } => {
                let dir = (id.1, id.2);
                let st = if cut.contains(&dir) {
                    n_sent_cut += 1;
                    St::SentWhileCut
                } else {
                    if ever_cut.contains(&dir) {
                        after_repair.insert(*id);
                        n_after_repair += 1;
                    }
                    St::Clear
                };
                if id.0 == P::Tcp && st == St::Clear && shield.contains(&(id.1, id.2)) {
                    // data flowing towards an end that closed inside a cut of the reverse direction
                    n_shielded_writes += 1;
                    if rst_shape.remove(&(id.1, id.2)) {
                        n_rst_provoked_into_cut += 1;
                    }
                }
                status.insert(*id, st);
                sent_step.insert(*id, *step);
                order.push(*id);
            }
            Ev::Recv { id } => {
                *received.entry(*id).or_default() += 1;
            }
            Ev::Close { host, peer, how, step } => {
                n_close += 1;
                closed_end.insert((*host, *peer));
                close_step.insert((*host.min(peer), *host.max(peer)), *step);
                if matches!(how, CloseHow::DropWriter | CloseHow::Shutdown) {
                    fin_must.insert((P::Fin, *host, *peer, 0));
                }
                if cut.contains(&(*host, *peer)) {
                    n_close_in_cut += 1;
                    shield.insert((*peer, *host));
                    if !cut.contains(&(*peer, *host)) {
                        n_close_in_oneway_cut += 1;
                        if matches!(how, CloseHow::DropBoth | CloseHow::DropReader) {
                            rst_shape.insert((*peer, *host));
                        }
                    }
                }
            }
            Ev::Saw { at, peer, what, kind, step } => match what {
                Seen::Eof => {
                    *received.entry((P::Fin, *peer, *at, 0)).or_default() += 1;
                }
                Seen::ReadReset | Seen::WriteErr => {
                    if closed_end.contains(&(*at, *peer)) {
                        continue;
                    }
                    n_resets_seen += 1;
                    if shield.contains(&(*at, *peer)) && reset_violation.is_none() {
                        let via = if *what == Seen::WriteErr { "write-failed" } else { "read-failed" };
                        reset_violation = Some((
                            format!("tcp-reset-delivered-across-partitioned-direction:{via}"),
                            format!(
                                "h{peer} closed its end of the stream with h{at} in step {} while h{peer}->h{at} was explicitly partitioned, and that direction was not repaired since; yet in step {step} h{at} saw {kind} ({what:?}) on the stream: a RST crossed the partitioned direction",
                                close_step[&(*at.min(peer), *at.max(peer))]
                            ),
                        ));
                    }
                }
            },
            Ev::ProbeResult { id, ok, kind } => {
                probe_results.insert(*id, (*ok, kind.clone()));
            }
            Ev::Ctl { kind, pairs, step, by_host, snapshot } => {
                if *by_host {
                    host_issued = true;
                }
                let mut dirs: Vec<(usize, usize)> = Vec::new();
                for (x, y) in pairs {
                    touched_links.insert((*x.min(y), *x.max(y)));
                    match kind {
                        Kind::Partition | Kind::Repair => {
                            dirs.push((*x, *y));
                            dirs.push((*y, *x));
                        }
                        Kind::PartitionOneway | Kind::RepairOneway => {
                            dirs.push((*x, *y));
                            if descending(*x, *y) {
                                oneway_on_descending = true;
                            }
                        }
                        Kind::Hold | Kind::Release => {}
                    }
                }
                match kind {
                    Kind::Partition | Kind::PartitionOneway => {
                        if *kind == Kind::Partition {
                            bothways = true;
                        } else {
                            oneway = true;
                        }
                        for d in &dirs {
                            cut.insert(*d);
                            ever_cut.insert(*d);
                        }
                        // in-flight messages of the affected directions are dropped
                        match snapshot {
                            Some(snap) => {
                                for id in snap {
                                    let key = if id.0 == P::Syn {
                                        // resolve the outstanding probe of that pair
                                        order.iter().rev().find(|m| m.0 == P::Syn && m.1 == id.1 && m.2 == id.2).copied()
                                    } else {
                                        Some(*id)
                                    };
                                    let Some(key) = key else { continue };
                                    if dirs.contains(&(key.1, key.2)) {
                                        if let Some(s) = status.get_mut(&key) {
                                            if *s == St::Clear {
                                                *s = St::InFlightAtCut;
                                                n_inflight += 1;
                                            }
                                        }
                                    }
                                }
                            }
                            None => {
                                // host-issued: no iterator available from host code
                                for id in order.iter() {
                                    if !dirs.contains(&(id.1, id.2)) || status[id] != St::Clear {
                                        continue;
                                    }
                                    let k = sent_step[id];
                                    if fixed {
                                        // deliver_after = k*tick + L ; link.now during step m = m*tick
                                        if k * tick + lat_min > *step * tick {
                                            status.insert(*id, St::InFlightAtCut);
                                            n_inflight += 1;
                                        }
                                    } else if (k * tick + lat_max > *step * tick) && !received.contains_key(id) {
                                        status.insert(*id, St::DontCare);
                                    }
                                }
                            }
                        }
                    }
                    Kind::Repair | Kind::RepairOneway => {
                        for d in &dirs {
                            cut.remove(d);
                            // from now on a RST may legitimately travel d.0 -> d.1
                            shield.remove(&(d.1, d.0));
                            rst_shape.remove(&(d.1, d.0));
                        }
                    }
                    Kind::Hold | Kind::Release => {}
                }
            }
        }
    }
    let lat_steps = lat_max.div_ceil(tick);

    // ---------------- rules
    let mut tcp_broken: BTreeSet<(usize, usize)> = BTreeSet::new();
    let mut checked_must_not = 0u64;
    let mut checked_must = 0u64;
    let mut n_fin_must_not = 0u64;
    let mut n_fin_must = 0u64;
    for id in &order {
        let st = status[id];
        let got = received.get(id).copied().unwrap_or(0);
        if got > 1 {
            out.fail("message-delivered-twice", format!("{id:?} received {got} times"));
            return out;
        }
        match id.0 {
            P::Udp | P::Tcp => {
                if id.0 == P::Tcp && tcp_broken.contains(&(id.1, id.2)) {
                    // behind a lost segment: ordered delivery (C02) decides, not this property
                    if st != St::Clear {
                        continue;
                    }
                    continue;
                }
                match st {
                    St::SentWhileCut | St::InFlightAtCut => {
                        checked_must_not += 1;
                        if id.0 == P::Tcp {
                            tcp_broken.insert((id.1, id.2));
                        }
                        if got > 0 {
                            let proto = if id.0 == P::Udp { "udp" } else { "tcp" };
                            let why = if st == St::SentWhileCut { "sent-while-partitioned" } else { "in-flight-when-partition-imposed" };
                            let flavour = if fail > 0.0 { "random-failures-on" } else { "random-failures-off" };
                            out.fail(
                                format!("{proto}-{why}-was-delivered:{flavour}"),
                                format!("{id:?} (proto, src, dst, seq) sent in step {} was received by h{}; fail_rate {fail} repair_rate {repair}", sent_step[id], id.2),
                            );
                            return out;
                        }
                    }
                    St::DontCare => {
                        if id.0 == P::Tcp {
                            tcp_broken.insert((id.1, id.2));
                        }
                    }
                    St::Clear => {
                        let link = (id.1.min(id.2), id.1.max(id.2));
                        let near_close = id.0 == P::Tcp
                            && close_step.get(&link).map(|c| sent_step[id] + lat_steps + 2 >= *c).unwrap_or(false);
                        if near_close {
                            // one end closed (part of) this stream around or before the arrival:
                            // whether the chunk is read is TCP's business, not this property's
                            if got == 0 {
                                tcp_broken.insert((id.1, id.2));
                            }
                        } else if fail == 0.0 {
                            checked_must += 1;
                            if got == 0 {
                                let wher = if !touched_links.contains(&link) {
                                    "on-a-link-no-call-ever-named"
                                } else if after_repair.contains(id) {
                                    "sent-after-explicit-repair"
                                } else if ever_cut.contains(&(id.2, id.1)) && !ever_cut.contains(&(id.1, id.2)) {
                                    "reverse-direction-of-oneway-partition"
                                } else {
                                    "sent-while-direction-clear"
                                };
                                let proto = if id.0 == P::Udp { "udp" } else { "tcp" };
                                out.fail(
                                    format!("{proto}-clear-message-lost:{wher}"),
                                    format!("{id:?} sent in step {} while {}->{} was not partitioned, never received", sent_step[id], id.1, id.2),
                                );
                                return out;
                            }
                        } else if id.0 == P::Tcp && got == 0 {
                            tcp_broken.insert((id.1, id.2));
                        }
                    }
                }
            }
            P::Fin => match st {
                St::SentWhileCut | St::InFlightAtCut => {
                    checked_must_not += 1;
                    n_fin_must_not += 1;
                    if got > 0 {
                        let why = if st == St::SentWhileCut { "sent-while-partitioned" } else { "in-flight-when-partition-imposed" };
                        let flavour = if fail > 0.0 { "random-failures-on" } else { "random-failures-off" };
                        out.fail(
                            format!("tcp-fin-{why}-was-delivered:{flavour}"),
                            format!("the FIN h{}->h{} sent in step {} was delivered: h{} read end-of-stream; fail_rate {fail} repair_rate {repair}", id.1, id.2, sent_step[id], id.2),
                        );
                        return out;
                    }
                }
                St::Clear if fail == 0.0 && fin_must.contains(id) && !tcp_broken.contains(&(id.1, id.2)) => {
                    checked_must += 1;
                    n_fin_must += 1;
                    if got == 0 {
                        let wher = if after_repair.contains(id) {
                            "sent-after-explicit-repair"
                        } else if ever_cut.contains(&(id.2, id.1)) && !ever_cut.contains(&(id.1, id.2)) {
                            "reverse-direction-of-oneway-partition"
                        } else {
                            "sent-while-direction-clear"
                        };
                        out.fail(
                            format!("tcp-fin-clear-message-lost:{wher}"),
                            format!("the FIN h{}->h{} sent in step {} while that direction was not partitioned (all earlier chunks arrived) was never seen by h{}", id.1, id.2, sent_step[id], id.2),
                        );
                        return out;
                    }
                }
                _ => {}
            },
            P::Syn => {
                let Some((ok, kind)) = probe_results.get(id) else {
                    // still pending at the end
                    if st == St::SentWhileCut || st == St::InFlightAtCut || fail == 0.0 {
                        out.fail("connect-hangs", format!("probe {id:?} (status {st:?}) never returned"));
                        return out;
                    }
                    continue;
                };
                match st {
                    St::SentWhileCut | St::InFlightAtCut => {
                        checked_must_not += 1;
                        if *ok {
                            out.fail(
                                "tcp-connect-succeeded-across-partition",
                                format!("probe {id:?} status {st:?} connected"),
                            );
                            return out;
                        }
                        if kind != "ConnectionRefused" {
                            out.fail("tcp-connect-across-partition-wrong-error", format!("probe {id:?}: {kind}"));
                            return out;
                        }
                    }
                    St::Clear if fail == 0.0 => {
                        checked_must += 1;
                        if !*ok {
                            out.fail("tcp-connect-refused-on-clear-direction", format!("probe {id:?}: {kind}"));
                            return out;
                        }
                    }
                    _ => {}
                }
            }
        }
    }
    // nothing received that was never sent
    for id in received.keys() {
        if !status.contains_key(id) {
            out.fail("unsent-message-received", format!("{id:?}"));
            return out;
        }
    }

    if let Some((sig, detail)) = reset_violation {
        out.fail(sig, detail);
        return out;
    }

    if sc.addr.pre_resolve.iter().any(|h| named[h % n]) {
        out.label("addr:names-resolved-before-registration");
    }
    if named.iter().any(|x| !x) {
        out.label("addr:explicit-ip-hosts");
    }
    if (0..n).any(|x| (x + 1..n).any(|y| descending(x, y))) {
        out.label("addr:some-link-registered-descending");
    } else {
        out.label("addr:all-links-registered-ascending");
    }
    if oneway_on_descending {
        out.label("oneway-call-on-descending-registered-link");
    }
    if n_close > 0 {
        out.label("tcp-close");
    }
    if n_close_in_cut > 0 {
        out.label("tcp-close-inside-cut");
    }
    if n_close_in_oneway_cut > 0 {
        out.label("tcp-close-inside-oneway-cut");
    }
    if n_rst_provoked_into_cut > 0 {
        out.label("tcp-rst-provoked-into-cut");
    }
    if n_fin_must_not > 0 {
        out.label("tcp-fin-must-not-arrive");
    }
    if n_fin_must > 0 {
        out.label("tcp-fin-must-arrive");
    }
    if n_resets_seen > 0 {
        out.label("tcp-reset-seen-by-surviving-end");
    }
    out.count("chunks written towards an end that closed inside a still-standing cut", n_shielded_writes);
    if oneway {
        out.label("oneway");
    }
    if bothways {
        out.label("both-ways");
    }
    if fail > 0.0 {
        out.label("rates>0");
    }
    if host_issued {
        out.label("host-issued");
    }
    if regex_sel {
        out.label("regex");
    }
    if sc.tcp {
        out.label("tcp");
    }
    if !fixed {
        out.label("ranged-latency");
    }
    if sc.random_order {
        out.label("random-order");
    }
    out.count("must-not-arrive messages checked", checked_must_not);
    out.count("must-arrive messages checked", checked_must);
    out.nontrivial = n_sent_cut >= 1 && n_inflight >= 1 && n_after_repair >= 1;
    if n_sent_cut >= 1 {
        out.label("has-sent-during-cut");
    }
    if n_inflight >= 1 {
        out.label("has-in-flight-at-imposition");
    }
    if n_after_repair >= 1 {
        out.label("has-sent-after-repair");
    }
    out
}

fn kind_strategy() -> BoxedStrategy<Kind> {
    prop_oneof![
        Just(Kind::Partition),
        Just(Kind::PartitionOneway),
        Just(Kind::Repair),
        Just(Kind::RepairOneway)
    ]
    .boxed()
}

fn addr_strategy() -> BoxedStrategy<AddrPlan> {
    let perm = Just((0usize..4).collect::<Vec<usize>>()).prop_shuffle();
    let expl = proptest::collection::vec(prop_oneof![1 => Just(None), 1 => (0u8..8).prop_map(Some)], 4);
    prop_oneof![
        // the usual layout: names, addresses allocated in registration order
        4 => Just(AddrPlan::default()),
        // some names resolved (in any order) before the hosts are registered
        3 => (perm.clone(), 1usize..=4).prop_map(|(p, l)| AddrPlan { pre_resolve: p[..l].to_vec(), explicit: vec![] }),
        // some hosts registered under explicit addresses, the rest as above
        3 => (perm, 0usize..=4, expl).prop_map(|(p, l, e)| AddrPlan { pre_resolve: p[..l].to_vec(), explicit: e }),
    ]
    .boxed()
}

fn how_strategy() -> BoxedStrategy<CloseHow> {
    prop_oneof![
        2 => Just(CloseHow::DropBoth),
        1 => Just(CloseHow::DropReader),
        1 => Just(CloseHow::DropWriter),
        1 => Just(CloseHow::Shutdown)
    ]
    .boxed()
}

pub fn strategy() -> BoxedStrategy<Scenario> {
    let rates = prop_oneof![
        3 => Just((0u32, 100u32)),
        2 => (1u32..=60, 1u32..=100),
        1 => Just((100u32, 100u32)),
        1 => (1u32..=60, Just(0u32)),
    ];
    let lat = prop_oneof![
        2 => (0u32..=12).prop_map(|v| (v, v)),
        2 => (0u32..=6, 1u32..=12).prop_map(|(a, d)| (a, a + d)),
    ];
    (
        (2usize..=4, 1u32..=4, lat, rates, any::<u64>(), any::<bool>(), any::<bool>(), 8u32..=24, any::<bool>()),
        proptest::collection::vec((0u32..24, 0usize..4, 0usize..4), 0..4),
        proptest::collection::vec(
            (
                0u32..24,
                prop_oneof![2 => Just(None), 1 => (0usize..4).prop_map(Some)],
                kind_strategy(),
                sel::strategy(),
                sel::strategy(),
            ),
            1..7,
        ),
        addr_strategy(),
        proptest::collection::vec((0u32..24, 0usize..4, 0usize..4, how_strategy()), 0..3),
    )
        .prop_map(
            |((nhosts, tick_ms, (lat_min, lat_max), (fail_x100, repair_x100), seed, random_order, v6, traffic_steps, tcp), probes, ctl, addr, closes)| {
                let mut closes: Vec<CloseOp> =
                    closes.into_iter().map(|(step, host, peer, how)| CloseOp { step, host, peer, how }).collect();
                let mut ctl: Vec<CtlEv> = ctl
                    .into_iter()
                    .map(|(step, by, kind, a, b)| CtlEv { step, by, kind, a, b })
                    .collect();
                // bias: half of the cases get a cut that is later repaired with
                // the matching call, so that "sent after repair" is common
                if seed % 2 == 0 {
                    let first = ctl[0].clone();
                    let cut_kind = if seed % 4 == 0 { Kind::Partition } else { Kind::PartitionOneway };
                    let rep_kind = if seed % 8 < 4 {
                        if cut_kind == Kind::Partition { Kind::Repair } else { Kind::RepairOneway }
                    } else if cut_kind == Kind::Partition { Kind::RepairOneway } else { Kind::Repair };
                    let s0 = first.step % (traffic_steps / 2).max(1);
                    let s1 = s0 + 1 + (seed as u32 >> 8) % (traffic_steps / 2).max(1);
                    ctl[0] = CtlEv { step: s0, kind: cut_kind, ..first.clone() };
                    ctl.push(CtlEv { step: s1, kind: rep_kind, ..first });
                }
                // bias: in three quarters of the TCP cases one end of a stream named by the
                // first call (mostly the source side) closes shortly after that call, so that
                // closes inside a cut are common
                if tcp && (seed >> 16) % 4 != 0 {
                    if let Some((x, y)) = sel::pairs(&ctl[0].a, &ctl[0].b, nhosts).first().copied() {
                        let (host, peer) = if (seed >> 18) % 4 != 0 { (x, y) } else { (y, x) };
                        let how = match (seed >> 22) % 5 {
                            0 | 1 => CloseHow::DropBoth,
                            2 => CloseHow::DropReader,
                            3 => CloseHow::DropWriter,
                            _ => CloseHow::Shutdown,
                        };
                        closes.insert(0, CloseOp { step: ctl[0].step + ((seed >> 20) % 3) as u32, host, peer, how });
                    }
                }
                ctl.sort_by_key(|c| c.step);
                Scenario {
                    addr,
                    closes,
                    nhosts,
                    tick_ms,
                    lat_min,
                    lat_max,
                    fail_x100,
                    repair_x100,
                    seed,
                    random_order,
                    v6,
                    traffic_steps,
                    tcp,
                    probes,
                    ctl,
                }
            },
        )
        .boxed()
}

/// All sequences of length <= 3 over {4 kinds} x {(A,B),(B,A)} = 584, at a
/// given placement and rate setting, on 3 hosts (h2 is the bystander).
fn exhaustive_space(tier: Tier) -> Vec<Scenario> {
    let acts: Vec<(Kind, usize, usize)> = [Kind::Partition, Kind::PartitionOneway, Kind::Repair, Kind::RepairOneway]
        .iter()
        .flat_map(|k| [(*k, 0usize, 1usize), (*k, 1, 0)])
        .collect();
    let mut seqs: Vec<Vec<(Kind, usize, usize)>> = Vec::new();
    for a in &acts {
        seqs.push(vec![*a]);
        for b in &acts {
            seqs.push(vec![*a, *b]);
            for c in &acts {
                seqs.push(vec![*a, *b, *c]);
            }
        }
    }
    assert_eq!(seqs.len(), 584);
    let placements: Vec<[u32; 3]> = vec![[2, 6, 10], [3, 4, 5], [4, 4, 4]];
    // (fail, repair, latency (min,max), tick, by-host?)
    let mut settings: Vec<(u32, u32, (u32, u32), u32, bool)> = vec![(0, 100, (3, 3), 1, false), (30, 50, (2, 2), 1, false)];
    if tier == Tier::Thorough {
        settings.extend([
            (0, 100, (0, 0), 2, false),
            (0, 100, (1, 5), 1, false),
            (0, 100, (3, 3), 1, true),
            (30, 50, (0, 4), 1, false),
            (30, 50, (2, 2), 1, true),
            (100, 100, (2, 2), 1, false),
            (10, 100, (3, 3), 2, false),
            (50, 10, (1, 1), 1, false),
            (0, 100, (5, 5), 3, false),
            (20, 20, (0, 0), 1, true),
        ]);
    }
    let mut out = Vec::new();
    for (si, (fail, rep, lat, tick, by_host)) in settings.iter().enumerate() {
        for (pi, pl) in placements.iter().enumerate() {
            for (qi, s) in seqs.iter().enumerate() {
                let ctl = s
                    .iter()
                    .enumerate()
                    .map(|(i, (k, a, b))| CtlEv {
                        step: pl[i],
                        by: if *by_host { Some(*a) } else { None },
                        kind: *k,
                        a: if (qi + i) % 3 == 0 { Sel::Ip(*a) } else { Sel::Name(*a) },
                        b: if (qi + i) % 3 == 1 { Sel::Regex(vec![*b]) } else { Sel::Name(*b) },
                    })
                    .collect();
                // address layout family: usual / names resolved in descending order before
                // registration / hosts registered under descending explicit addresses
                let addr = match (qi + pi + si) % 3 {
                    0 => AddrPlan::default(),
                    1 => AddrPlan { pre_resolve: vec![2, 1, 0], explicit: vec![] },
                    _ => AddrPlan { pre_resolve: vec![], explicit: vec![Some(5), Some(4), Some(2)] },
                };
                // in half of the TCP scenarios the first-named host of the first call closes
                // its end of the 0<->1 stream one step after that call
                let closes = if qi % 4 == 0 {
                    let how = [CloseHow::DropBoth, CloseHow::DropReader, CloseHow::DropWriter, CloseHow::Shutdown][(qi / 4 + pi) % 4];
                    vec![CloseOp { step: pl[0] + 1, host: s[0].1, peer: s[0].2, how }]
                } else {
                    vec![]
                };
                out.push(Scenario {
                    addr,
                    closes,
                    nhosts: 3,
                    tick_ms: *tick,
                    lat_min: lat.0,
                    lat_max: lat.1,
                    fail_x100: *fail,
                    repair_x100: *rep,
                    seed: (si * 1000 + pi * 100) as u64 + qi as u64,
                    random_order: false,
                    v6: (qi + pi) % 2 == 1,
                    traffic_steps: 16,
                    tcp: qi % 2 == 0,
                    probes: vec![(pl[0] + 1, 0, 1), (pl[1] + 1, 1, 0)],
                    ctl,
                });
            }
        }
    }
    out
}

/// Clamp a structurally decoded scenario into the generator's domain (fuzz tier).
pub fn fuzz_sanitize(sc: &mut Scenario) -> bool {
    sc.nhosts = 2 + sc.nhosts % 3;
    sc.tick_ms = 1 + sc.tick_ms % 4;
    sc.lat_min %= 7;
    sc.lat_max = sc.lat_min + sc.lat_max % 13;
    sc.traffic_steps = 8 + sc.traffic_steps % 17;
    sc.probes.truncate(4);
    for p in sc.probes.iter_mut() {
        p.0 %= 24;
        p.1 %= 4;
        p.2 %= 4;
    }
    let fix_sel = |s: &mut Sel| match s {
        Sel::Name(i) | Sel::Ip(i) => *i %= 4,
        Sel::Regex(v) => {
            v.truncate(3);
            for i in v.iter_mut() {
                *i %= 4;
            }
            if v.is_empty() {
                v.push(0);
            }
        }
    };
    for c in sc.ctl.iter_mut() {
        c.step %= 24;
        c.by = c.by.map(|h| h % 4);
        fix_sel(&mut c.a);
        fix_sel(&mut c.b);
    }
    sc.addr.pre_resolve.truncate(4);
    for h in sc.addr.pre_resolve.iter_mut() {
        *h %= 4;
    }
    sc.addr.explicit.truncate(4);
    for k in sc.addr.explicit.iter_mut().flatten() {
        *k %= 8;
    }
    sc.closes.truncate(3);
    for c in sc.closes.iter_mut() {
        c.step %= 24;
        c.host %= 4;
        c.peer %= 4;
    }
    sc.fail_x100 %= 101;
    sc.repair_x100 %= 101;
    sc.ctl.retain(|c| !matches!(c.kind, Kind::Hold | Kind::Release));
    sc.ctl.truncate(7);
    sc.ctl.sort_by_key(|c| c.step);
    !sc.ctl.is_empty()
}

fn check(tier: Tier, seed: u64) -> i32 {
    let ctx = Ctx::new("C03", tier, seed, "fault_enumeration");
    ctx.replay_corpus(&replay);
    let space = exhaustive_space(tier);
    let desc = format!(
        "all 584 sequences of length <= 3 over {{partition, partition_oneway, repair, repair_oneway}} x {{(A,B),(B,A)}} x 3 step placements x {} (fail/repair rate, latency, tick, issuer) settings = {} scenarios on 3 hosts; rotating over 3 address layouts (usual / names resolved in descending order before registration / descending explicit addresses) and, in a quarter of them, one of 4 kinds of TCP close by the first-named host one step after the first call",
        space.len() / (584 * 3),
        space.len()
    );
    ctx.exhaustive("sequences<=3", &desc, Box::new(space.into_iter()), &run);
    ctx.random("random", tier.pick(40_000, 400_000), &|| strategy(), &run);
    ctx.finish(
        "bounded-exhaustive enumeration of every controller sequence of length <= 3 (see exhaustive_subspaces) plus random longer sequences (1-6 calls by name/IP/regex from the Sim handle or from host code, 2-4 hosts, fixed or ranged latency, fail/repair rates in [0,1], UDP every step on every ordered pair, optional persistent TCP streams and connect probes). Address layout is generated: names with addresses in registration order, names resolved through Sim::lookup in any order before registration, hosts registered under explicit addresses below/above the allocated range (named by IP or IP string), so the two hosts of a link are registered in ascending or descending address order. On TCP streams up to one close per host pair is generated (drop both halves / drop reader / drop writer / shutdown), mostly shortly after the first call. Model: explicit[a->b] driven only by the controller's calls; in-flight sets taken from Sim::links immediately before each Sim-side call (computed from the fixed latency for host-side calls). Messages are turmoil wire messages: datagrams, TCP data chunks, SYNs, and the control segments FIN (delivery = the peer reads end-of-stream) and RST (delivery = the peer's read fails with ConnectionReset or its write with BrokenPipe). A FIN is treated like a data chunk (never delivered if sent into / in flight at a cut; required on a clear direction with fail_rate 0 when only the write side was closed). RST: if an end closes while its outgoing direction is explicitly cut, every RST its stack emits for that stream until that direction is explicitly repaired is sent into the cut, so the surviving end must see no reset before such a repair. Non-trivial = >=1 message sent during a cut, >=1 in flight when a cut was imposed and >=1 sent after the repair of a direction that had been cut. Distinct by scenario hash.",
        &[
            "hold/release is outside the alphabet (documented as unsupported with one-way partitions)",
            "for host-issued calls under a ranged latency, messages of the affected direction that may or may not have been in flight are neither required nor forbidden",
            "TCP chunks behind a lost segment are left to C02",
            "the keeps-flowing half is only asserted with fail_rate = 0",
            "TCP chunks sent on a stream within (max latency + 2 steps) before, or any time after, a close on that stream are not required to arrive (whether they are read is TCP's business); they are still forbidden to arrive across a cut",
            "what the closing end itself observes on the stream is not checked; the surviving end never closes anything",
            "flow-control credits and the SYN-ACK are not wire messages in turmoil (shared memory / oneshot channel): nothing is asserted about them",
            "a regex cannot match a host registered under an explicit address (no DNS name): such hosts are removed from generated regex selectors",
        ],
    )
}

fn replay(_sub: &str, v: &Value) -> Result<Outcome, String> {
    replay_as::<Scenario>(v, &run)
}

//! C08 — held links deliver nothing until released, then everything exactly
//! once in order; manual delivery through the links iterator; the iterator
//! shows exactly what is in flight.  DESIGN.md §6 C08.  SimDriver.

use crate::drivers::linktraffic::*;
use crate::drivers::sel::{self, Sel};
use crate::engine::{pick, replay_as, Ctx, Outcome, Tier};
use proptest::prelude::*;
use serde::{Deserialize, Serialize};
use serde_json::Value;
use std::collections::{BTreeMap, BTreeSet};
use std::time::{Duration, SystemTime};

pub const PROP: super::Prop = super::Prop {
    id: "C08",
    level: "fault_enumeration",
    check,
    replay,
};

#[derive(Clone, Debug, Serialize, Deserialize)]
pub enum Pick {
    /// index into the list of held messages currently shown by the iterator
    Index(u16),
    /// (udp?, src, dst, n-th message of that direction sent since the hold)
    Nth(bool, usize, usize, u32),
}

#[derive(Clone, Debug, Serialize, Deserialize)]
pub struct Scenario {
    pub nhosts: usize,
    pub tick_ms: u32,
    pub lat_min: u32,
    pub lat_max: u32,
    pub seed: u64,
    pub random_order: bool,
    pub v6: bool,
    pub traffic_steps: u32,
    pub tcp: bool,
    pub probes: Vec<(u32, usize, usize)>,
    /// None: everybody sends to everybody each step; Some: (step offset, src, dst)
    pub sends: Option<Vec<(u32, usize, usize)>>,
    pub ctl: Vec<CtlEv>,
    /// (step offset, pick): one manual delivery at that Sim-side boundary
    pub manual: Vec<(u32, Pick)>,
}

#[derive(Clone, Debug, PartialEq, Eq)]
enum St {
    /// in flight or delivered normally
    Normal,
    Held,
    /// released (by a release call) or delivered by hand at this step boundary / step
    Freed { at: u64, manual: bool, group: usize },
    DontCare,
}

fn held_list(sim: &turmoil::Sim<'_>, ip2h: &BTreeMap<std::net::IpAddr, usize>) -> Vec<MsgId> {
    snapshot(sim, ip2h)
}

/// deliver the message with this id by hand; returns false if not shown
fn deliver_by_id(sim: &turmoil::Sim<'_>, want: MsgId) -> bool {
    let mut done = false;
    sim.links(|links| {
        for link in links {
            for sent in link {
                if done {
                    continue;
                }
                let id = match sent.protocol() {
                    turmoil::Protocol::Udp(turmoil::Datagram(b)) => dec(b),
                    turmoil::Protocol::Tcp(turmoil::Segment::Data(_, b)) => dec(b),
                    _ => None,
                };
                if id == Some(want) {
                    sent.deliver();
                    done = true;
                }
            }
        }
    });
    done
}

pub fn run(sc: &Scenario) -> Outcome {
    let mut out = Outcome::ok();
    let n = sc.nhosts.clamp(2, 4);
    let tick = sc.tick_ms.max(1) as u64;
    let lat_min = sc.lat_min.min(sc.lat_max) as u64;
    let lat_max = sc.lat_max.max(sc.lat_min) as u64;
    let fixed = lat_min == lat_max;
    let warm = (n as u64) * (lat_max.div_ceil(tick) + 3) + 3;
    let traffic_end = warm + sc.traffic_steps as u64;
    let tail = lat_max.div_ceil(tick) + 4;
    let sh = Shared::default();

    let mut b = turmoil::Builder::new();
    b.tick_duration(Duration::from_millis(tick))
        .min_message_latency(Duration::from_millis(lat_min))
        .max_message_latency(Duration::from_millis(lat_max))
        .epoch(SystemTime::UNIX_EPOCH + Duration::from_secs(1))
        .rng_seed(sc.seed)
        .simulation_duration(Duration::from_secs(100_000));
    if sc.random_order {
        b.enable_random_order();
    }
    if sc.v6 {
        b.ip_version(turmoil::IpVersion::V6);
    }
    let mut sim = b.build();

    let mut used_probe = BTreeSet::new();
    let mut probes_by_host: Vec<BTreeMap<u64, Vec<usize>>> = vec![BTreeMap::new(); n];
    for (st, s, d) in &sc.probes {
        let (s, d) = (s % n, d % n);
        if s == d || !used_probe.insert((s, d)) || *st >= sc.traffic_steps {
            continue;
        }
        probes_by_host[s].entry(warm + 1 + *st as u64).or_default().push(d);
    }
    let mut sim_ctl_at: BTreeMap<u64, Vec<CtlEv>> = BTreeMap::new();
    let mut host_ctl_at: Vec<BTreeMap<u64, Vec<CtlEv>>> = vec![BTreeMap::new(); n];
    for c in &sc.ctl {
        if c.step >= sc.traffic_steps || !matches!(c.kind, Kind::Hold | Kind::Release) {
            continue;
        }
        match c.by {
            None => sim_ctl_at.entry(warm + c.step as u64).or_default().push(c.clone()),
            Some(h) => host_ctl_at[h % n].entry(warm + 1 + c.step as u64).or_default().push(c.clone()),
        }
    }
    let mut manual_at: BTreeMap<u64, Vec<Pick>> = BTreeMap::new();
    for (st, p) in &sc.manual {
        if *st < sc.traffic_steps {
            manual_at.entry(warm + *st as u64).or_default().push(p.clone());
        }
    }
    for h in 0..n {
        let sends = sc.sends.as_ref().map(|v| {
            let mut m: BTreeMap<u64, Vec<usize>> = BTreeMap::new();
            for (st, s, d) in v {
                if s % n == h && d % n != h {
                    m.entry(warm + 1 + *st as u64).or_default().push(d % n);
                }
            }
            m
        });
        let plan = HostPlan {
            me: h,
            n,
            v6: sc.v6,
            warm,
            traffic_end,
            tcp: sc.tcp,
            ctl: host_ctl_at[h].clone(),
            probes: probes_by_host[h].clone(),
            sends,
        };
        let shc = sh.clone();
        sim.host(format!("h{h}"), move || host_software(shc.clone(), plan.clone()));
    }
    let ip2h: BTreeMap<std::net::IpAddr, usize> = (0..n).map(|h| (sim.lookup(format!("h{h}")), h)).collect();

    // Snapshots after every step (for the "iterator shows exactly what is in flight" clause)
    let mut snaps: BTreeMap<u64, Vec<MsgId>> = BTreeMap::new();
    let total = traffic_end + tail;
    let mut manual_done = 0u64;
    for done in 0..total {
        if let Some(cs) = sim_ctl_at.get(&done) {
            for c in cs {
                let snap = snapshot(&sim, &ip2h);
                sh.log.borrow_mut().push(Ev::Ctl {
                    kind: c.kind,
                    pairs: sel::pairs(&c.a, &c.b, n),
                    step: done,
                    by_host: false,
                    snapshot: Some(snap),
                });
                sim_ctl(&sim, c, n);
            }
        }
        if let Some(ps) = manual_at.get(&done) {
            for p in ps {
                // candidates: messages shown by the iterator right now (UDP and TCP data)
                let shown: Vec<MsgId> = held_list(&sim, &ip2h).into_iter().filter(|m| m.0 != P::Syn).collect();
                let target = match p {
                    Pick::Index(i) => {
                        if shown.is_empty() {
                            None
                        } else {
                            Some(shown[pick(*i, shown.len())])
                        }
                    }
                    Pick::Nth(udp, s, d, k) => {
                        let pr = if *udp { P::Udp } else { P::Tcp };
                        shown.iter().filter(|m| m.0 == pr && m.1 == s % n && m.2 == d % n).nth(*k as usize).copied()
                    }
                };
                if let Some(id) = target {
                    if deliver_by_id(&sim, id) {
                        sh.log.borrow_mut().push(Ev::Manual { id, step: done });
                        manual_done += 1;
                    }
                }
            }
        }
        sh.step.set(done + 1);
        if let Err(e) = sim.step() {
            out.fail("step-error", format!("{e}"));
            return out;
        }
        snaps.insert(done + 1, snapshot(&sim, &ip2h));
    }
    if !sh.errors.borrow().is_empty() {
        out.fail("unexpected-io-error", format!("{:?}", sh.errors.borrow()));
        return out;
    }

    // ---------------- model pass
    let log = sh.log.borrow();
    let mut held_links: BTreeSet<(usize, usize)> = BTreeSet::new();
    let mut status: BTreeMap<MsgId, St> = BTreeMap::new();
    let mut sent_step: BTreeMap<MsgId, u64> = BTreeMap::new();
    let mut order: Vec<MsgId> = Vec::new();
    let mut recv_pos: BTreeMap<MsgId, (usize, u64)> = BTreeMap::new(); // log position, step
    let mut received_n: BTreeMap<MsgId, u32> = BTreeMap::new();
    let mut probe_results: BTreeMap<MsgId, (bool, String, usize)> = BTreeMap::new();
    let mut group = 0usize;
    let mut cur_step = 0u64;
    let mut n_held_total = 0u64;
    let mut max_held_per_dir = 0usize;
    let mut inflight_at_hold = 0u64;
    let mut host_issued = false;
    let mut cycles = 0u64;
    let mut rehold = 0u64;
    // per snapshot step: ids that may or may not still be listed (host-side release in that step)
    let mut optional_at: BTreeMap<u64, BTreeSet<MsgId>> = BTreeMap::new();
    // expected iterator content is rebuilt after the pass from status history:
    // record (id, from_step_inclusive, to_step_exclusive) intervals during which the id must be listed
    let mut held_from: BTreeMap<MsgId, u64> = BTreeMap::new();
    let mut freed: BTreeMap<MsgId, (u64, bool)> = BTreeMap::new();
    let mut held_since: BTreeMap<MsgId, u64> = BTreeMap::new();
    let link_of = |a: usize, b: usize| (a.min(b), a.max(b));
    for (pos, ev) in log.iter().enumerate() {
        match ev {
            Ev::Send { id, step } => {
                cur_step = *step;
                let st = if held_links.contains(&link_of(id.1, id.2)) {
                    n_held_total += 1;
                    held_since.insert(*id, *step);
                    held_from.insert(*id, *step);
                    St::Held
                } else {
                    St::Normal
                };
                status.insert(*id, st);
                sent_step.insert(*id, *step);
                order.push(*id);
            }
            Ev::Recv { id } => {
                *received_n.entry(*id).or_default() += 1;
                recv_pos.entry(*id).or_insert((pos, cur_step));
                if status.get(id) == Some(&St::Held) {
                    out.fail(
                        match id.0 {
                            P::Udp => "udp-received-while-link-held",
                            _ => "tcp-received-while-link-held",
                        },
                        format!("{id:?} (proto, src, dst, seq) sent in step {} was received in step {cur_step} while the link was held", sent_step[id]),
                    );
                    return out;
                }
            }
            Ev::ProbeResult { id, ok, kind } => {
                if status.get(id) == Some(&St::Held) && *ok {
                    out.fail("tcp-connect-completed-while-link-held", format!("probe {id:?}"));
                    return out;
                }
                probe_results.insert(*id, (*ok, kind.clone(), pos));
            }
            Ev::Manual { id, step } => {
                cur_step = cur_step.max(*step);
                group += 1;
                held_since.remove(id);
                freed.insert(*id, (*step, false));
                status.insert(*id, St::Freed { at: *step, manual: true, group });
            }
            Ev::Ctl { kind, pairs, step, by_host, snapshot } => {
                cur_step = cur_step.max(*step);
                if *by_host {
                    host_issued = true;
                }
                let links: BTreeSet<(usize, usize)> = pairs.iter().map(|(x, y)| link_of(*x, *y)).collect();
                match kind {
                    Kind::Hold => {
                        for l in &links {
                            held_links.insert(*l);
                        }
                        if !*by_host {
                            // released (or hand-delivered) at this very boundary and not yet received:
                            // no step has run since, so the message is still in flight and the hold
                            // applies to it — independently of what the iterator lists
                            let snap_set: BTreeSet<MsgId> = snapshot.as_ref().map(|v| v.iter().copied().collect()).unwrap_or_default();
                            for id in order.iter() {
                                if id.0 == P::Syn || !links.contains(&link_of(id.1, id.2)) || recv_pos.contains_key(id) {
                                    continue;
                                }
                                if let St::Freed { at, .. } = status[id] {
                                    // only for Sim-side releases / manual deliveries: a host-side release may
                                    // already have been processed by a later send on the link in that step
                                    let sim_side = freed.get(id).map(|(_, by_host)| !*by_host).unwrap_or(false);
                                    if at == *step && sim_side {
                                        if !snap_set.contains(id) {
                                            out.fail(
                                                "links-iterator-misses-released-but-undelivered-message",
                                                format!("{id:?} was released at boundary {at} and no step has run since, yet Sim::links does not list it any more"),
                                            );
                                            return out;
                                        }
                                    }
                                }
                            }
                        }
                        match snapshot {
                            Some(snap) => {
                                for id in snap {
                                    let key = if id.0 == P::Syn {
                                        order.iter().rev().find(|m| m.0 == P::Syn && m.1 == id.1 && m.2 == id.2).copied()
                                    } else {
                                        Some(*id)
                                    };
                                    let Some(key) = key else { continue };
                                    let again = matches!(status.get(&key), Some(St::Freed { .. })) && !recv_pos.contains_key(&key);
                                    if again && links.contains(&link_of(key.1, key.2)) {
                                        // released or hand-delivered but not yet moved off the link: held again
                                        freed.remove(&key);
                                        status.insert(key, St::Held);
                                        n_held_total += 1;
                                        rehold += 1;
                                        continue;
                                    }
                                    if links.contains(&link_of(key.1, key.2)) && status.get(&key) == Some(&St::Normal) {
                                        status.insert(key, St::Held);
                                        held_since.insert(key, *step + 1);
                                        held_from.insert(key, *step);
                                        inflight_at_hold += 1;
                                        n_held_total += 1;
                                    }
                                }
                            }
                            None => {
                                for id in order.iter() {
                                    if links.contains(&link_of(id.1, id.2)) && !recv_pos.contains_key(id) {
                                        if let St::Freed { at, .. } = status[id] {
                                            if at + 1 >= *step {
                                                // freed so recently that it may still sit on the link
                                                status.insert(*id, St::DontCare);
                                                freed.remove(id);
                                            }
                                        }
                                    }
                                    if !links.contains(&link_of(id.1, id.2)) || status[id] != St::Normal {
                                        continue;
                                    }
                                    let k = sent_step[id];
                                    if fixed {
                                        if k * tick + lat_min > *step * tick {
                                            status.insert(*id, St::Held);
                                            held_since.insert(*id, *step);
                                            held_from.insert(*id, *step);
                                            inflight_at_hold += 1;
                                            n_held_total += 1;
                                        }
                                    } else if k * tick + lat_max > *step * tick && !recv_pos.contains_key(id) {
                                        status.insert(*id, St::DontCare);
                                    }
                                }
                            }
                        }
                    }
                    Kind::Release => {
                        group += 1;
                        let mut any = false;
                        for l in &links {
                            if held_links.remove(l) {
                                any = true;
                            }
                        }
                        if any {
                            cycles += 1;
                        }
                        let mut per_dir: BTreeMap<(P, usize, usize), usize> = BTreeMap::new();
                        for id in order.iter() {
                            if links.contains(&link_of(id.1, id.2)) && status[id] == St::Held {
                                status.insert(*id, St::Freed { at: *step, manual: false, group });
                                *per_dir.entry((id.0, id.1, id.2)).or_default() += 1;
                                held_since.remove(id);
                                freed.insert(*id, (*step, *by_host));
                                if *by_host {
                                    // may or may not still be listed after the step of the call
                                    optional_at.entry(*step).or_default().insert(*id);
                                }
                            }
                        }
                        max_held_per_dir = max_held_per_dir.max(per_dir.values().copied().max().unwrap_or(0));
                    }
                    _ => {}
                }
            }
        }
    }
    let _ = &held_since;

    // ---------------- rules on the final statuses
    let bound = 2u64;
    let mut checked_released = 0u64;
    for id in &order {
        let got = received_n.get(id).copied().unwrap_or(0);
        if got > 1 {
            out.fail("message-delivered-twice", format!("{id:?} received {got} times"));
            return out;
        }
        let st = status[id].clone();
        let proto = match id.0 {
            P::Udp => "udp",
            P::Tcp => "tcp",
            P::Syn => "syn",
        };
        match (id.0, st) {
            (P::Syn, St::Held) => {
                if let Some((true, _, _)) = probe_results.get(id) {
                    out.fail("tcp-connect-completed-while-link-held", format!("probe {id:?}"));
                    return out;
                }
            }
            (P::Syn, St::Freed { .. }) | (P::Syn, St::Normal) => {
                let at = if let St::Freed { at, .. } = status[id] { at } else { sent_step[id] };
                match probe_results.get(id) {
                    Some((true, _, _)) => {}
                    Some((false, kind, _)) => {
                        out.fail("tcp-connect-failed-on-healthy-or-released-link", format!("probe {id:?}: {kind} (freed/sent at step {at})"));
                        return out;
                    }
                    None => {
                        out.fail("tcp-connect-hangs-after-release", format!("probe {id:?} never returned (freed/sent at step {at})"));
                        return out;
                    }
                }
            }
            (P::Syn, _) => {}
            (_, St::Held) => {
                if got > 0 {
                    out.fail(format!("{proto}-received-while-link-held"), format!("{id:?} still held at the end but received"));
                    return out;
                }
            }
            (_, St::Freed { at, manual, .. }) => {
                checked_released += 1;
                let blocked = id.0 == P::Tcp
                    && order.iter().any(|o| o.0 == P::Tcp && o.1 == id.1 && o.2 == id.2 && o.3 < id.3 && matches!(status[o], St::Held | St::DontCare));
                match recv_pos.get(id) {
                    None if blocked => {}
                    None => {
                        out.fail(
                            format!("{proto}-{}-message-lost", if manual { "manually-delivered" } else { "released" }),
                            format!("{id:?} sent in step {} and freed at step {at} was never received", sent_step[id]),
                        );
                        return out;
                    }
                    Some((_, rstep)) => {
                        if id.0 == P::Udp && *rstep > at + bound {
                            out.fail(
                                format!("udp-{}-message-late", if manual { "manually-delivered" } else { "released" }),
                                format!("{id:?} freed at step {at}, received in step {rstep} (> {bound} steps later)"),
                            );
                            return out;
                        }
                    }
                }
            }
            (_, St::Normal) => {
                if got == 0 {
                    // TCP chunks can legitimately wait behind a held earlier chunk of their stream
                    let blocked = id.0 == P::Tcp
                        && order.iter().any(|o| o.0 == P::Tcp && o.1 == id.1 && o.2 == id.2 && o.3 < id.3 && matches!(status[o], St::Held | St::DontCare));
                    if !blocked {
                        out.fail(
                            format!("{proto}-message-lost-on-link-not-held"),
                            format!("{id:?} sent in step {} on a link that was not held was never received", sent_step[id]),
                        );
                        return out;
                    }
                }
            }
            (_, St::DontCare) => {}
        }
    }
    // order among messages freed together (same group), per direction, UDP
    let mut groups: BTreeMap<(usize, usize, usize), Vec<MsgId>> = BTreeMap::new();
    for id in &order {
        if id.0 != P::Udp {
            continue;
        }
        if let St::Freed { group, manual: false, .. } = status[id] {
            groups.entry((group, id.1, id.2)).or_default().push(*id);
        }
    }
    for ((_, _, _), ids) in &groups {
        // `order` is send order; receipt positions must be increasing
        let mut last = 0usize;
        for id in ids {
            if let Some((pos, _)) = recv_pos.get(id) {
                if *pos < last {
                    out.fail("released-together-arrived-out-of-send-order", format!("direction {}->{}: {ids:?}", id.1, id.2));
                    return out;
                }
                last = *pos;
            }
        }
    }
    // manual deliveries: received in the order they were delivered by hand (one per boundary)
    let mut manual_seq: Vec<(u64, MsgId)> = Vec::new();
    for ev in log.iter() {
        if let Ev::Manual { id, step } = ev {
            manual_seq.push((*step, *id));
        }
    }
    for w in manual_seq.windows(2) {
        let ((s0, a), (s1, b2)) = (&w[0], &w[1]);
        if s1 > s0 && a.0 == P::Udp && b2.0 == P::Udp && a.2 == b2.2 {
            if let (Some((pa, _)), Some((pb, _))) = (recv_pos.get(a), recv_pos.get(b2)) {
                if pa > pb {
                    out.fail("manual-deliveries-arrived-out-of-chosen-order", format!("{a:?} delivered at boundary {s0} arrived after {b2:?} delivered at boundary {s1}"));
                    return out;
                }
            }
        }
    }
    // nothing received that was never sent
    for id in received_n.keys() {
        if !status.contains_key(id) {
            out.fail("unsent-message-received", format!("{id:?}"));
            return out;
        }
    }

    // ---------------- iterator content (exact, fixed latency only)
    let mut snaps_checked = 0u64;
    if fixed {
        // expected listing after step m: held intervals + normal in-flight (k*tick + L > m*tick)
        for (m, shown) in &snaps {
            let mut expect: BTreeSet<MsgId> = BTreeSet::new();
            let mut optional: BTreeSet<MsgId> = optional_at.get(m).cloned().unwrap_or_default();
            for id in &order {
                if id.0 == P::Syn {
                    continue;
                }
                let k = sent_step[id];
                if k > *m {
                    continue;
                }
                if status[id] == St::DontCare {
                    optional.insert(*id);
                    continue;
                }
                let natural = k * tick + lat_min > *m * tick;
                let listed = match held_from.get(id) {
                    Some(hf) if *m >= *hf => match freed.get(id) {
                        None => true,
                        Some((at, by_host)) => {
                            if *by_host {
                                *m < *at
                            } else {
                                *m <= *at
                            }
                        }
                    },
                    Some(_) => natural,
                    None => match freed.get(id) {
                        // delivered by hand although its link was not held
                        Some((at, _)) => natural && *m <= *at,
                        None => natural,
                    },
                };
                if listed {
                    expect.insert(*id);
                }
            }
            let shown_set: BTreeSet<MsgId> = shown.iter().filter(|i| i.0 != P::Syn).copied().collect();
            if shown_set.len() != shown.iter().filter(|i| i.0 != P::Syn).count() {
                out.fail("links-iterator-lists-a-message-twice", format!("after step {m}: {shown:?}"));
                return out;
            }
            let missing: Vec<&MsgId> = expect.iter().filter(|i| !shown_set.contains(i) && !optional.contains(i)).collect();
            let extra: Vec<&MsgId> = shown_set.iter().filter(|i| !expect.contains(i) && !optional.contains(i)).collect();
            if !missing.is_empty() {
                out.fail("links-iterator-misses-in-flight-message", format!("after step {m}: missing {missing:?}; shown {shown_set:?}"));
                return out;
            }
            if !extra.is_empty() {
                out.fail("links-iterator-lists-message-not-in-flight", format!("after step {m}: extra {extra:?}; expected {expect:?}"));
                return out;
            }
            snaps_checked += 1;
        }
    }

    if host_issued {
        out.label("host-issued");
    }
    if manual_done > 0 {
        out.label("manual-delivery");
    }
    if cycles >= 2 {
        out.label("repeated-cycles");
    }
    if rehold > 0 {
        out.label("re-held-before-delivery");
    }
    if sc.tcp {
        out.label("tcp");
    }
    if !fixed {
        out.label("ranged-latency");
    }
    if sc.random_order {
        out.label("random-order");
    }
    if inflight_at_hold > 0 {
        out.label("in-flight-at-hold");
    }
    if sc.ctl.iter().any(|c| matches!(c.a, Sel::Regex(_)) || matches!(c.b, Sel::Regex(_))) {
        out.label("regex");
    }
    out.count("held messages", n_held_total);
    out.count("released/manually delivered messages checked", checked_released);
    out.count("iterator snapshots compared exactly", snaps_checked);
    out.count("manual deliveries", manual_done);
    out.nontrivial = max_held_per_dir >= 2 && inflight_at_hold >= 1 || (manual_done >= 1 && n_held_total >= 2);
    out
}

pub fn strategy() -> BoxedStrategy<Scenario> {
    let lat = prop_oneof![
        3 => (0u32..=10).prop_map(|v| (v, v)),
        1 => (0u32..=5, 1u32..=10).prop_map(|(a, d)| (a, a + d)),
    ];
    (
        (2usize..=4, 1u32..=4, lat, any::<u64>(), any::<bool>(), any::<bool>(), 8u32..=24, any::<bool>()),
        proptest::collection::vec((0u32..24, 0usize..4, 0usize..4), 0..4),
        proptest::collection::vec(
            (
                0u32..24,
                prop_oneof![2 => Just(None), 1 => (0usize..4).prop_map(Some)],
                prop_oneof![Just(Kind::Hold), Just(Kind::Release)],
                sel::strategy(),
                sel::strategy(),
            ),
            1..6,
        ),
        proptest::collection::vec((0u32..24, any::<u16>().prop_map(Pick::Index)), 0..4),
        prop_oneof![
            2 => Just(None),
            1 => proptest::collection::vec((0u32..24, 0usize..4, 0usize..4), 1..20).prop_map(Some),
        ],
    )
        .prop_map(
            |((nhosts, tick_ms, (lat_min, lat_max), seed, random_order, v6, traffic_steps, tcp), probes, ctl, manual, sends)| {
                let mut ctl: Vec<CtlEv> = ctl
                    .into_iter()
                    .map(|(step, by, kind, a, b)| CtlEv { step, by, kind, a, b })
                    .collect();
                // bias: most cases hold first and release the same selection later
                if seed % 4 != 0 {
                    let first = ctl[0].clone();
                    let s0 = first.step % (traffic_steps / 2).max(1);
                    let s1 = s0 + 1 + (seed as u32 >> 8) % (traffic_steps / 2).max(1);
                    ctl[0] = CtlEv { step: s0, kind: Kind::Hold, ..first.clone() };
                    ctl.push(CtlEv { step: s1, kind: Kind::Release, ..first.clone() });
                    if seed % 3 == 0 {
                        // release and hold again at the same boundary (no step in between), release later
                        ctl.push(CtlEv { step: s1, by: None, kind: Kind::Hold, ..first.clone() });
                        ctl.push(CtlEv { step: s1 + 2 + (seed as u32 >> 12) % 4, kind: Kind::Release, ..first });
                        let k = ctl.len();
                        ctl[k - 3].by = None;
                    }
                }
                ctl.sort_by_key(|c| c.step);
                Scenario {
                    nhosts,
                    tick_ms,
                    lat_min,
                    lat_max,
                    seed,
                    random_order,
                    v6,
                    traffic_steps,
                    tcp,
                    probes,
                    sends,
                    ctl,
                    manual,
                }
            },
        )
        .boxed()
}

/// k-permutations of 0..n
fn k_perms(n: usize) -> Vec<Vec<usize>> {
    fn rec(n: usize, cur: &mut Vec<usize>, out: &mut Vec<Vec<usize>>) {
        out.push(cur.clone());
        for i in 0..n {
            if !cur.contains(&i) {
                cur.push(i);
                rec(n, cur, out);
                cur.pop();
            }
        }
    }
    let mut out = Vec::new();
    rec(n, &mut Vec::new(), &mut out);
    out
}

/// Manual delivery of every subset x permutation of <= 4 held messages, for
/// several traffic shapes.
fn exhaustive_space(tier: Tier) -> Vec<Scenario> {
    // shapes: list of (step offset, src, dst) sends; hold at boundary 3 (so offset<=1 with latency 3 is in flight)
    // latency 3, tick 1: a message sent at offset 1 (step warm+2) is in flight at boundary warm+3.
    let mut shapes: Vec<(Vec<(u32, usize, usize)>, bool)> = vec![
        (vec![(1, 0, 1), (4, 0, 1), (5, 0, 1), (6, 0, 1)], false),
        (vec![(1, 0, 1), (4, 1, 0), (5, 0, 1), (5, 1, 0)], false),
        (vec![(1, 1, 0), (2, 0, 1), (4, 0, 1), (4, 1, 0)], false),
        (vec![(4, 0, 1), (5, 0, 1)], true),
        (vec![(1, 0, 1), (4, 0, 1), (4, 0, 2)], false),
        (vec![(2, 0, 1), (2, 1, 0), (4, 2, 1)], true),
    ];
    if tier == Tier::Thorough {
        for a in 0..3usize {
            for b in 0..3usize {
                if a == b {
                    continue;
                }
                for off in [1u32, 2, 4] {
                    shapes.push((vec![(off, a, b), (off + 1, b, a), (5, a, b), (6, a, b)], (a + b) % 2 == 0));
                    shapes.push((vec![(off, a, b), (4, a, b), (5, b, a)], off == 2));
                }
            }
        }
    }
    let mut out = Vec::new();
    for (si, (sends, tcp)) in shapes.iter().enumerate() {
        // how many messages end up held on link (0,1)? at most 4 on that link (UDP) (+TCP chunks when tcp)
        let held: Vec<(bool, usize, usize)> = sends
            .iter()
            .filter(|(_, s, d)| (s.min(d), s.max(d)) == (&0, &1))
            .map(|(_, s, d)| (true, *s, *d))
            .collect();
        let nheld = held.len().min(4);
        for perm in k_perms(nheld) {
            // manual picks refer to "n-th shown message of a direction"; translate the
            // permutation into successive picks, accounting for earlier removals
            let mut remaining: Vec<usize> = (0..nheld).collect();
            let mut manual = Vec::new();
            for (i, p) in perm.iter().enumerate() {
                let (udp, s, d) = held[*p];
                let nth = remaining.iter().filter(|r| **r < *p && held[**r].1 == s && held[**r].2 == d).count() as u32;
                manual.push((8 + i as u32, Pick::Nth(udp, s, d, nth)));
                remaining.retain(|r| r != p);
            }
            out.push(Scenario {
                nhosts: 3,
                tick_ms: 1,
                lat_min: 3,
                lat_max: 3,
                seed: si as u64,
                random_order: false,
                v6: si % 2 == 1,
                traffic_steps: 20,
                tcp: *tcp,
                probes: if *tcp { vec![(5, 0, 1)] } else { vec![] },
                sends: Some(sends.clone()),
                ctl: vec![
                    CtlEv { step: 3, by: None, kind: Kind::Hold, a: Sel::Name(0), b: if si % 3 == 0 { Sel::Regex(vec![1]) } else { Sel::Ip(1) } },
                    CtlEv { step: 14, by: None, kind: Kind::Release, a: Sel::Name(1), b: Sel::Name(0) },
                ],
                manual,
            });
        }
    }
    out
}

/// Clamp a structurally decoded scenario into the generator's domain (fuzz tier).
pub fn fuzz_sanitize(sc: &mut Scenario) -> bool {
    sc.nhosts = 2 + sc.nhosts % 3;
    sc.tick_ms = 1 + sc.tick_ms % 4;
    sc.lat_min %= 7;
    sc.lat_max = sc.lat_min + sc.lat_max % 13;
    sc.traffic_steps = 8 + sc.traffic_steps % 17;
    sc.probes.truncate(4);
    for p in sc.probes.iter_mut() {
        p.0 %= 24;
        p.1 %= 4;
        p.2 %= 4;
    }
    let fix_sel = |s: &mut Sel| match s {
        Sel::Name(i) | Sel::Ip(i) => *i %= 4,
        Sel::Regex(v) => {
            v.truncate(3);
            for i in v.iter_mut() {
                *i %= 4;
            }
            if v.is_empty() {
                v.push(0);
            }
        }
    };
    for c in sc.ctl.iter_mut() {
        c.step %= 24;
        c.by = c.by.map(|h| h % 4);
        fix_sel(&mut c.a);
        fix_sel(&mut c.b);
    }
    for m in sc.manual.iter_mut() {
        m.0 %= 24;
    }
    sc.manual.truncate(4);
    if let Some(v) = sc.sends.as_mut() {
        for x in v.iter_mut() {
            x.0 %= 24;
            x.1 %= 4;
            x.2 %= 4;
        }
    }
    sc.ctl.retain(|c| matches!(c.kind, Kind::Hold | Kind::Release));
    sc.ctl.truncate(7);
    sc.ctl.sort_by_key(|c| c.step);
    !sc.ctl.is_empty()
}

fn check(tier: Tier, seed: u64) -> i32 {
    let ctx = Ctx::new("C08", tier, seed, "fault_enumeration");
    ctx.replay_corpus(&replay);
    let space = exhaustive_space(tier);
    let desc = format!(
        "{} scenarios: for each traffic shape with k <= 4 UDP messages held on link h0-h1 (some in flight at the hold), every subset x permutation of the held messages (sum P(k,j)) is delivered by hand one per step through Sim::links/SentRef::deliver, then the rest released",
        space.len()
    );
    ctx.exhaustive("manual-subsets-x-permutations", &desc, Box::new(space.into_iter()), &run);
    ctx.random("random", tier.pick(16_000, 200_000), &|| strategy(), &run);
    ctx.finish(
        "bounded-exhaustive manual delivery of every subset x permutation of <= 4 held messages over several traffic shapes, plus random scenarios (2-4 hosts, hold/release calls by name/IP/regex from the Sim handle and from host code, repeated cycles, UDP on every ordered pair or a generated send plan, optional TCP streams and connect probes, manual deliveries by index, fixed or ranged latency, random host order). Model: per link a held set = Sim::links snapshot at the hold + messages sent while held; checks: nothing of it received while held, after release/manual delivery each received exactly once within 2 steps and in send order per direction, other links keep delivering, and (fixed latency) Sim::links after every step lists exactly the messages the model says are in flight. Non-trivial = (>=2 held messages in one direction released together and >=1 in flight at the hold) or (a manual delivery with >=2 held messages). Distinct by scenario hash.",
        &[
            "fail_rate = 0; partitions are not combined with holds (documented as unsupported)",
            "for host-issued holds under a ranged latency, messages that may or may not have been in flight are neither required nor forbidden",
            "messages released by a host-side call may or may not still be listed by the iterator at the end of that same step",
        ],
    )
}

fn replay(_sub: &str, v: &Value) -> Result<Outcome, String> {
    replay_as::<Scenario>(v, &run)
}

//! C13 — turmoil-net connections open, close and are reclaimed like TCP.
//! DESIGN.md §6 C13.  NetWire driver, controller flavour (`netwire_ext`).
//!
//! The check holds every socket object itself.  A scenario is a flat list of
//! actions on two hosts (listen / drop listener / start a connect / cancel it
//! / poll accept once / try_write / try_read / shutdown / drop / run n wire
//! rounds / quiesce), a `KernelConfig` (retransmit threshold and budget,
//! backlog), a tiny ephemeral range per host (hook H3) and a fate plan for
//! the packets emitted while the actions run.
//!
//! Clauses
//!
//! * CONNECT  `Ok` only if a matching listener existed at the destination at
//!            some time during the attempt; `ConnectionRefused` never while a
//!            matching listener was there during the whole attempt;
//!            on runs without loss and with bounded delay ("live-safe"), for
//!            attempts over a 4-tuple that is not burdened by an earlier
//!            incarnation: no listener at all -> `ConnectionRefused`; listener
//!            there throughout and the backlog model says the SYN found room
//!            -> `Ok`; every delivered SYN found the backlog full -> `TimedOut`;
//!            an immediate failure for lack of a source port (`AddrInUse`, or
//!            `AddrNotAvailable` = Linux EADDRNOTAVAIL: the property does not
//!            name the kind) only when the ephemeral range is exhausted, and it
//!            leaves no socket behind (RECLAIM counts); no other
//!            error kind; a connect always resolves once the wire is quiet.
//! * BACKLOG  on live-safe runs the number of connections a listener has
//!            handed to connectors (`Ok`, still open) but not yet to `accept`
//!            never exceeds the backlog.
//! * ACCEPT   every accepted stream pairs with exactly one connect attempt
//!            (mirrored local/peer addresses, never the same attempt twice,
//!            handed out by a listener matching the destination); bytes read
//!            on either end are a prefix of what the paired end wrote (the
//!            payload pattern is keyed by the attempt, so this is the nonce);
//!            `Ok(0)` only after the peer closed its write side and
//!            everything written was read.
//! * RECLAIM  at every quiescence point (all packets delivered, wire idle for
//!            Q = retx_threshold*(retx_max+2) rounds): H2 counts lie between
//!            the objects the script still holds and that plus what may
//!            legitimately linger (queued children of live listeners, halves
//!            whose peer is still open).  At the end every listener is drained
//!            and every object dropped; after quiescence H2 must be (0,0,0) on
//!            both hosts.  Then every port that was used is bound again and a
//!            connection is opened over every 4-tuple that was used (hook H3
//!            pins the client port); all must succeed.
//!
//! Quiescence re-certification (`recertify_listeners`): while packets are in flight the backlog
//! model keeps bounds and taints a listener whenever a handshake ends in a way it does not follow
//! (cancelled connect, duplicate SYN ...).  At every quiescence point no half-open child can exist
//! any more, so each live listener's occupancy is re-derived exactly (attempts that never returned
//! `Ok` occupy nothing) and the taint is lifted: a listener that has seen any number of aborted
//! handshakes must afterwards admit a plain connect whenever `occupancy < backlog`.  `calm_after`
//! ends a lossy plan at a quiescence point so that this is also judged after black-holed / lossy
//! eras.  Subs `recovery` (random) and `recovery-family` (exhaustive) generate k >= backlog aborted
//! handshakes on one listener, quiescence, then plain connects.
//!
//! Known findings (tolerated only while `is_known("F-C13-n")`, i.e. status "known" in
//! `known_findings.json`; `replays/C13/known-F-C13-n-*.json` are
//! the probe scenarios, run with `strict: true` through sub `probe-F-C13-n`, which gives their
//! failure the dedicated signature `F-C13-n:<clause>`):
//!
//! * F-C13-1  a child aborted while still SYN_RCVD (RST from a cancelled connector, SYN-ACK
//!            retransmissions exhausted) is never reaped: socket + binding + 4-tuple entry leak;
//! * F-C13-2  an orphaned FIN_WAIT2 socket has no timer: if the peer's FIN/RST never comes it
//!            stays for ever;
//! * F-C13-3  SYN_SENT accepts any SYN-ACK (no check that it acknowledges its SYN): segments of
//!            an older incarnation of a reused 4-tuple establish a bogus connection;
//! * F-C13-4  the backlog of a wildcard listener counts half-open children per destination
//!            address;
//! * F-C13-5  closing a wildcard listener resets the half-open children of the other address
//!            family's listener on the same port.
//!
//! The random tier tolerates exactly the residue / results the model attributes to these (and
//! counts them with `Outcome::exclude`), everything else in the same case is still judged.

use crate::drivers::netwire::{self as nw, Fate, FatePlan, Kind, PktRec, SockRow, TableWire, Tracker};
use crate::drivers::netwire_ext::{now_or_never, poll_once, AllNow, Held, Policy, World};
use crate::engine::{replay_as, Ctx, Outcome, Tier};
use proptest::prelude::*;
use serde::{Deserialize, Serialize};
use serde_json::Value;
use std::collections::{BTreeMap, BTreeSet};
use std::future::Future;
use std::net::{IpAddr, Ipv4Addr, Ipv6Addr, SocketAddr};
use std::pin::Pin;
use std::task::Poll;
use turmoil_net::shim::tokio::net::{TcpListener, TcpStream};
use turmoil_net::KernelConfig;

pub const PROP: super::Prop = super::Prop { id: "C13", level: "exploration", check, replay };

/// `true` while `known_findings.json` (under `VERIF_ROOT`) lists `id` for property C13 with status
/// "known".  Every tolerance below exists because of one of F-C13-1..5 and is active only while
/// that finding is *known*: the residue / result the model attributes to it is then skipped and
/// counted (`Outcome::exclude`).  An entry with status "fixed" (or no entry) suppresses nothing:
/// the random search asserts the full clause again and reports the natural signature if the
/// defect returns; the probe replay stays in the corpus as a regression test.
pub fn is_known(id: &str) -> bool {
    static KNOWN: std::sync::OnceLock<Vec<String>> = std::sync::OnceLock::new();
    KNOWN
        .get_or_init(|| {
            crate::engine::load_findings()
                .into_iter()
                .filter(|f| f.property == "C13" && f.status == "known")
                .map(|f| f.id)
                .collect()
        })
        .iter()
        .any(|k| k == id)
}

const PORTS: [u16; 2] = [7000, 7001];
const EPH_BASE: u16 = 7100;
const NHOSTS: usize = 2;
const MAX_LISTENERS: usize = 3;
const MAX_CONNS: usize = 8;

#[derive(Clone, Copy, Debug, Serialize, Deserialize, PartialEq)]
pub enum BindTo {
    Any,
    Host,
    Lo,
}

#[derive(Clone, Debug, Serialize, Deserialize, PartialEq)]
pub enum Act {
    Listen { h: u8, port: u8, bind: BindTo, v6: bool },
    DropListener { h: u8, l: u8 },
    /// `to`: None = own loopback, Some(t) = the routable address of host t
    Connect { h: u8, to: Option<u8>, port: u8, v6: bool },
    /// connect to the l-th live listener (of any host) from its own host (`same`) or from the other one;
    /// a wildcard listener is reached through the host address, or through loopback when `same && lo`
    ConnectL { l: u8, same: bool, lo: bool },
    /// drop a connect future that is still pending
    Cancel { h: u8, c: u8 },
    /// poll `accept` once
    Accept { h: u8, l: u8 },
    Write { h: u8, c: u8, n: u8 },
    Read { h: u8, c: u8, n: u8 },
    Shutdown { h: u8, c: u8 },
    Drop { h: u8, c: u8 },
    Rounds { n: u8 },
    /// deliver everything, wait until the wire is idle, check the counts
    Quiesce,
}

#[derive(Clone, Debug, Serialize, Deserialize, PartialEq)]
pub struct Scenario {
    pub retx_threshold: u32,
    pub retx_max: u32,
    pub backlog: u32,
    /// ephemeral range of host h = EPH_BASE ..= EPH_BASE + eph_len[h] - 1
    pub eph_len: [u16; 2],
    pub acts: Vec<Act>,
    pub plan: FatePlan,
    /// also drop RST segments when the plan says so (otherwise a planned drop of a RST is delivered)
    #[serde(default)]
    pub drop_rst: bool,
    /// no tolerance for known findings (probe scenarios)
    #[serde(default)]
    pub strict: bool,
    /// `Some(n)`: the fate plan (holds, drops, black-hole) applies only up to the n-th `Quiesce`
    /// action (n >= 1); from that quiescence point on every packet is delivered in the round it is
    /// emitted (the *calm era*).  Connects started in the calm era are judged by the liveness half
    /// of the CONNECT clause even when the plan as a whole is not live-safe: whatever the faulty
    /// era did to earlier handshakes, once the wire has been quiet a reachable listener with
    /// backlog room must accept.
    #[serde(default)]
    pub calm_after: Option<u8>,
}

// ---------------------------------------------------------------- model types

type ConnFut = Pin<Box<dyn Future<Output = std::io::Result<TcpStream>>>>;

enum Obj {
    Pending(Held<ConnFut>),
    Stream(Held<TcpStream>),
    Gone,
}

struct Conn {
    obj: Obj,
    att: usize,
    client: bool,
    /// pairing with the attempt is not unique: content checks are skipped
    ambiguous: bool,
    wr_closed: bool,
    roff: u64,
}

#[derive(Clone, Copy, Debug, PartialEq)]
enum Res {
    Pending,
    Ok,
    Err(std::io::ErrorKind),
    Cancelled,
}

#[derive(Clone, Copy, Debug, PartialEq)]
enum Adm {
    No,
    Maybe,
    Must,
}

#[derive(Debug)]
struct Attempt {
    host: usize,
    dst: SocketAddr,
    dst_host: usize,
    /// destination is local to the connecting host: the whole exchange is folded inside egress
    folded: bool,
    local: Option<SocketAddr>,
    start: u32,
    result: Res,
    /// 4-tuple not burdened by an earlier incarnation
    fresh: bool,
    listener_all: bool,
    listener_any: bool,
    adm: Adm,
    /// every SYN delivery so far found the backlog certainly full
    all_rejected: bool,
    syn_deliveries: u32,
    /// a SYN reached a live matching listener (a child may exist)
    may_have_child: bool,
    lst: Option<usize>,
    accepted: bool,
    /// the accepted stream was dropped by the server / the listener went away after admission
    server_ended: bool,
    client_ended: bool,
    /// client stream still held and connect returned Ok
    client_open: bool,
    client_wr_closed: bool,
    server_wr_closed: bool,
    wrote: [u64; 2],
    leak_allow: u32,
    retired_at_quiesce: bool,
    /// folded attempt whose first egress pass has not happened yet
    folded_pending_first_pass: bool,
    /// segments of another incarnation of the same 4-tuple reached this one (or vice versa)
    crossed: bool,
    isn: Option<u32>,
    /// round of the first shutdown/drop of the client / server stream
    close_round: [Option<u32>; 2],
    /// the client / server stream reported TimedOut when it was dropped: its kernel socket had
    /// given up silently (no FIN, no RST leaves on close)
    gave_up: [bool; 2],
    /// F-C13-5: a wildcard listener of the other family on the same port was closed while this
    /// attempt's child could still be half-open
    f5: bool,
    /// its half-open child was removed by the close of its listener while the connector kept going
    disturbed: bool,
    /// admitted so late that the SYN-ACK may miss the connector's last retransmit window
    late_admit: bool,
    /// started in the calm era (after the plan was switched off at a quiescence point)
    calm: bool,
}

struct Lst {
    obj: Option<Held<TcpListener>>,
    host: usize,
    local: SocketAddr,
    occ_lo: i64,
    occ_hi: i64,
    tainted: bool,
    /// distinct destination addresses of the SYNs that reached this listener
    dst_ips: BTreeSet<IpAddr>,
    /// F-C13-4: a wildcard listener counts half-open children per destination address
    multi_addr: bool,
    /// handshakes to this listener that reached it and were aborted (connect never returned Ok),
    /// as of the last quiescence point at which its occupancy was re-certified exactly
    aborted_seen: u32,
}

struct PlanPol<'a> {
    tw: TableWire<'a>,
    active: bool,
    drop_rst: bool,
    dropped_rst: Vec<usize>,
    drops: u32,
    holds: u32,
}
impl Policy for PlanPol<'_> {
    fn fate(&mut self, rec: &PktRec, _tr: &Tracker) -> Fate {
        if !self.active {
            return Fate::Now;
        }
        let f = if rec.kind == Kind::Rst && !self.drop_rst { self.tw.decide_no_drop(rec) } else { self.tw.decide(rec) };
        match f {
            Fate::Drop => {
                self.drops += 1;
                if rec.kind == Kind::Rst {
                    self.dropped_rst.push(rec.id);
                }
            }
            Fate::Hold(_) => self.holds += 1,
            Fate::Now => {}
        }
        f
    }
    fn order(&mut self, ids: &mut Vec<usize>, _pkts: &[PktRec]) {
        if self.active {
            self.tw.reorder(ids);
        }
    }
}

fn wildcard(v6: bool) -> IpAddr {
    if v6 {
        Ipv6Addr::UNSPECIFIED.into()
    } else {
        Ipv4Addr::UNSPECIFIED.into()
    }
}

fn key_of(att: usize, from_client: bool) -> u8 {
    ((att * 2 + from_client as usize) & 0xff) as u8
}

/// Largest per-packet hold with which a loss-free handshake is certain to
/// finish before either side runs out of retransmissions.
pub fn h_live(t: u32, m: u32) -> u32 {
    ((m + 1) * t).saturating_sub(3) / 2
}

pub fn live_safe(sc: &Scenario) -> bool {
    let p = &sc.plan;
    let any_drop = p.by_id.iter().any(|f| *f == Fate::Drop) || p.by_kind.iter().any(|(_, _, f)| *f == Fate::Drop);
    let any_hold = p.by_id.iter().any(|f| matches!(f, Fate::Hold(_))) || p.by_kind.iter().any(|(_, _, f)| matches!(f, Fate::Hold(_)));
    p.blackhole.is_none()
        && (!any_drop || p.max_drops == 0)
        && (!any_hold || p.max_hold <= h_live(sc.retx_threshold, sc.retx_max))
}

struct Sim<'a> {
    sc: &'a Scenario,
    live_safe: bool,
    tol1: bool,
    tol2: bool,
    tol3: bool,
    tol4: bool,
    tol5: bool,
    conns: Vec<Vec<Conn>>,
    lsts: Vec<Lst>,
    atts: Vec<Attempt>,
    out: Outcome,
    failed: bool,
    pol: PlanPol<'a>,
    /// (local, dst) -> last attempt over it
    tuples: BTreeMap<(usize, SocketAddr, SocketAddr), usize>,
    used_ports: BTreeSet<(usize, bool, u16)>,
    /// (src, dst, isn) of a SYN -> attempt
    syn_owner: BTreeMap<(SocketAddr, SocketAddr, u32), usize>,
    seen_pkts: usize,
    quiesce_no: u32,
    /// `Quiesce` actions executed so far / the plan has been switched off (`Scenario::calm_after`)
    quiesce_acts: u32,
    calm: bool,
    nontrivial: bool,
    trace: bool,
    world: World,
}

impl<'a> Sim<'a> {
    fn fail(&mut self, sig: &str, detail: String) {
        if !self.failed {
            self.failed = true;
            self.out.fail(sig, detail);
        }
    }

    fn q(&self) -> u32 {
        self.sc.retx_threshold.max(1) * (self.sc.retx_max + 2)
    }

    fn addr(&self, h: usize, v6: bool) -> IpAddr {
        nw::host_ip(h, v6)
    }

    fn matching_listener(&self, dst_host: usize, dst: SocketAddr) -> Option<usize> {
        // exact address first, then wildcard (they cannot coexist on one port)
        let mut wild = None;
        for (i, l) in self.lsts.iter().enumerate() {
            if l.obj.is_none() || l.host != dst_host || l.local.port() != dst.port() || l.local.is_ipv4() != dst.is_ipv4() {
                continue;
            }
            if l.local.ip() == dst.ip() {
                return Some(i);
            }
            if l.local.ip().is_unspecified() {
                wild = Some(i);
            }
        }
        wild
    }

    fn row_for(&self, h: usize, local: SocketAddr, peer: SocketAddr) -> Option<SockRow> {
        self.world.rows(h).into_iter().find(|r| r.tcp && r.local == local && r.peer == Some(peer))
    }

    fn live_conn(&self, h: usize, c: u8) -> Option<usize> {
        let live: Vec<usize> = self.conns[h].iter().enumerate().filter(|(_, c)| !matches!(c.obj, Obj::Gone)).map(|(i, _)| i).collect();
        if live.is_empty() {
            None
        } else {
            Some(live[c as usize % live.len()])
        }
    }
    fn live_lst(&self, h: usize, l: u8) -> Option<usize> {
        let live: Vec<usize> = self.lsts.iter().enumerate().filter(|(_, x)| x.host == h && x.obj.is_some()).map(|(i, _)| i).collect();
        if live.is_empty() {
            None
        } else {
            Some(live[l as usize % live.len()])
        }
    }

    // ------------------------------------------------------------ actions

    fn act(&mut self, a: &Act) {
        if self.trace {
            eprintln!("[r{}] ACT {:?}", self.world.round, a);
        }
        self.act_inner(a);
        if self.trace {
            for h in 0..NHOSTS {
                eprintln!("      host {h} counts {:?} rows {:?}", self.world.counts(h), self.world.rows(h).iter().map(|r| format!("{}<-{:?} {} rq{} sq{}", r.local, r.peer, r.state.unwrap_or("-"), r.recv_q, r.send_q)).collect::<Vec<_>>());
            }
        }
    }

    fn act_inner(&mut self, a: &Act) {
        match a {
            Act::Listen { h, port, bind, v6 } => self.listen(*h as usize % NHOSTS, PORTS[*port as usize % PORTS.len()], *bind, *v6),
            Act::DropListener { h, l } => {
                let h = *h as usize % NHOSTS;
                if let Some(i) = self.live_lst(h, *l) {
                    self.drop_listener(i);
                }
            }
            Act::Connect { h, to, port, v6 } => {
                let h = *h as usize % NHOSTS;
                let ip = match to {
                    None => nw::lo_ip(*v6),
                    Some(t) => self.addr(*t as usize % NHOSTS, *v6),
                };
                self.connect(h, SocketAddr::new(ip, PORTS[*port as usize % PORTS.len()]));
            }
            Act::ConnectL { l, same, lo } => {
                let live: Vec<usize> = self.lsts.iter().enumerate().filter(|(_, x)| x.obj.is_some()).map(|(i, _)| i).collect();
                if live.is_empty() {
                    self.out.label("connectl:no-listener");
                    return;
                }
                let li = live[*l as usize % live.len()];
                let (lh, la) = (self.lsts[li].host, self.lsts[li].local);
                let h = if *same { lh } else { (lh + 1) % NHOSTS };
                let ip = if la.ip().is_unspecified() {
                    if *same && *lo {
                        nw::lo_ip(la.is_ipv6())
                    } else {
                        self.addr(lh, la.is_ipv6())
                    }
                } else {
                    la.ip()
                };
                self.connect(h, SocketAddr::new(ip, la.port()));
            }
            Act::Cancel { h, c } => {
                let h = *h as usize % NHOSTS;
                // prefer a pending connect
                let pend: Vec<usize> = self.conns[h].iter().enumerate().filter(|(_, c)| matches!(c.obj, Obj::Pending(_))).map(|(i, _)| i).collect();
                if !pend.is_empty() {
                    let i = pend[*c as usize % pend.len()];
                    self.cancel(h, i);
                } else {
                    self.out.label("cancel:nothing-pending");
                }
            }
            Act::Accept { h, l } => {
                let h = *h as usize % NHOSTS;
                if let Some(i) = self.live_lst(h, *l) {
                    self.accept(i);
                }
            }
            Act::Write { h, c, n } => {
                let h = *h as usize % NHOSTS;
                if let Some(i) = self.live_conn(h, *c) {
                    self.write(h, i, (*n).max(1) as usize);
                }
            }
            Act::Read { h, c, n } => {
                let h = *h as usize % NHOSTS;
                if let Some(i) = self.live_conn(h, *c) {
                    self.read(h, i, (*n).max(1) as usize);
                }
            }
            Act::Shutdown { h, c } => {
                let h = *h as usize % NHOSTS;
                if let Some(i) = self.live_conn(h, *c) {
                    self.shutdown(h, i);
                }
            }
            Act::Drop { h, c } => {
                let h = *h as usize % NHOSTS;
                if let Some(i) = self.live_conn(h, *c) {
                    if matches!(self.conns[h][i].obj, Obj::Pending(_)) {
                        self.cancel(h, i);
                    } else {
                        self.drop_stream(h, i, "drop");
                    }
                }
            }
            Act::Rounds { n } => {
                for _ in 0..(*n).clamp(1, 8) {
                    self.round();
                    if self.failed {
                        return;
                    }
                }
            }
            Act::Quiesce => {
                self.quiesce("mid");
                if !self.failed {
                    self.check_counts_range("mid");
                }
                self.quiesce_acts += 1;
                if !self.failed && !self.calm && self.sc.calm_after.map(|n| n.max(1) as u32) == Some(self.quiesce_acts) {
                    // the faulty era ends here: from now on the wire delivers everything at once
                    self.calm = true;
                    self.pol.active = false;
                    self.out.label("era:calm-after-quiescence");
                }
            }
        }
    }

    fn listen(&mut self, h: usize, port: u16, bind: BindTo, v6: bool) {
        if self.lsts.iter().filter(|l| l.host == h && l.obj.is_some()).count() >= MAX_LISTENERS {
            return;
        }
        let ip = match bind {
            BindTo::Any => wildcard(v6),
            BindTo::Host => self.addr(h, v6),
            BindTo::Lo => nw::lo_ip(v6),
        };
        let sa = SocketAddr::new(ip, port);
        self.world.pin(h);
        match now_or_never(TcpListener::bind(sa)) {
            Some(Ok(l)) => {
                let local = l.local_addr().unwrap_or(sa);
                if local != sa {
                    let d = format!("bound {sa} but local_addr() = {local}");
                    self.fail("listen:local-addr-differs-from-bound-address", d);
                }
                self.lsts.push(Lst { obj: Some(self.world.hold(h, l)), host: h, local: sa, occ_lo: 0, occ_hi: 0, tainted: false, dst_ips: BTreeSet::new(), multi_addr: false, aborted_seen: 0 });
                self.used_ports.insert((h, v6, port));
                self.out.label("listen:ok");
                // pending attempts that now have a listener
                let li = self.lsts.len() - 1;
                for i in 0..self.atts.len() {
                    let a = &self.atts[i];
                    if a.result == Res::Pending && a.dst_host == h && self.listener_matches(li, a.dst) {
                        let folded = a.folded;
                        self.atts[i].listener_any = true;
                        if folded {
                            // its retransmitted SYNs are invisible: it may take a slot at any time
                            let ip = self.atts[i].dst.ip();
                            self.lsts[li].dst_ips.insert(ip);
                            self.lsts[li].occ_hi += 1;
                            self.lsts[li].tainted = true;
                            self.atts[i].may_have_child = true;
                        }
                    }
                }
            }
            Some(Err(e)) => {
                self.out.label(format!("listen:err:{:?}", e.kind()));
            }
            None => self.fail("listen:bind-future-pending", format!("TcpListener::bind({sa}) did not complete at once")),
        }
    }

    fn listener_matches(&self, li: usize, dst: SocketAddr) -> bool {
        let l = &self.lsts[li];
        l.local.port() == dst.port() && l.local.is_ipv4() == dst.is_ipv4() && (l.local.ip() == dst.ip() || l.local.ip().is_unspecified())
    }

    fn drop_listener(&mut self, li: usize) {
        let h = self.lsts[li].host;
        let queued = self.world.rows(h).iter().find(|r| r.tcp && r.state == Some("LISTEN") && r.local == self.lsts[li].local).map(|r| r.recv_q).unwrap_or(0);
        self.out.label(format!("droplistener:queued={}", queued.min(3)));
        let obj = self.lsts[li].obj.take();
        drop(obj);
        let (lport, lv4, lwild) = (self.lsts[li].local.port(), self.lsts[li].local.is_ipv4(), self.lsts[li].local.ip().is_unspecified());
        if lwild && self.tol5 {
            for i in 0..self.atts.len() {
                let a = &self.atts[i];
                if a.dst_host == h && a.dst.port() == lport && a.dst.is_ipv4() != lv4 && !a.accepted && !a.server_ended && (a.result == Res::Pending || a.may_have_child) {
                    self.atts[i].f5 = true;
                    if let Some(l2) = self.atts[i].lst {
                        self.lsts[l2].tainted = true;
                    }
                }
            }
        }
        for i in 0..self.atts.len() {
            let matches = self.atts[i].dst_host == h && self.listener_matches(li, self.atts[i].dst);
            if !matches {
                continue;
            }
            if self.atts[i].result == Res::Pending {
                self.atts[i].listener_all = false;
            }
            if self.atts[i].lst == Some(li) && !self.atts[i].accepted {
                // queued or half-open child: reset and removed by the listener's close
                if self.atts[i].result == Res::Pending {
                    if self.atts[i].adm != Adm::No {
                        self.nontrivial = true; // listener dropped under a half-open connection
                        self.out.label("droplistener:with-half-open-child");
                    }
                    // the connector keeps retrying: a later listener on the port may still take it
                    // (while the SYN-ACK and the RST of the removed child are still on their way)
                    self.atts[i].disturbed = self.atts[i].disturbed || self.atts[i].adm != Adm::No;
                    self.atts[i].adm = Adm::No;
                    self.atts[i].lst = None;
                    self.atts[i].all_rejected = false;
                } else {
                    self.atts[i].server_ended = true;
                }
            }
        }
    }

    fn connect(&mut self, h: usize, dst: SocketAddr) {
        if self.conns[h].iter().filter(|c| !matches!(c.obj, Obj::Gone)).count() >= MAX_CONNS {
            return;
        }
        let (dst_host, folded) = if dst.ip().is_loopback() { (h, true) } else { (self.world.owner(dst.ip()).unwrap(), self.world.owner(dst.ip()) == Some(h)) };
        let before: Vec<SockRow> = self.world.rows(h);
        self.world.pin(h);
        let mut fut: ConnFut = Box::pin(TcpStream::connect(dst));
        let first = poll_once(fut.as_mut());
        let lm = self.matching_listener(dst_host, dst);
        let mut att = Attempt {
            host: h,
            dst,
            dst_host,
            folded,
            local: None,
            start: self.world.round,
            result: Res::Pending,
            fresh: true,
            listener_all: lm.is_some(),
            listener_any: lm.is_some(),
            adm: Adm::No,
            all_rejected: true,
            syn_deliveries: 0,
            may_have_child: false,
            lst: None,
            accepted: false,
            server_ended: false,
            client_ended: false,
            client_open: false,
            client_wr_closed: false,
            server_wr_closed: false,
            wrote: [0, 0],
            leak_allow: 0,
            retired_at_quiesce: false,
            folded_pending_first_pass: folded,
            crossed: false,
            isn: None,
            late_admit: false,
            disturbed: false,
            f5: false,
            close_round: [None, None],
            gave_up: [false, false],
            calm: self.calm,
        };
        let id = self.atts.len();
        match first {
            Poll::Ready(Ok(s)) => {
                // a handshake needs at least one egress pass
                drop(self.world.hold(h, s));
                self.fail("connect:ok-before-any-packet-was-exchanged", format!("connect({dst}) from host {h} returned Ok on its first poll"));
                return;
            }
            Poll::Ready(Err(e)) => {
                drop(fut);
                att.result = Res::Err(e.kind());
                att.client_ended = true;
                self.out.label(format!("connect:immediate-err:{:?}", e.kind()));
                // The only legitimate immediate failure is "no ephemeral port free for the implicit
                // bind".  The property does not name its error kind: AddrInUse (the port space is
                // used up) and AddrNotAvailable (Linux connect(2): EADDRNOTAVAIL) are both admitted
                // (every host owns an address of either family, so AddrNotAvailable cannot mean
                // "no source address").  That the range IS exhausted is asserted for both.
                if matches!(e.kind(), std::io::ErrorKind::AddrInUse | std::io::ErrorKind::AddrNotAvailable) {
                    self.check_exhausted(h, dst.is_ipv6(), dst, e.kind());
                } else {
                    self.fail("connect:unexpected-immediate-error", format!("connect({dst}) from host {h}: {e:?}"));
                }
                self.atts.push(att);
                return;
            }
            Poll::Pending => {}
        }
        // the new SYN_SENT row tells the local address
        let after = self.world.rows(h);
        let new: Vec<&SockRow> = after
            .iter()
            .filter(|r| r.tcp && r.peer == Some(dst) && r.state == Some("SYN_SENT") && !before.iter().any(|b| b.tcp && b.local == r.local && b.peer == r.peer))
            .collect();
        if new.len() != 1 {
            let d = format!("after starting connect({dst}) on host {h}: {} new SYN_SENT rows; netstat {:?}", new.len(), after);
            drop(self.world.hold(h, fut));
            self.fail("connect:pending-connect-has-no-unique-syn-sent-row", d);
            return;
        }
        let local = new[0].local;
        att.local = Some(local);
        let exp_ip = if dst.ip().is_loopback() { nw::lo_ip(dst.is_ipv6()) } else { self.addr(h, dst.is_ipv6()) };
        let lo = EPH_BASE;
        let hi = EPH_BASE + self.sc.eph_len[h] - 1;
        if local.ip() != exp_ip || local.port() < lo || local.port() > hi {
            let d = format!("connect({dst}) on host {h} uses local {local}; expected address {exp_ip} and a port in {lo}..={hi}");
            self.fail("connect:local-address-outside-host-or-ephemeral-range", d);
        }
        // another live socket of this host must not already own that local endpoint towards the same peer
        self.used_ports.insert((h, dst.is_ipv6(), local.port()));
        if self.tuples.contains_key(&(h, local, dst)) {
            // EVERY earlier incarnation of the 4-tuple must be over on both hosts (an attempt that
            // never succeeded leaves nothing behind once a quiescence point has passed; one that
            // succeeded is over when both ends have closed)
            let tol1 = self.tol1;
            let retired = self.atts.iter().filter(|p| p.host == h && p.local == Some(local) && p.dst == dst).all(|p| {
                let never_ok = matches!(p.result, Res::Cancelled | Res::Err(_)) && !tol1;
                p.client_ended && (p.server_ended || !p.may_have_child || never_ok) && p.retired_at_quiesce
            });
            let leak_suspect = self.atts.iter().any(|p| p.host == h && p.local == Some(local) && p.dst == dst && (p.leak_allow > 0 || ((!self.live_safe || p.crossed || p.f5 || p.disturbed) && p.may_have_child && !p.accepted)));
            att.fresh = retired && !(self.tol1 && leak_suspect);
            self.out.label(if att.fresh { "connect:tuple-reused-after-retire" } else { "connect:tuple-reused-while-burdened" });
            if !att.fresh {
                // the server may still hold state of the older incarnation (F-C13-3: its segments are not told apart)
                att.crossed = true;
            }
        }
        let mut queued_cross = false;
        for p in self.atts.iter_mut() {
            if p.local == Some(local) && p.dst == dst && p.host == h && p.folded && p.folded_pending_first_pass {
                p.crossed = true;
                att.crossed = true;
                queued_cross = true;
            }
        }
        if queued_cross {
            self.out.label("connect:crossed-by-queued-syn-of-cancelled-connect");
        }
        self.tuples.insert((h, local, dst), id);
        self.atts.push(att);
        self.conns[h].push(Conn { obj: Obj::Pending(self.world.hold(h, fut)), att: id, client: true, ambiguous: false, wr_closed: false, roff: 0 });
        self.out.label(if folded { "connect:folded" } else { "connect:cross-host" });
    }

    /// An immediate `AddrInUse` / `AddrNotAvailable` from connect (no source port) is only legitimate
    /// when every port of the range is taken.
    fn check_exhausted(&mut self, h: usize, v6: bool, dst: SocketAddr, kind: std::io::ErrorKind) {
        let lo = EPH_BASE;
        let hi = EPH_BASE + self.sc.eph_len[h] - 1;
        let mut used: BTreeSet<u16> = BTreeSet::new();
        for r in self.world.rows(h) {
            if r.tcp && r.local.is_ipv6() == v6 && (lo..=hi).contains(&r.local.port()) {
                used.insert(r.local.port());
            }
        }
        // sockets the script holds whose TCB is Closed are hidden from netstat
        for c in self.conns[h].iter() {
            if c.client && !matches!(c.obj, Obj::Gone) {
                if let Some(l) = self.atts[c.att].local {
                    if l.is_ipv6() == v6 {
                        used.insert(l.port());
                    }
                }
            }
        }
        // ... and a socket dropped since the last quiescence point may still be closing
        // (a TCB that reached Closed is reaped at the end of the next egress pass)
        for a in self.atts.iter() {
            if a.host == h && a.client_ended && !a.retired_at_quiesce && a.result == Res::Ok {
                if let Some(l) = a.local {
                    if l.is_ipv6() == v6 {
                        used.insert(l.port());
                    }
                }
            }
        }
        self.out.label("connect:ephemeral-range-exhausted");
        if (used.len() as u16) < self.sc.eph_len[h] {
            let d = format!("connect({dst}) on host {h} failed with {kind:?} although only ports {used:?} of {lo}..={hi} are in use");
            let sig = if kind == std::io::ErrorKind::AddrInUse { "connect:addr-in-use-while-ephemeral-ports-are-free" } else { "connect:addr-not-available-while-ephemeral-ports-are-free" };
            self.fail(sig, d);
        }
    }

    fn cancel(&mut self, h: usize, ci: usize) {
        let att = self.conns[h][ci].att;
        let (local, dst, dst_host) = (self.atts[att].local.unwrap(), self.atts[att].dst, self.atts[att].dst_host);
        let srv = self.row_for(dst_host, dst, local).and_then(|r| r.state);
        let own = self.row_for(h, local, dst).and_then(|r| r.state);
        self.out.label(format!("cancel@peer={}", srv.unwrap_or("none")));
        self.out.label(format!("cancel:self={}", own.unwrap_or("none")));
        if srv.is_some() {
            // the server has a TCB for this attempt: it answered the SYN
            self.nontrivial = true;
            self.out.label("cancel:after-server-answered");
        }
        let obj = std::mem::replace(&mut self.conns[h][ci].obj, Obj::Gone);
        drop(obj);
        self.atts[att].result = Res::Cancelled;
        self.end_client(att);
    }

    /// bookkeeping when the client side of an attempt ends (cancel, error, drop)
    fn end_client(&mut self, att: usize) {
        let a = &mut self.atts[att];
        a.client_ended = true;
        a.client_open = false;
        let not_ok = !matches!(a.result, Res::Ok);
        if not_ok && a.may_have_child && !a.accepted {
            // the half-open child is answered with a RST (or times out)
            a.leak_allow += 1;
        }
        if let Some(li) = a.lst {
            if !a.accepted {
                // the queued child may or may not go away
                let l = &mut self.lsts[li];
                l.occ_lo = (l.occ_lo - 1).max(0);
                l.tainted = true;
            }
        }
    }

    fn accept(&mut self, li: usize) {
        let h = self.lsts[li].host;
        let mut cx = std::task::Context::from_waker(std::task::Waker::noop());
        let r = self.lsts[li].obj.as_ref().unwrap().get().poll_accept(&mut cx);
        match r {
            Poll::Pending => self.out.label("accept:pending"),
            Poll::Ready(Err(e)) => self.fail("accept:error", format!("accept on {} (host {h}): {e:?}", self.lsts[li].local)),
            Poll::Ready(Ok((s, peer))) => {
                self.out.label("accept:ok");
                let local = s.local_addr();
                let peer2 = s.peer_addr();
                let held = self.world.hold(h, s);
                let local = match local {
                    Ok(l) => l,
                    Err(e) => {
                        self.fail("accept:local_addr-failed", format!("{e:?}"));
                        return;
                    }
                };
                if peer2.as_ref().ok() != Some(&peer) {
                    self.fail("accept:peer_addr-differs-from-accept-result", format!("accept returned peer {peer}, peer_addr() = {peer2:?}"));
                    return;
                }
                // the listener that hands it out must match the connection's local address
                if !self.listener_matches(li, local) {
                    let d = format!("listener {} handed out a connection whose local address is {local}", self.lsts[li].local);
                    self.fail("accept:connection-handed-out-by-a-listener-that-does-not-match-its-address", d);
                    return;
                }
                // pair with a connect attempt: mirrored addresses
                let cands: Vec<usize> = (0..self.atts.len())
                    .filter(|i| {
                        let a = &self.atts[*i];
                        a.local == Some(peer) && a.dst == local && a.dst_host == h
                    })
                    .collect();
                if cands.is_empty() {
                    let d = format!("accept on {} returned (local {local}, peer {peer}) but no connect attempt has these addresses; attempts {:?}", self.lsts[li].local, self.atts.iter().map(|a| (a.local, a.dst)).collect::<Vec<_>>());
                    self.fail("accept:connection-without-a-connector(addresses-not-mirrored)", d);
                    return;
                }
                let open: Vec<usize> = cands.iter().copied().filter(|i| !self.atts[*i].accepted).collect();
                if open.is_empty() {
                    let d = format!("accept on {} returned (local {local}, peer {peer}) a second time: every connect attempt over these addresses was already accepted", self.lsts[li].local);
                    self.fail("accept:same-connection-handed-out-twice", d);
                    return;
                }
                let att = *open.last().unwrap();
                let ambiguous = open.len() > 1;
                {
                    let a = &mut self.atts[att];
                    a.accepted = true;
                    a.may_have_child = true;
                    if a.adm == Adm::No {
                        a.adm = Adm::Maybe;
                    }
                }
                let l = &mut self.lsts[li];
                l.occ_lo = (l.occ_lo - 1).max(0);
                l.occ_hi = (l.occ_hi - 1).max(0);
                if self.atts[att].lst.is_some() && self.atts[att].lst != Some(li) {
                    l.tainted = true;
                }
                self.atts[att].lst = Some(li);
                self.conns[h].push(Conn { obj: Obj::Stream(held), att, client: false, ambiguous, wr_closed: false, roff: 0 });
            }
        }
    }

    fn write(&mut self, h: usize, ci: usize, n: usize) {
        let c = &self.conns[h][ci];
        let Obj::Stream(s) = &c.obj else { return };
        let att = c.att;
        let side = c.client as usize;
        let off = self.atts[att].wrote[side];
        let data: Vec<u8> = (0..n).map(|i| nw::pat(key_of(att, c.client), off + i as u64)).collect();
        match s.get().try_write(&data) {
            Ok(k) => {
                self.atts[att].wrote[side] += k as u64;
                self.out.label("write:ok");
            }
            Err(e) => self.out.label(format!("write:err:{:?}", e.kind())),
        }
    }

    fn read(&mut self, h: usize, ci: usize, n: usize) {
        let c = &self.conns[h][ci];
        let Obj::Stream(s) = &c.obj else { return };
        let (att, client, ambiguous, roff) = (c.att, c.client, c.ambiguous, c.roff);
        let mut buf = vec![0u8; n];
        let r = s.get().try_read(&mut buf);
        let wside = !client;
        let written = self.atts[att].wrote[wside as usize];
        match r {
            Ok(0) => {
                self.out.label("read:eof");
                if !ambiguous {
                    let closed = if client { self.atts[att].server_wr_closed } else { self.atts[att].client_wr_closed };
                    if !closed {
                        let d = format!("attempt {att}: {} read Ok(0) at offset {roff} although the peer never shut down or dropped its end", if client { "client" } else { "server" });
                        self.fail("stream:eof-while-peer-write-side-is-open", d);
                    } else if roff != written {
                        let d = format!("attempt {att}: {} read Ok(0) at offset {roff} but the peer wrote {written} bytes", if client { "client" } else { "server" });
                        self.fail("stream:eof-before-all-written-bytes", d);
                    }
                }
            }
            Ok(k) => {
                self.out.label("read:data");
                if !ambiguous {
                    if roff + k as u64 > written {
                        let d = format!("attempt {att}: {} read {k} bytes at offset {roff} but the paired end wrote only {written}", if client { "client" } else { "server" });
                        self.fail("stream:read-more-than-the-paired-end-wrote", d);
                    } else if let Some(i) = (0..k).find(|i| buf[*i] != nw::pat(key_of(att, wside), roff + *i as u64)) {
                        let d = format!("attempt {att}: {} read a byte at offset {} that the paired end did not write there", if client { "client" } else { "server" }, roff + i as u64);
                        self.fail("stream:bytes-differ-from-what-the-paired-end-wrote", d);
                    }
                }
                self.conns[h][ci].roff += k as u64;
            }
            Err(e) => self.out.label(format!("read:err:{:?}", e.kind())),
        }
    }

    fn peer_state_labels(&mut self, what: &str, h: usize, ci: usize) {
        let c = &self.conns[h][ci];
        let a = &self.atts[c.att];
        let Some(cl) = a.local else { return };
        let (own, other, other_host) = if c.client { ((cl, a.dst), (a.dst, cl), a.dst_host) } else { ((a.dst, cl), (cl, a.dst), a.host) };
        let ps = self.row_for(other_host, other.0, other.1).and_then(|r| r.state);
        let os = self.row_for(h, own.0, own.1).and_then(|r| r.state);
        self.out.label(format!("{what}@peer={}", ps.unwrap_or("none")));
        self.out.label(format!("{what}:self={}", os.unwrap_or("none")));
        if let Some(p) = ps {
            if p != "ESTABLISHED" {
                self.nontrivial = true;
            }
        }
    }

    fn shutdown(&mut self, h: usize, ci: usize) {
        if !matches!(self.conns[h][ci].obj, Obj::Stream(_)) {
            return;
        }
        self.peer_state_labels("shutdown", h, ci);
        let c = &mut self.conns[h][ci];
        let Obj::Stream(s) = &mut c.obj else { return };
        let mut cx = std::task::Context::from_waker(std::task::Waker::noop());
        let r = tokio::io::AsyncWrite::poll_shutdown(Pin::new(s.get_mut()), &mut cx);
        match r {
            Poll::Ready(Ok(())) => {
                c.wr_closed = true;
                let (att, client) = (c.att, c.client);
                let now = self.world.round;
                self.atts[att].close_round[client as usize].get_or_insert(now);
                if client {
                    self.atts[att].client_wr_closed = true;
                } else {
                    self.atts[att].server_wr_closed = true;
                }
                self.out.label("shutdown:ok");
            }
            Poll::Ready(Err(e)) => self.out.label(format!("shutdown:err:{:?}", e.kind())),
            Poll::Pending => self.fail("shutdown:pending", "poll_shutdown returned Pending".into()),
        }
    }

    fn drop_stream(&mut self, h: usize, ci: usize, what: &str) {
        if !matches!(self.conns[h][ci].obj, Obj::Stream(_)) {
            return;
        }
        self.peer_state_labels(what, h, ci);
        if let Obj::Stream(st) = &self.conns[h][ci].obj {
            // a zero-length read has no effect but reports an aborted connection
            if let Err(e) = st.get().try_read(&mut []) {
                if e.kind() == std::io::ErrorKind::TimedOut {
                    let (att, client) = (self.conns[h][ci].att, self.conns[h][ci].client);
                    self.atts[att].gave_up[client as usize] = true;
                    self.out.label("drop:stream-had-timed-out");
                }
            }
        }
        let obj = std::mem::replace(&mut self.conns[h][ci].obj, Obj::Gone);
        drop(obj);
        let (att, client) = (self.conns[h][ci].att, self.conns[h][ci].client);
        let now = self.world.round;
        self.atts[att].close_round[client as usize].get_or_insert(now);
        if client {
            self.atts[att].client_wr_closed = true;
            self.end_client(att);
        } else {
            self.atts[att].server_wr_closed = true;
            self.atts[att].server_ended = true;
        }
    }

    // ------------------------------------------------------------ rounds

    fn round(&mut self) {
        self.one_round(true);
    }

    /// one wire round with the plan's fates (`planned`) or all-deliver; returns (emitted, delivered, held)
    fn one_round(&mut self, planned: bool) -> (usize, usize, usize) {
        // folded attempts: their SYN reaches the own host's listener inside this egress
        for i in 0..self.atts.len() {
            if self.atts[i].folded_pending_first_pass {
                self.atts[i].folded_pending_first_pass = false;
                self.syn_arrives(i, true);
            }
        }
        let (delivered, st) = if planned { self.world.step(&mut self.pol) } else { self.world.step(&mut AllNow) };
        // newly emitted SYNs: which attempt do they belong to?  (outbound queues are FIFO)
        for id in self.seen_pkts..self.world.pkts.len() {
            let rec = &self.world.pkts[id];
            if rec.kind != Kind::Syn {
                continue;
            }
            let seq = rec.tcp.map(|t| t.seq).unwrap_or(0);
            let key = (rec.src, rec.dst, seq);
            if self.syn_owner.contains_key(&key) {
                continue;
            }
            let owner = (0..self.atts.len()).find(|i| {
                let a = &self.atts[*i];
                a.local == Some(rec.src) && a.dst == rec.dst && a.isn.is_none() && a.start <= rec.round && !a.folded
            });
            if let Some(o) = owner {
                self.atts[o].isn = Some(seq);
                self.syn_owner.insert(key, o);
            }
        }
        if self.trace {
            for id in self.seen_pkts..self.world.pkts.len() {
                let r = &self.world.pkts[id];
                eprintln!("   [r{}] emit #{} {}->{} {:?} {:?} fate {:?}", r.round, r.id, r.src, r.dst, r.kind, r.tcp.map(|t| (t.seq, t.ack)), r.fate);
            }
            eprintln!("   [r{}] delivered {:?}", self.world.round - 1, delivered);
            if std::env::var("VERIF_TRACE").map(|v| v == "2").unwrap_or(false) {
                for h in 0..NHOSTS {
                    eprintln!("      host {h} counts {:?} rows {:?}", self.world.counts(h), self.world.rows(h).iter().map(|r| format!("{}<-{:?} {} rq{} sq{}", r.local, r.peer, r.state.unwrap_or("-"), r.recv_q, r.send_q)).collect::<Vec<_>>());
                }
            }
        }
        self.seen_pkts = self.world.pkts.len();
        let now = self.world.round - 1;
        for id in delivered.iter().copied() {
            let rec = self.world.pkts[id].clone();
            if rec.tcp.is_none() {
                continue;
            }
            if rec.kind == Kind::Syn {
                let seq = rec.tcp.map(|t| t.seq).unwrap_or(0);
                if let Some(att) = self.syn_owner.get(&(rec.src, rec.dst, seq)).copied() {
                    // a later incarnation over the same 4-tuple already exists: crossing
                    let later: Vec<usize> = (att + 1..self.atts.len()).filter(|j| self.atts[*j].local == Some(rec.src) && self.atts[*j].dst == rec.dst && self.atts[*j].start <= now).collect();
                    if !later.is_empty() {
                        self.atts[att].crossed = true;
                        for j in later {
                            self.atts[j].crossed = true;
                        }
                        self.out.label("syn:of-older-incarnation-delivered-to-newer");
                    }
                    self.syn_arrives(att, false);
                }
            } else {
                // any other segment emitted before the current incarnation of its 4-tuple started
                let (a, b) = (rec.src, rec.dst);
                let (ha, hb) = (self.world.owner(a.ip()).unwrap_or(0), self.world.owner(b.ip()).unwrap_or(0));
                let cur = self.tuples.get(&(ha, a, b)).or_else(|| self.tuples.get(&(hb, b, a))).copied();
                if let Some(y) = cur {
                    if rec.round < self.atts[y].start && self.atts[y].start <= now {
                        self.atts[y].crossed = true;
                        self.out.label("stale:segment-of-older-incarnation-delivered-to-newer");
                    }
                }
            }
        }
        self.poll_pending();
        self.check_backlog_invariant();
        (st.emitted, st.delivered, st.held)
    }

    /// model of the listener's admission decision when a SYN of `att` arrives
    fn syn_arrives(&mut self, att: usize, folded: bool) {
        let (dst_host, dst) = (self.atts[att].dst_host, self.atts[att].dst);
        self.atts[att].syn_deliveries += 1;
        if self.atts[att].adm != Adm::No {
            // duplicate of an admitted SYN: it creates a fresh child only if the first one is gone
            if self.atts[att].server_ended || self.atts[att].client_ended {
                if let Some(li) = self.matching_listener(dst_host, dst) {
                    self.atts[att].leak_allow += 1;
                    self.out.label("syn:duplicate-after-connection-ended");
                    // Unless the server still holds the accepted stream (then the 4-tuple entry is
                    // certainly there and takes the segment), the fresh half-open child is charged
                    // to the backlog of the listener that is there *now* — possibly a successor of
                    // the one that admitted the attempt.  How long it keeps the slot is not
                    // modelled: a connector that is gone answers its SYN-ACK with a RST, one whose
                    // reset stream is still held (TCB Closed, kept until the handle is dropped)
                    // ignores it, and the child then stays for its whole SYN-ACK retransmit budget.
                    // From here on that listener's occupancy is only bounded.
                    let a = &self.atts[att];
                    if a.server_ended || !a.accepted {
                        self.lsts[li].occ_hi += 1;
                        self.lsts[li].tainted = true;
                        self.out.label("syn:duplicate-after-connection-ended:takes-backlog-slot");
                    }
                }
            }
            return;
        }
        let Some(li) = self.matching_listener(dst_host, dst) else {
            self.atts[att].all_rejected = false;
            return;
        };
        self.lsts[li].dst_ips.insert(dst.ip());
        if self.lsts[li].dst_ips.len() > 1 && self.tol4 && !self.lsts[li].multi_addr {
            self.lsts[li].multi_addr = true;
            self.lsts[li].tainted = true;
            self.out.exclude("F-C13-4");
        }
        if self.atts[att].client_ended {
            // a SYN of a connect that was cancelled meanwhile still creates a child
            self.atts[att].leak_allow += 1;
            self.atts[att].may_have_child = true;
            self.lsts[li].tainted = true;
            self.lsts[li].occ_hi += 1;
            self.out.label("syn:arrives-after-cancel");
            return;
        }
        let backlog = self.sc.backlog as i64;
        let l = &mut self.lsts[li];
        let a = &mut self.atts[att];
        if !a.fresh || a.crossed || a.disturbed {
            // an older incarnation's entry may swallow this SYN
            a.adm = Adm::Maybe;
            a.all_rejected = false;
            a.may_have_child = true;
            a.lst = Some(li);
            l.occ_hi += 1;
            l.tainted = true;
        } else if l.occ_hi < backlog {
            // the connector gives up in pass start + (M+1)*T - 1; the SYN-ACK leaves one pass after
            // this delivery and may be held
            let any_hold = self.sc.plan.by_id.iter().any(|f| matches!(f, Fate::Hold(_))) || self.sc.plan.by_kind.iter().any(|(_, _, f)| matches!(f, Fate::Hold(_)));
            let hmax = if any_hold && !a.calm { self.sc.plan.max_hold } else { 0 };
            let deadline = (a.start + (self.sc.retx_max + 1) * self.sc.retx_threshold).saturating_sub(3 + hmax);
            if !folded && self.world.round.saturating_sub(1) > deadline {
                a.late_admit = true;
            }
            a.adm = Adm::Must;
            if !l.tainted && l.aborted_seen >= self.sc.backlog {
                // the decisive class: backlog room is certain although the listener has seen at
                // least `backlog` handshakes that were aborted half-open
                self.out.label("syn:must-be-admitted-after>=backlog-aborted-handshakes");
            } else if !l.tainted && l.aborted_seen > 0 {
                self.out.label("syn:must-be-admitted-after-aborted-handshakes");
            }
            a.all_rejected = false;
            l.occ_lo += 1;
            l.occ_hi += 1;
            a.lst = Some(li);
            a.may_have_child = true;
        } else if l.occ_lo >= backlog {
            // certainly full: dropped, the connector retries
            self.out.label("syn:backlog-full");
            if folded || !self.live_safe {
                // later retransmissions are invisible: from now on only bounds
                a.all_rejected = false;
                a.adm = Adm::Maybe;
                a.may_have_child = true;
                a.lst = Some(li);
                l.occ_hi += 1;
                l.tainted = true;
            }
        } else {
            a.adm = Adm::Maybe;
            a.all_rejected = false;
            a.may_have_child = true;
            a.lst = Some(li);
            l.occ_hi += 1;
        }
    }

    fn poll_pending(&mut self) {
        for h in 0..NHOSTS {
            for ci in 0..self.conns[h].len() {
                let r = match &mut self.conns[h][ci].obj {
                    Obj::Pending(f) => poll_once(f.get_mut().as_mut()),
                    _ => continue,
                };
                let Poll::Ready(res) = r else { continue };
                let att = self.conns[h][ci].att;
                let old = std::mem::replace(&mut self.conns[h][ci].obj, Obj::Gone);
                drop(old);
                match res {
                    Ok(s) => {
                        let (l, p) = (s.local_addr(), s.peer_addr());
                        self.conns[h][ci].obj = Obj::Stream(self.world.hold(h, s));
                        self.atts[att].result = Res::Ok;
                        self.atts[att].client_open = true;
                        self.resolved(att);
                        let a = &self.atts[att];
                        if l.as_ref().ok() != a.local.as_ref() || p.as_ref().ok() != Some(&a.dst) {
                            let d = format!("attempt {att}: connect({}) -> local_addr {l:?} peer_addr {p:?}; the pending socket was {:?}", a.dst, a.local);
                            self.fail("connect:stream-addresses-differ-from-the-pending-socket", d);
                        }
                    }
                    Err(e) => {
                        self.atts[att].result = Res::Err(e.kind());
                        self.resolved(att);
                        self.end_client(att);
                    }
                }
            }
        }
    }

    /// oracle for the result of a connect
    fn resolved(&mut self, att: usize) {
        let a = &self.atts[att];
        let waive3 = self.tol3 && a.crossed;
        let clean = a.fresh && (self.live_safe || a.calm) && !waive3 && !a.disturbed;
        let untainted = a.lst.map(|l| !self.lsts[l].tainted).unwrap_or(true) && self.matching_listener(a.dst_host, a.dst).map(|l| !self.lsts[l].tainted).unwrap_or(true);
        let ctx = format!(
            "attempt {att}: connect({}) from host {} local {:?} started round {} resolved round {}: {:?}; listener during attempt: any={} all={}; backlog model: {:?} (all SYNs certainly rejected: {}, SYN deliveries {}), fresh={} live_safe={} calm-era={}",
            a.dst, a.host, a.local, a.start, self.world.round, a.result, a.listener_any, a.listener_all, a.adm, a.all_rejected, a.syn_deliveries, a.fresh, self.live_safe, a.calm
        );
        match a.result {
            Res::Ok => {
                self.out.label("connect:ok");
                if a.calm {
                    self.out.label("connect:ok-in-calm-era");
                }
                if !a.listener_any && waive3 {
                    self.out.exclude("F-C13-3");
                } else if !a.listener_any {
                    self.fail("connect:ok-although-nothing-listened-there", ctx);
                } else if clean && untainted && a.adm == Adm::No && !a.folded && a.listener_all {
                    // every delivered SYN found the model's backlog certainly full
                    self.fail("connect:ok-although-the-backlog-was-full", ctx);
                }
            }
            Res::Err(std::io::ErrorKind::ConnectionRefused) => {
                self.out.label("connect:refused");
                if a.listener_all && a.fresh && !waive3 && a.f5 && self.tol5 {
                    self.out.exclude("F-C13-5");
                } else if a.listener_all && a.fresh && !waive3 {
                    self.fail("connect:refused-although-a-listener-was-there-throughout", ctx);
                }
            }
            Res::Err(std::io::ErrorKind::TimedOut) => {
                self.out.label("connect:timed-out");
                if clean && !a.listener_any {
                    self.fail("connect:timed-out-instead-of-refused(nothing-listened)", ctx);
                } else if clean && a.listener_all && untainted && a.adm == Adm::Must && !a.late_admit {
                    self.fail("connect:timed-out-although-listener-had-backlog-room", ctx);
                }
            }
            Res::Err(k) => {
                self.out.label(format!("connect:err:{k:?}"));
                self.fail("connect:unexpected-error-kind", ctx);
            }
            _ => {}
        }
    }

    /// BACKLOG clause (live-safe runs only)
    fn check_backlog_invariant(&mut self) {
        if !self.live_safe || self.failed {
            return;
        }
        for li in 0..self.lsts.len() {
            if self.lsts[li].dst_ips.len() > 1 && self.tol4 && !self.lsts[li].multi_addr {
                self.lsts[li].multi_addr = true;
                self.lsts[li].tainted = true;
                self.out.exclude("F-C13-4");
            }
            if self.lsts[li].obj.is_none() || self.lsts[li].multi_addr {
                continue;
            }
            let n = self
                .atts
                .iter()
                .filter(|a| a.result == Res::Ok && a.client_open && !a.accepted && a.fresh && !a.f5 && !a.disturbed && !a.crossed && a.adm != Adm::No && a.lst == Some(li) && !a.server_ended)
                .count();
            if n as u32 > self.sc.backlog {
                let d = format!("listener {} (backlog {}): {n} connectors hold an Ok connection that was never accepted", self.lsts[li].local, self.sc.backlog);
                self.fail("backlog:more-unaccepted-connections-than-the-backlog", d);
                return;
            }
        }
    }

    // ------------------------------------------------------------ quiescence and counts

    fn quiesce(&mut self, stage: &str) {
        let was = self.pol.active;
        self.pol.active = false;
        let q = self.q();
        let cap = 40 * q + 200;
        let mut idle = 0;
        let mut n = 0;
        while idle < q {
            let (emitted, ndel, nheld) = self.one_round(false);
            if self.failed {
                break;
            }
            if emitted == 0 && ndel == 0 && nheld == 0 {
                idle += 1;
            } else {
                idle = 0;
            }
            n += 1;
            if n > cap {
                let last: Vec<String> = self.world.pkts.iter().rev().take(6).map(|p| format!("#{} r{} {}->{} {:?}", p.id, p.round, p.src, p.dst, p.kind)).collect();
                self.fail("quiesce:wire-never-goes-idle", format!("stage {stage}: still traffic after {n} all-deliver rounds (Q = {q}); last packets {last:?}"));
                break;
            }
        }
        self.pol.active = was;
        self.quiesce_no += 1;
        if self.failed {
            return;
        }
        // a connect must have resolved by now
        for h in 0..NHOSTS {
            for c in self.conns[h].iter() {
                if matches!(c.obj, Obj::Pending(_)) {
                    let a = &self.atts[c.att];
                    let d = format!("stage {stage}: connect({}) from host {h} (local {:?}, started round {}) is still pending after the wire was idle for {q} rounds", a.dst, a.local, a.start);
                    self.out.fail("connect:never-resolves", d);
                    self.failed = true;
                    return;
                }
            }
        }
        let tol1 = self.tol1;
        for a in self.atts.iter_mut() {
            // a connector that never saw its connect succeed never acknowledged a SYN-ACK: whatever
            // child a listener made for it stayed half-open, and a half-open child cannot outlive a
            // quiescence point (it is reset by the answer to its SYN-ACK or runs out of SYN-ACK
            // retransmissions, each of which would have broken the idle period)
            let never_ok = matches!(a.result, Res::Cancelled | Res::Err(_)) && !tol1;
            if a.client_ended && (a.server_ended || !a.may_have_child || never_ok) {
                a.retired_at_quiesce = true;
            }
        }
        self.recertify_listeners();
    }

    /// Quiescence point: re-derive every live listener's backlog occupancy from first principles.
    ///
    /// While packets are in flight the model only keeps bounds (`occ_lo..=occ_hi`) and marks a
    /// listener `tainted` as soon as a handshake ends in a way whose effect on the accept queue it
    /// does not follow (cancelled connect, duplicate SYN of an ended attempt, ...).  At a quiescence
    /// point (everything delivered, wire idle for Q rounds, every connect resolved) the picture is
    /// sharp again, because no half-open child exists any more:
    ///
    /// * an attempt whose connect never returned `Ok` (cancelled, timed out, refused) never
    ///   acknowledged a SYN-ACK, so its child -- if it ever had one -- was half-open and is gone:
    ///   it occupies nothing;
    /// * an attempt that was accepted occupies nothing; one whose queued child was removed by the
    ///   close of its listener neither;
    /// * an attempt that returned `Ok`, whose stream is still open, that was admitted by this very
    ///   listener on a clean 4-tuple under a loss-free wire and has not been accepted certainly sits
    ///   in the accept queue: it occupies one slot;
    /// * every other unaccepted `Ok` attempt (connector gone meanwhile, lossy era, crossed 4-tuple)
    ///   may or may not still be queued.
    ///
    /// With no attempt of the last kind the occupancy is exact and the taint is lifted: the next
    /// SYN that finds `occupancy < backlog` MUST be admitted (and one that finds the queue full
    /// must not).  This is the statement "connect succeeds exactly when a listener is reachable and
    /// has backlog room ... stale entries never swallow later connections" for a listener that has
    /// seen any number of aborted handshakes.  Guard: netstat must agree that no SYN_RCVD child of
    /// the listener is left (otherwise the reclaim clauses report it; the occupancy stays bounded).
    fn recertify_listeners(&mut self) {
        if self.tol1 || self.failed {
            return;
        }
        for li in 0..self.lsts.len() {
            if self.lsts[li].obj.is_none() {
                continue;
            }
            let h = self.lsts[li].host;
            let half_open_rows = self.world.rows(h).iter().filter(|r| r.tcp && r.state == Some("SYN_RCVD") && self.listener_matches(li, r.local)).count();
            if half_open_rows > 0 {
                self.out.label("quiesce:half-open-child-visible-at-quiescence");
                self.lsts[li].tainted = true;
                continue;
            }
            let mut present = 0i64;
            let mut unsure = 0i64;
            let mut released = 0u32;
            for a in self.atts.iter() {
                if a.dst_host != h || a.accepted || !self.listener_matches(li, a.dst) {
                    continue;
                }
                match a.result {
                    Res::Cancelled | Res::Err(_) => {
                        if a.may_have_child || a.lst.is_some() {
                            released += 1;
                        }
                    }
                    Res::Ok => {
                        if a.server_ended {
                            // its queued child went away with the listener that held it
                        } else if a.lst == Some(li) && a.client_open && a.adm != Adm::No && a.fresh && !a.crossed && !a.disturbed && !a.f5 && (self.live_safe || a.calm) {
                            present += 1;
                        } else {
                            unsure += 1;
                        }
                    }
                    Res::Pending => unsure += 1,
                }
            }
            let l = &mut self.lsts[li];
            l.occ_lo = present;
            l.occ_hi = present + unsure;
            if unsure == 0 {
                if l.tainted {
                    self.out.label("quiesce:listener-occupancy-recertified(taint-lifted)");
                }
                l.tainted = false;
                l.aborted_seen = released;
                if released > 0 {
                    self.out.label(format!("quiesce:listener-saw-aborted-handshakes={}(backlog={})", released.min(4), (self.sc.backlog).min(4)));
                    if released >= self.sc.backlog {
                        self.out.label("quiesce:aborted-handshakes>=backlog");
                    }
                }
            } else {
                l.tainted = true;
                self.out.label("quiesce:listener-occupancy-only-bounded");
            }
        }
    }

    fn held_objects(&self, h: usize) -> usize {
        self.lsts.iter().filter(|l| l.host == h && l.obj.is_some()).count() + self.conns[h].iter().filter(|c| !matches!(c.obj, Obj::Gone)).count()
    }

    /// range check at a quiescence point while objects are still held
    fn check_counts_range(&mut self, stage: &str) {
        for h in 0..NHOSTS {
            let (s, b, c) = self.world.counts(h);
            let lo = self.held_objects(h);
            // what may legitimately linger: children queued at live listeners, and halves
            // dropped by this host whose other half is still open at the peer
            let mut extra = 0usize;
            let mut leak = 0usize;
            for a in self.atts.iter() {
                if a.dst_host == h && !a.accepted && (a.may_have_child || a.result == Res::Ok || a.syn_deliveries > 0) && (!a.server_ended || self.matching_listener(h, a.dst).is_some()) {
                    extra += 1;
                }
                if a.dst_host == h {
                    leak += a.leak_allow as usize;
                    if (!self.live_safe || a.crossed || a.f5 || a.disturbed) && a.may_have_child && !a.accepted {
                        leak += 1;
                    }
                }
                // dropped halves
                if a.host == h && a.client_ended && a.result == Res::Ok && !(a.server_ended) {
                    extra += 1;
                }
                if a.dst_host == h && a.accepted && a.server_ended && !a.client_ended {
                    extra += 1;
                }
                if !self.live_safe {
                    // a half that never hears from its peer again
                    if a.host == h && a.client_ended && a.result == Res::Ok {
                        extra += 1;
                    }
                    if a.dst_host == h && a.accepted && a.server_ended {
                        extra += 1;
                    }
                }
            }
            if self.tol2 {
                // orphans in FIN_WAIT2 are judged one by one after the final drop (F-C13-2)
                extra += self.world.rows(h).iter().filter(|r| r.tcp && r.state == Some("FIN_WAIT2")).count();
            }
            let hi = lo + extra + if self.tol1 { leak } else { 0 };
            if s < lo || s > hi {
                let d = format!("stage {stage} host {h}: table_counts = (sockets {s}, bindings {b}, connections {c}); the script holds {lo} objects, at most {extra} more may linger legitimately (upper bound {hi}); netstat {:?}", self.world.rows(h));
                self.fail(if s < lo { "reclaim:fewer-sockets-than-objects-held" } else { "reclaim:more-sockets-than-held-plus-lingering(quiescent)" }, d);
                return;
            }
            if c > s || b > s {
                let d = format!("stage {stage} host {h}: table_counts = (sockets {s}, bindings {b}, connections {c}): an index has more entries than there are sockets");
                self.fail("reclaim:index-entries-outnumber-sockets", d);
                return;
            }
        }
    }

    /// Final stages: drain + drop everything, counts must be zero, then reuse.
    fn finale(&mut self) {
        self.quiesce("final-A");
        if self.failed {
            return;
        }
        self.check_counts_range("final-A");
        if self.failed {
            return;
        }
        // B: drain every listener, drop every object
        for li in 0..self.lsts.len() {
            if self.lsts[li].obj.is_none() {
                continue;
            }
            for _ in 0..64 {
                let before = self.conns[self.lsts[li].host].len();
                self.accept(li);
                if self.failed {
                    return;
                }
                if self.conns[self.lsts[li].host].len() == before {
                    break;
                }
            }
        }
        for h in 0..NHOSTS {
            for ci in 0..self.conns[h].len() {
                match self.conns[h][ci].obj {
                    Obj::Stream(_) => self.drop_stream(h, ci, "finaldrop"),
                    Obj::Pending(_) => self.cancel(h, ci),
                    Obj::Gone => {}
                }
            }
        }
        for li in 0..self.lsts.len() {
            if self.lsts[li].obj.is_some() {
                self.drop_listener(li);
            }
        }
        self.quiesce("final-B");
        if self.failed {
            return;
        }
        let mut clean_host = [true; NHOSTS];
        for h in 0..NHOSTS {
            let (s, b, c) = self.world.counts(h);
            if (s, b, c) == (0, 0, 0) {
                continue;
            }
            clean_host[h] = false;
            let rows = self.world.rows(h);
            let visible = rows.len();
            let hidden = s.saturating_sub(visible);
            // allowance of the known findings
            let mut leak = 0usize;
            for a in self.atts.iter() {
                if a.dst_host == h {
                    leak += a.leak_allow as usize;
                    if (!self.live_safe || a.crossed || a.f5 || a.disturbed) && a.may_have_child && !a.accepted && a.leak_allow == 0 {
                        // a half-open child reset by a stale segment, or timing out
                        leak += 1;
                    }
                }
            }
            let detail = format!(
                "after every listener was drained and every object dropped and the wire was idle for Q = {} rounds, host {h} still has table_counts = (sockets {s}, bindings {b}, connections {c}); netstat shows {visible} of them: {rows:?}; attempts {:?}",
                self.q(),
                self.atts.iter().map(|a| (a.host, a.local, a.dst, a.result, a.accepted)).collect::<Vec<_>>()
            );
            // visible residue
            let mut tol_fw2 = 0usize;
            let mut tol_cross = 0usize;
            for r in rows.iter() {
                let related: Vec<usize> = (0..self.atts.len())
                    .filter(|i| {
                        let a = &self.atts[*i];
                        (a.local == Some(r.local) && Some(a.dst) == r.peer) || (a.dst == r.local && a.local == r.peer && a.local.is_some())
                    })
                    .collect();
                if self.tol3 && related.iter().any(|i| self.atts[*i].crossed) {
                    tol_cross += 1;
                    continue;
                }
                if r.tcp && r.state == Some("FIN_WAIT2") && self.tol2 {
                    // an orphan whose peer gave up silently (retransmit exhaustion: nothing leaves
                    // when such a socket is closed) or whose peer's RST was lost on the wire
                    let peer = r.peer.unwrap();
                    let rst_lost = self.pol.dropped_rst.iter().any(|id| self.world.pkts[*id].src == peer && self.world.pkts[*id].dst == r.local);
                    let silent = related.iter().any(|i| {
                        let a = &self.atts[*i];
                        let client_side = a.local == Some(r.local) && a.host == h;
                        a.gave_up[!client_side as usize]
                    });
                    // did the orphan get a FIN/RST of its peer that it had to act on?  A RST always;
                    // a FIN if it acknowledged it, or if the peer never wrote (its FIN is then in order)
                    let heard_wire = related.iter().any(|i| {
                        let a = &self.atts[*i];
                        let client_side = a.local == Some(r.local) && a.host == h;
                        let t0 = a.close_round[client_side as usize].unwrap_or(a.start);
                        let peer_wrote = a.wrote[!client_side as usize];
                        !a.folded
                            && self.world.pkts.iter().any(|p| {
                                p.src == peer
                                    && p.dst == r.local
                                    && p.delivered.map(|d| d >= t0).unwrap_or(false)
                                    && match p.kind {
                                        Kind::Rst => true,
                                        Kind::Fin => {
                                            let t = p.tcp.unwrap();
                                            let fin_end = t.seq.wrapping_add(t.len as u32).wrapping_add(1);
                                            peer_wrote == 0 || self.world.pkts.iter().any(|q| q.src == r.local && q.dst == peer && q.round >= p.delivered.unwrap() && q.tcp.map(|u| u.ackf && u.ack == fin_end).unwrap_or(false))
                                        }
                                        _ => false,
                                    }
                            })
                    });
                    let heard = heard_wire && !(rst_lost || silent);
                    if !heard {
                        tol_fw2 += 1;
                        continue;
                    }
                }
                self.fail(&format!("reclaim:socket-left-in-{}-after-both-sides-closed", r.state.unwrap_or("udp")), detail.clone());
                return;
            }
            if tol_fw2 > 0 {
                self.out.exclude("F-C13-2");
            }
            if tol_cross > 0 {
                self.out.exclude("F-C13-3");
            }
            if hidden > 0 {
                if self.tol1 && hidden <= leak && b <= s && c <= s {
                    self.out.exclude("F-C13-1");
                } else {
                    self.fail("reclaim:hidden-socket-entries-left-after-both-sides-closed", detail);
                    return;
                }
            } else if visible == 0 {
                // no sockets but index entries
                self.fail("reclaim:index-entries-left-without-sockets", detail);
                return;
            }
        }
        // C: reuse of ports and 4-tuples (only where the table is clean)
        self.reuse(&clean_host);
    }

    fn reuse(&mut self, clean_host: &[bool; NHOSTS]) {
        let ports: Vec<(usize, bool, u16)> = self.used_ports.iter().copied().collect();
        for (h, v6, port) in ports {
            if !clean_host[h] {
                continue;
            }
            let sa = SocketAddr::new(wildcard(v6), port);
            self.world.pin(h);
            match now_or_never(TcpListener::bind(sa)) {
                Some(Ok(l)) => drop(self.world.hold(h, l)),
                Some(Err(e)) => {
                    let d = format!("host {h}: the table is empty (0,0,0) but TcpListener::bind({sa}) on a port used earlier fails: {e:?}");
                    self.fail("reuse:bind-of-a-used-port-fails-on-an-empty-table", d);
                    return;
                }
                None => {
                    self.fail("listen:bind-future-pending", format!("bind({sa})"));
                    return;
                }
            }
            self.out.count("reuse_binds", 1);
        }
        let tuples: Vec<(usize, SocketAddr, SocketAddr)> = self.tuples.keys().copied().take(6).collect();
        let t = self.sc.retx_threshold;
        for (th, local, dst) in tuples {
            let att = self.tuples[&(th, local, dst)];
            let (ch, sh) = (self.atts[att].host, self.atts[att].dst_host);
            if !clean_host[ch] || !clean_host[sh] {
                continue;
            }
            let lsa = SocketAddr::new(wildcard(dst.is_ipv6()), dst.port());
            self.world.pin(sh);
            let l = match now_or_never(TcpListener::bind(lsa)) {
                Some(Ok(l)) => self.world.hold(sh, l),
                other => {
                    self.fail("reuse:bind-of-a-used-port-fails-on-an-empty-table", format!("host {sh}: bind({lsa}) -> {:?}", other.map(|r| r.map(|_| ()))));
                    return;
                }
            };
            self.world.set_eph(ch, local.port()..=local.port());
            self.world.pin(ch);
            let mut fut: Held<ConnFut> = self.world.hold(ch, Box::pin(TcpStream::connect(dst)));
            let mut res = None;
            for _ in 0..(3 * t + 6) {
                if let Poll::Ready(r) = poll_once(fut.get_mut().as_mut()) {
                    res = Some(r);
                    break;
                }
                self.world.step(&mut AllNow);
            }
            drop(fut);
            let cs = match res {
                Some(Ok(s)) => self.world.hold(ch, s),
                other => {
                    let d = format!("both tables are empty, a fresh listener is on {lsa} (host {sh}), the client port is pinned to {}: connect({dst}) over the used 4-tuple ({local} -> {dst}) -> {:?}", local.port(), other.map(|r| r.map(|_| ())));
                    self.fail("reuse:connect-over-a-used-4-tuple-fails-on-empty-tables", d);
                    return;
                }
            };
            let cl = cs.get().local_addr().ok();
            // accept
            let mut acc = None;
            for _ in 0..(3 * t + 6) {
                let mut cx = std::task::Context::from_waker(std::task::Waker::noop());
                if let Poll::Ready(r) = l.get().poll_accept(&mut cx) {
                    acc = Some(r);
                    break;
                }
                self.world.step(&mut AllNow);
            }
            match acc {
                Some(Ok((s, peer))) => {
                    let sl = s.local_addr().ok();
                    drop(self.world.hold(sh, s));
                    if Some(peer) != cl || sl != Some(dst) || cl != Some(local) {
                        let d = format!("reuse of ({local} -> {dst}): client local {cl:?}, accepted (local {sl:?}, peer {peer})");
                        self.fail("reuse:addresses-not-mirrored", d);
                        return;
                    }
                }
                other => {
                    let d = format!("reuse of ({local} -> {dst}): connect returned Ok but accept -> {:?}", other.map(|r| r.map(|_| ())));
                    self.fail("reuse:connection-over-a-used-4-tuple-is-never-accepted", d);
                    return;
                }
            }
            drop(cs);
            drop(l);
            // let the close handshake finish
            let q = self.q();
            let mut idle = 0;
            let mut n = 0;
            while idle < q && n < 40 * q + 200 {
                let before = self.world.pkts.len();
                let (d, _) = self.world.step(&mut AllNow);
                if self.world.pkts.len() == before && d.is_empty() {
                    idle += 1;
                } else {
                    idle = 0;
                }
                n += 1;
            }
            for h in [ch, sh] {
                let cnt = self.world.counts(h);
                if cnt != (0, 0, 0) {
                    let d = format!("after reusing ({local} -> {dst}) and closing both ends, host {h} has table_counts {cnt:?}; netstat {:?}", self.world.rows(h));
                    self.fail("reuse:entries-left-after-reused-connection-closed", d);
                    return;
                }
            }
            self.out.count("reuse_connects", 1);
        }
    }
}

pub fn run(sc: &Scenario) -> Outcome {
    let t = sc.retx_threshold.clamp(1, 8);
    let m = sc.retx_max.min(8);
    let mut sc = sc.clone();
    sc.retx_threshold = t;
    sc.retx_max = m;
    sc.backlog = sc.backlog.max(1);
    sc.eph_len = [sc.eph_len[0].clamp(1, 64), sc.eph_len[1].clamp(1, 64)];
    let sc = &sc;
    let k = KernelConfig::default().retx_threshold(t).retx_max(m).default_backlog(sc.backlog as usize);
    let hosts: Vec<Vec<IpAddr>> = (0..NHOSTS).map(|h| vec![nw::host_ip(h, false), nw::host_ip(h, true)]).collect();
    let world = World::new(k, &hosts);
    for h in 0..NHOSTS {
        world.set_eph(h, EPH_BASE..=EPH_BASE + sc.eph_len[h] - 1);
    }
    let ls = live_safe(sc);
    // C13_STRICT=1 switches every tolerance off for the whole run (used to validate a fix)
    static STRICT_ENV: std::sync::OnceLock<bool> = std::sync::OnceLock::new();
    let strict_env = *STRICT_ENV.get_or_init(|| std::env::var("C13_STRICT").is_ok());
    let mut sc2 = sc.clone();
    sc2.strict = sc.strict || strict_env;
    let sc = &sc2;
    let mut sim = Sim {
        sc,
        live_safe: ls,
        tol1: is_known("F-C13-1") && !sc.strict,
        tol2: is_known("F-C13-2") && !sc.strict,
        tol3: is_known("F-C13-3") && !sc.strict,
        tol4: is_known("F-C13-4") && !sc.strict,
        tol5: is_known("F-C13-5") && !sc.strict,
        conns: (0..NHOSTS).map(|_| Vec::new()).collect(),
        lsts: Vec::new(),
        atts: Vec::new(),
        out: Outcome::ok(),
        failed: false,
        pol: PlanPol { tw: TableWire::new(&sc.plan), active: true, drop_rst: sc.drop_rst, dropped_rst: Vec::new(), drops: 0, holds: 0 },
        tuples: BTreeMap::new(),
        used_ports: BTreeSet::new(),
        syn_owner: BTreeMap::new(),
        seen_pkts: 0,
        quiesce_no: 0,
        quiesce_acts: 0,
        calm: false,
        nontrivial: false,
        trace: std::env::var("VERIF_TRACE").is_ok(),
        world,
    };
    for a in sc.acts.iter() {
        sim.act(a);
        if sim.failed {
            break;
        }
    }
    if !sim.failed {
        sim.finale();
    }
    // classes
    let plan_class = if sim.pol.drops > 0 {
        "plan:drops"
    } else if sim.pol.holds > 0 {
        if ls {
            "plan:delay-live-safe"
        } else {
            "plan:delay-long"
        }
    } else {
        "plan:none-effective"
    };
    sim.out.label(plan_class);
    if !sim.pol.dropped_rst.is_empty() {
        sim.out.label("plan:dropped-a-rst");
    }
    sim.out.label(format!("backlog={}", sc.backlog.min(4)));
    let reused = sim.out.labels.iter().any(|l| l.starts_with("connect:tuple-reused"));
    if reused {
        sim.out.label("tuple-reused-mid-script");
    }
    sim.out.count("attempts", sim.atts.len() as u64);
    sim.out.count("rounds", sim.world.round as u64);
    sim.out.nontrivial = sim.nontrivial;
    let out = std::mem::replace(&mut sim.out, Outcome::ok());
    drop(sim);
    out
}

// ---------------------------------------------------------------- generator

fn act_strategy() -> BoxedStrategy<Act> {
    let h = 0u8..2;
    prop_oneof![
        2 => (h.clone(), 0u8..2, prop_oneof![3 => Just(BindTo::Any), 2 => Just(BindTo::Host), 1 => Just(BindTo::Lo)], prop::bool::weighted(0.25))
            .prop_map(|(h, port, bind, v6)| Act::Listen { h, port, bind, v6 }),
        1 => (h.clone(), 0u8..3).prop_map(|(h, l)| Act::DropListener { h, l }),
        2 => (h.clone(), prop_oneof![1 => Just(None), 5 => (0u8..2).prop_map(Some)], 0u8..2, prop::bool::weighted(0.25))
            .prop_map(|(h, to, port, v6)| Act::Connect { h, to, port, v6 }),
        10 => (0u8..3, prop::bool::weighted(0.3), any::<bool>()).prop_map(|(l, same, lo)| Act::ConnectL { l, same, lo }),
        3 => (h.clone(), 0u8..4).prop_map(|(h, c)| Act::Cancel { h, c }),
        6 => (h.clone(), 0u8..3).prop_map(|(h, l)| Act::Accept { h, l }),
        4 => (h.clone(), 0u8..8, 1u8..40).prop_map(|(h, c, n)| Act::Write { h, c, n }),
        4 => (h.clone(), 0u8..8, 1u8..60).prop_map(|(h, c, n)| Act::Read { h, c, n }),
        5 => (h.clone(), 0u8..8).prop_map(|(h, c)| Act::Shutdown { h, c }),
        6 => (h.clone(), 0u8..8).prop_map(|(h, c)| Act::Drop { h, c }),
        10 => prop_oneof![4 => Just(1u8), 2 => Just(2u8), 1 => Just(3u8)].prop_map(|n| Act::Rounds { n }),
        1 => Just(Act::Quiesce),
    ]
    .boxed()
}

fn fate_strategy(max_hold: u32, drops: bool) -> BoxedStrategy<Fate> {
    if drops {
        prop_oneof![6 => Just(Fate::Now), 3 => (1..=max_hold.max(1)).prop_map(Fate::Hold), 2 => Just(Fate::Drop)].boxed()
    } else {
        prop_oneof![5 => Just(Fate::Now), 3 => (1..=max_hold.max(1)).prop_map(Fate::Hold)].boxed()
    }
}

fn plan_strategy(t: u32, m: u32) -> BoxedStrategy<(FatePlan, bool)> {
    let hl = h_live(t, m);
    let kinds = prop::sample::select(vec![Kind::Syn, Kind::SynAck, Kind::HandshakeAck, Kind::Data, Kind::PureAck, Kind::Fin, Kind::Rst]);
    let none = Just((FatePlan::default(), false)).boxed();
    let delay = if hl >= 1 {
        (prop::collection::vec(fate_strategy(hl, false), 0..40), prop::collection::vec((kinds.clone(), 0u32..3, fate_strategy(hl, false)), 0..3), prop::collection::vec(0u8..3, 0..40))
            .prop_map(move |(by_id, by_kind, prio)| (FatePlan { by_id, by_kind, prio, max_drops: 0, max_hold: hl, blackhole: None }, false))
            .boxed()
    } else {
        none.clone()
    };
    let faulty = (
        prop::collection::vec(fate_strategy(2 * t, true), 0..40),
        prop::collection::vec((kinds, 0u32..3, fate_strategy(2 * t, true)), 0..4),
        prop::collection::vec(0u8..3, 0..40),
        0..=m,
        prop::bool::weighted(0.15),
        // one host's outgoing packets all vanish from some packet id on (until a calm era starts)
        prop::option::weighted(0.12, (0usize..2, 0u32..24)),
    )
        .prop_map(move |(by_id, by_kind, prio, max_drops, drop_rst, blackhole)| (FatePlan { by_id, by_kind, prio, max_drops, max_hold: 2 * t, blackhole }, drop_rst))
        .boxed();
    prop_oneof![3 => none, 3 => delay, 5 => faulty].boxed()
}

pub fn strategy() -> BoxedStrategy<Scenario> {
    (2u32..=4, 1u32..=4, prop_oneof![3 => Just(1u32), 2 => Just(2u32), 1 => Just(3u32), 2 => Just(1024u32)], (prop_oneof![2 => Just(1u16), 2 => Just(2u16), 2 => Just(3u16), 1 => Just(5u16)], prop_oneof![2 => Just(1u16), 2 => Just(2u16), 2 => Just(3u16), 1 => Just(5u16)]))
        .prop_flat_map(|(t, m, backlog, (e0, e1))| {
            let first = prop_oneof![
                9 => (0u8..2, 0u8..2, prop_oneof![3 => Just(BindTo::Any), 2 => Just(BindTo::Host), 1 => Just(BindTo::Lo)], prop::bool::weighted(0.25))
                    .prop_map(|(h, port, bind, v6)| Act::Listen { h, port, bind, v6 }),
                1 => act_strategy(),
            ];
            (first, prop::collection::vec(act_strategy(), 3..36), plan_strategy(t, m), prop::option::weighted(0.3, 1u8..=2)).prop_map(move |(first, mut acts, (plan, drop_rst), calm_after)| {
                acts.insert(0, first);
                Scenario { retx_threshold: t, retx_max: m, backlog, eph_len: [e0, e1], acts, plan, drop_rst, strict: false, calm_after }
            })
        })
        .boxed()
}

// ---------------------------------------------------------------- recovery histories
//
// "Backlog sizes from 1 upward ... cancelling a pending connect ... packets dropped within the
// retransmit budget ... many sequential connections": one listener sees k >= backlog handshakes
// that reach it but never complete (connect cancelled 0..3 rounds after it started, the listener's
// host black-holed so that its SYN-ACK retransmissions run out, the connector's RST lost so that
// the half-open child is never told), mixed with ordinary traffic; then the wire quiesces and the
// faulty era ends; then plain connects arrive.  The generic model (quiescence re-certification +
// Must/Maybe admission) says what has to happen; nothing here is specific to one history.

/// actions that keep the listener: used as noise inside recovery histories
fn noise_strategy() -> BoxedStrategy<Act> {
    let h = 0u8..2;
    prop_oneof![
        3 => (h.clone(), 0u8..3).prop_map(|(h, l)| Act::Accept { h, l }),
        1 => (h.clone(), 0u8..8, 1u8..40).prop_map(|(h, c, n)| Act::Write { h, c, n }),
        1 => (h.clone(), 0u8..8, 1u8..60).prop_map(|(h, c, n)| Act::Read { h, c, n }),
        1 => (h.clone(), 0u8..8).prop_map(|(h, c)| Act::Shutdown { h, c }),
        2 => (h.clone(), 0u8..8).prop_map(|(h, c)| Act::Drop { h, c }),
        2 => (h, 0u8..4).prop_map(|(h, c)| Act::Cancel { h, c }),
        2 => (1u8..=3).prop_map(|n| Act::Rounds { n }),
    ]
    .boxed()
}

/// how the wire treats the era in which the handshakes are aborted
#[derive(Clone, Copy, Debug, PartialEq)]
enum Era {
    Quiet,
    Delay,
    Drops,
    /// every packet leaving the listener's host vanishes: SYN-ACK retransmissions run out
    ListenerBlackholed,
    /// the first RSTs are lost: a half-open child whose connector is gone is never told
    RstLost,
}

/// One handshake of a recovery history: started from the listener's own host (`same`, folded) or
/// from the other one; cancelled `Some(r)` rounds later or left alone; then `gap` rounds.
type Handshake = (bool, Option<u8>, u8);

#[allow(clippy::too_many_arguments)]
fn recovery_acts(lh: u8, port: u8, bind: BindTo, v6: bool, hs: &[Handshake], noise: &[(u8, Act)], wait: u8, after: u32, settle: u8, accepts: u8, tail: &[Act], second: Option<(&[Handshake], u32)>) -> Vec<Act> {
    let mut acts = vec![Act::Listen { h: lh, port, bind, v6 }];
    let push_hs = |acts: &mut Vec<Act>, hs: &[Handshake]| {
        for (same, cancel, gap) in hs.iter().copied() {
            acts.push(Act::ConnectL { l: 0, same, lo: false });
            if let Some(r) = cancel {
                if r > 0 {
                    acts.push(Act::Rounds { n: r });
                }
                acts.push(Act::Cancel { h: if same { lh } else { 1 - lh }, c: 0 });
            }
            if gap > 0 {
                acts.push(Act::Rounds { n: gap });
            }
        }
    };
    push_hs(&mut acts, hs);
    for (pos, a) in noise.iter() {
        let at = 1 + (*pos as usize) % acts.len();
        acts.insert(at, a.clone());
    }
    for _ in 0..wait {
        acts.push(Act::Rounds { n: 8 });
    }
    acts.push(Act::Quiesce);
    for _ in 0..after {
        acts.push(Act::ConnectL { l: 0, same: false, lo: false });
    }
    acts.push(Act::Rounds { n: settle });
    for _ in 0..accepts {
        acts.push(Act::Accept { h: lh, l: 0 });
    }
    acts.extend(tail.iter().cloned());
    if let Some((hs2, after2)) = second {
        push_hs(&mut acts, hs2);
        acts.push(Act::Quiesce);
        for _ in 0..after2 {
            acts.push(Act::ConnectL { l: 0, same: false, lo: false });
        }
        acts.push(Act::Rounds { n: settle });
    }
    acts
}

fn era_plan(era: Era, t: u32, lh: u8, from: u32, delay: &FatePlan, faulty: &(FatePlan, bool)) -> (FatePlan, bool, Option<u8>) {
    match era {
        Era::Quiet => (FatePlan::default(), false, None),
        Era::Delay => (delay.clone(), false, None),
        Era::Drops => (faulty.0.clone(), faulty.1, Some(1)),
        Era::ListenerBlackholed => (FatePlan { max_hold: 2 * t, blackhole: Some((lh as usize, from)), ..FatePlan::default() }, false, Some(1)),
        Era::RstLost => (
            FatePlan { by_kind: vec![(Kind::Rst, 0, Fate::Drop), (Kind::Rst, 1, Fate::Drop), (Kind::Rst, 2, Fate::Drop)], max_drops: 3, max_hold: 2 * t, ..FatePlan::default() },
            true,
            Some(1),
        ),
    }
}

pub fn recovery_strategy() -> BoxedStrategy<Scenario> {
    let era = prop_oneof![3 => Just(Era::Quiet), 3 => Just(Era::Delay), 2 => Just(Era::Drops), 2 => Just(Era::ListenerBlackholed), 2 => Just(Era::RstLost)];
    let eph = prop_oneof![1 => Just(1u16), 1 => Just(2u16), 2 => Just(5u16), 4 => Just(8u16)];
    (2u32..=3, 1u32..=2, prop_oneof![3 => Just(1u32), 2 => Just(2u32), 1 => Just(3u32)], 0u32..=2, eph, era)
        .prop_flat_map(|(t, m, backlog, extra, eph, era)| {
            let k = (backlog + extra) as usize;
            let hl = h_live(t, m);
            let handshake = (prop::bool::weighted(0.1), prop::option::weighted(0.85, 0u8..4), 0u8..5);
            let lst = (0u8..2, 0u8..2, prop_oneof![Just(BindTo::Any), Just(BindTo::Host)], prop::bool::weighted(0.25));
            let delay = (prop::collection::vec(fate_strategy(hl.max(1), false), 0..30), prop::collection::vec(0u8..3, 0..30))
                .prop_map(move |(by_id, prio)| if hl >= 1 { FatePlan { by_id, by_kind: Vec::new(), prio, max_drops: 0, max_hold: hl, blackhole: None } } else { FatePlan::default() });
            let faulty = (prop::collection::vec(fate_strategy(2 * t, true), 0..30), prop::collection::vec(0u8..3, 0..30), 1..=m, prop::bool::weighted(0.3))
                .prop_map(move |(by_id, prio, max_drops, drop_rst)| (FatePlan { by_id, by_kind: Vec::new(), prio, max_drops, max_hold: 2 * t, blackhole: None }, drop_rst));
            (
                lst,
                prop::collection::vec(handshake.clone(), k..=k),
                prop::collection::vec((0u8..32, noise_strategy()), 0..3),
                (0u8..4, 1u32..=backlog, 2u8..=6, 0u8..=3, 0u32..8),
                prop::collection::vec(act_strategy(), 0..6),
                prop::option::weighted(0.3, (prop::collection::vec(handshake, 1..=k), 1u32..=backlog)),
                delay,
                faulty,
            )
                .prop_map(move |((lh, port, bind, v6), hs, noise, (wait, after, settle, accepts, from), tail, second, delay, faulty)| {
                    let (plan, drop_rst, calm_after) = era_plan(era, t, lh, from, &delay, &faulty);
                    let wait = if matches!(era, Era::Quiet | Era::Delay) { wait.min(1) } else { wait };
                    let acts = recovery_acts(lh, port, bind, v6, &hs, &noise, wait, after, settle, accepts, &tail, second.as_ref().map(|(h2, a2)| (h2.as_slice(), *a2)));
                    Scenario { retx_threshold: t, retx_max: m, backlog, eph_len: [eph, eph], acts, plan, drop_rst, strict: false, calm_after }
                })
        })
        .boxed()
}

/// Bounded-exhaustive family of recovery histories: (retx_threshold, retx_max) in {(2,1),(3,2)} x
/// backlog 1..=3 x k = backlog or backlog+1 aborted handshakes x how they are aborted (cancelled
/// 0/1/2/3 rounds after the connect started; left to time out against a black-holed listener host;
/// cancelled after one round with the connector's RSTs lost) x one after the other / all at once x
/// listener on the wildcard / the host address x IPv4 / IPv6.  After the quiescence point exactly
/// `backlog` plain connects arrive together (all must be admitted), are accepted, and one more follows.
fn recovery_family() -> Vec<Scenario> {
    let mut v = Vec::new();
    for (t, m) in [(2u32, 1u32), (3, 2)] {
        for backlog in 1u32..=3 {
            for extra in 0u32..=1 {
                for mode in 0u8..6 {
                    for concurrent in [false, true] {
                        for bind in [BindTo::Any, BindTo::Host] {
                            for v6 in [false, true] {
                                let k = (backlog + extra) as usize;
                                let budget = ((m + 2) * t + 2) as u8;
                                let (era, cancel): (Era, Option<u8>) = match mode {
                                    0..=3 => (Era::Quiet, Some(mode)),
                                    4 => (Era::ListenerBlackholed, None),
                                    _ => (Era::RstLost, Some(1)),
                                };
                                let mut acts = vec![Act::Listen { h: 0, port: 0, bind, v6 }];
                                let rounds = |acts: &mut Vec<Act>, mut n: u8| {
                                    while n > 0 {
                                        acts.push(Act::Rounds { n: n.min(8) });
                                        n -= n.min(8);
                                    }
                                };
                                if concurrent {
                                    for _ in 0..k {
                                        acts.push(Act::ConnectL { l: 0, same: false, lo: false });
                                    }
                                    if let Some(r) = cancel {
                                        rounds(&mut acts, r);
                                        for _ in 0..k {
                                            acts.push(Act::Cancel { h: 1, c: 0 });
                                        }
                                    }
                                    rounds(&mut acts, if era == Era::Quiet { 2 } else { budget });
                                } else {
                                    for _ in 0..k {
                                        acts.push(Act::ConnectL { l: 0, same: false, lo: false });
                                        if let Some(r) = cancel {
                                            rounds(&mut acts, r);
                                            acts.push(Act::Cancel { h: 1, c: 0 });
                                        }
                                        rounds(&mut acts, if era == Era::Quiet { 2 } else { budget });
                                    }
                                }
                                acts.push(Act::Quiesce);
                                for _ in 0..backlog {
                                    acts.push(Act::ConnectL { l: 0, same: false, lo: false });
                                }
                                acts.push(Act::Rounds { n: 6 });
                                for _ in 0..backlog {
                                    acts.push(Act::Accept { h: 0, l: 0 });
                                }
                                acts.push(Act::ConnectL { l: 0, same: false, lo: false });
                                acts.push(Act::Rounds { n: 6 });
                                acts.push(Act::Accept { h: 0, l: 0 });
                                let (plan, drop_rst, calm_after) = era_plan(era, t, 0, 0, &FatePlan::default(), &(FatePlan::default(), false));
                                v.push(Scenario { retx_threshold: t, retx_max: m, backlog, eph_len: [8, 8], acts, plan, drop_rst, strict: false, calm_after });
                            }
                        }
                    }
                }
            }
        }
    }
    v
}

fn check(tier: Tier, seed: u64) -> i32 {
    let ctx = Ctx::new("C13", tier, seed, "exploration");
    ctx.replay_corpus(&replay);
    ctx.random("lifecycle", tier.pick(40_000, 600_000), &|| strategy(), &run);
    ctx.random("recovery", tier.pick(12_000, 150_000), &|| recovery_strategy(), &run);
    ctx.exhaustive(
        "recovery-family",
        "(retx_threshold,retx_max) in {(2,1),(3,2)} x backlog 1..3 x k = backlog | backlog+1 aborted handshakes x abort mode (cancel 0/1/2/3 rounds after the connect started | listener host black-holed until SYN-ACK retransmissions run out | cancel after 1 round with the connector's RSTs lost) x sequential | concurrent x listener on wildcard | host address x IPv4 | IPv6; then quiesce (faulty eras end there), `backlog` plain connects at once, accept them, one more connect + accept",
        Box::new(recovery_family().into_iter()),
        &run,
    );
    ctx.finish(
        "random scenarios: KernelConfig (retx_threshold 2..4, retx_max 1..4, backlog 1/2/3/1024) x ephemeral range of 1/2/3/5 ports per host (hook H3) x 4..37 actions on two dual-stack hosts (listen on wildcard/host/loopback address, drop listener, connect to a live listener cross-host / through the own address / through loopback, connect to an arbitrary address+port, cancel a pending connect, poll accept once, try_write, try_read, shutdown, drop, 1..3 wire rounds, quiesce) x fate plan (none 27% / holds within the handshake-safe bound + reordering 27% / holds up to 2*threshold, <= retx_max drops, RST drops only in the drop_rst sub-class 45%); then quiesce, drain every listener and drop everything, quiesce, H2 table counts must be (0,0,0) on both hosts, then re-bind every used port and reconnect over up to 6 used 4-tuples (H3 pins the client port). In 12% of the faulty plans one host is black-holed from some packet id on; in 30% of all scenarios the plan stops at the 1st or 2nd Quiesce action (`calm_after`: the calm era). At EVERY quiescence point each live listener's backlog occupancy is re-derived from first principles (attempts that never returned Ok occupy nothing, accepted ones nothing, open unaccepted Ok ones one slot each) and, when nothing is uncertain, the taint of earlier aborted handshakes is lifted, so that later connects are judged Must/full again; 4-tuples of attempts that never succeeded count as unburdened after a quiescence point. Sub `recovery` (random): one listener (backlog 1/2/3, wildcard or host address, IPv4/IPv6, retx_threshold 2..3, retx_max 1..2, ephemeral range 1/2/5/8), k = backlog..backlog+2 handshakes each cancelled 0..3 rounds after its start or left alone, from the other host (90%) or the listener's own (folded), 0..4 rounds apart, 0..2 noise actions (accept/write/read/shutdown/drop/cancel/rounds), under an era plan (quiet 25% / live-safe holds 25% / drops+holds 17% / listener host black-holed 17% / the first three RSTs lost 17%; the last three end at the quiescence point), up to 3x8 further rounds, Quiesce, then 1..backlog plain connects at once, 2..6 rounds, 0..3 accepts, 0..5 random actions, and in 30% a second batch of aborted handshakes + Quiesce + connects. Sub `recovery-family` (exhaustive, 576 histories): see its space description. The netstat state of the peer is read at every cancel/shutdown/drop and counted as a class. Non-trivial = a shutdown/drop met a peer whose state was not ESTABLISHED (SYN_RCVD, SYN_SENT, FIN_WAIT1/2, CLOSE_WAIT, LAST_ACK, CLOSING), or a connect was cancelled while the server already had a TCB for it, or a listener was dropped under a half-open child; distinct by scenario hash.",
        &[
            "the liveness half of the connect clause (Refused / Ok / TimedOut exactly as the listener+backlog model says) is only judged on runs without loss whose holds stay within ((retx_max+1)*retx_threshold-3)/2 rounds and for attempts whose 4-tuple is not burdened by an earlier incarnation; safety clauses are judged always",
            "quiescence = every packet delivered and no emission for Q = retx_threshold*(retx_max+2) consecutive rounds (after which no retransmit counter is running)",
            "loopback / own-address connections are folded inside Kernel::egress: no fates apply to them and their SYN retransmissions are invisible, so a folded SYN that meets a full backlog is only bounded, not predicted",
            "RST segments are not retransmitted; the plan drops one only in the drop_rst sub-class",
            "a half-open (SYN_RCVD) child cannot outlive a quiescence point: it is established by the handshake ACK, reset by the answer to its SYN-ACK, or runs out of SYN-ACK retransmissions, and each retransmission breaks the idle period (Q exceeds the whole retransmit budget); hence a connector whose connect never returned Ok (cancelled, timed out) holds no backlog slot and burdens no 4-tuple after a quiescence point. The re-certification is skipped for a listener for which netstat still shows a SYN_RCVD child",
            "calm era (`calm_after`): after the chosen quiescence point every packet is delivered in the round it is emitted; connects started there are judged by the liveness half of the connect clause even if the plan before that point was lossy, provided their 4-tuple is unburdened and the listener's occupancy was re-certified exactly at a quiescence point (otherwise only bounds apply, as before)",
            "Listen results are not judged here (C17 does); a failed bind just leaves the model without that listener",
            "a connect that cannot get a source port (ephemeral range of its family exhausted) fails on its first poll; the property does not name the error kind of that implicit bind, so AddrInUse and AddrNotAvailable are both accepted, but only when every port of the range really is in use (otherwise connect:addr-*-while-ephemeral-ports-are-free); any other immediate error is a violation; both hosts own an IPv4 and an IPv6 address, so AddrNotAvailable cannot stand for a missing source address",
            "findings F-C13-1..5 are tolerated only while known_findings.json lists them with status \"known\", and then only on the objects the model attributes to them (counted under excluded_by_known_finding); with status \"fixed\" the full clause is asserted again; their committed probe scenarios run with `strict` and assert the full clause; C13_STRICT=1 switches every tolerance off for a whole run (used to validate fixes: with the five proposed patches applied 1.2 million strict cases pass)",
        ],
    )
}

/// Sub `probe-<finding id>`: the committed minimal scenario of a known finding, run without any
/// tolerance (`strict`); its failure gets a dedicated signature so that the known-finding entry
/// cannot mask a different failure of the random tier.
fn replay(sub: &str, v: &Value) -> Result<Outcome, String> {
    let mut o = replay_as::<Scenario>(v, &run)?;
    if let Some(tag) = sub.strip_prefix("probe-") {
        if let Some(f) = o.failure.as_mut() {
            f.signature = format!("{tag}:{}", f.signature);
        }
    }
    Ok(o)
}

// ---------------------------------------------------------------- coverage-guided tier

/// Clamp a byte-decoded scenario (engine::bytesde) into the union of the domains of `strategy()`
/// (sub `lifecycle`) and `recovery_strategy()` (sub `recovery`).  The generator's plan class (none /
/// delay within the handshake-safe bound / faulty), which has no field of its own, is taken from
/// the decoded `plan.max_hold`, a field all three classes derive from (threshold, budget); `strict`
/// is forced to false; a black-hole (host 0..1, from packet id 0..23) survives only in the faulty
/// class; `calm_after` is None or 1..=2; ephemeral ranges 1/2/3/5/8 ports; `Rounds` 1..=8.
pub fn fuzz_sanitize(sc: &mut Scenario) -> bool {
    sc.retx_threshold = 2 + sc.retx_threshold % 3;
    sc.retx_max = 1 + sc.retx_max % 4;
    sc.backlog = [1u32, 2, 3, 1024][(sc.backlog % 4) as usize];
    for e in sc.eph_len.iter_mut() {
        *e = [1u16, 2, 3, 5, 8][(*e % 5) as usize];
    }
    sc.strict = false;
    sc.calm_after = sc.calm_after.map(|n| 1 + n % 2);
    let (t, m) = (sc.retx_threshold, sc.retx_max);
    // acts: one first action + 3..36 more; every action in act_strategy's ranges (the weighted
    // `first` alternative, a Listen, is inside act_strategy's domain too)
    sc.acts.truncate(36);
    while sc.acts.len() < 4 {
        sc.acts.push(Act::Rounds { n: 1 });
    }
    for a in sc.acts.iter_mut() {
        match a {
            Act::Listen { h, port, .. } => {
                *h %= 2;
                *port %= 2;
            }
            Act::DropListener { h, l } | Act::Accept { h, l } => {
                *h %= 2;
                *l %= 3;
            }
            Act::Connect { h, to, port, .. } => {
                *h %= 2;
                if let Some(x) = to {
                    *x %= 2;
                }
                *port %= 2;
            }
            Act::ConnectL { l, .. } => *l %= 3,
            Act::Cancel { h, c } => {
                *h %= 2;
                *c %= 4;
            }
            Act::Write { h, c, n } => {
                *h %= 2;
                *c %= 8;
                *n = 1 + *n % 39;
            }
            Act::Read { h, c, n } => {
                *h %= 2;
                *c %= 8;
                *n = 1 + *n % 59;
            }
            Act::Shutdown { h, c } | Act::Drop { h, c } => {
                *h %= 2;
                *c %= 8;
            }
            Act::Rounds { n } => *n = 1 + *n % 8,
            Act::Quiesce => {}
        }
    }
    // plan_strategy(t, m)
    let hl = h_live(t, m);
    let class = match sc.plan.max_hold % 11 {
        0..=2 => 0,
        3..=5 if hl >= 1 => 1,
        3..=5 => 0,
        _ => 2,
    };
    if class == 0 {
        sc.plan = FatePlan::default();
        sc.drop_rst = false;
        return true;
    }
    let drops = class == 2;
    let mh = if drops { 2 * t } else { hl };
    let fate = |f: Fate| match f {
        Fate::Hold(k) => Fate::Hold(1 + k % mh.max(1)),
        Fate::Drop if !drops => Fate::Now,
        x => x,
    };
    sc.plan.by_id.truncate(39);
    for f in sc.plan.by_id.iter_mut() {
        *f = fate(*f);
    }
    sc.plan.by_kind.truncate(if drops { 3 } else { 2 });
    for (k, n, f) in sc.plan.by_kind.iter_mut() {
        *k = match *k {
            Kind::WindowUpdate => Kind::PureAck,
            Kind::Udp => Kind::Rst,
            x => x,
        };
        *n %= 3;
        *f = fate(*f);
    }
    sc.plan.prio.truncate(39);
    for p in sc.plan.prio.iter_mut() {
        *p %= 3;
    }
    sc.plan.max_hold = mh;
    sc.plan.blackhole = if drops { sc.plan.blackhole.map(|(h, from)| (h % 2, from % 24)) } else { None };
    if drops {
        sc.plan.max_drops %= (m + 1).max(4);
    } else {
        sc.plan.max_drops = 0;
        sc.drop_rst = false;
    }
    true
}

//! C11 — `Sim::run` is Ok iff every client finished Ok in time.
//! DESIGN.md §6 C11.  The model computes the *set* of admissible outcomes
//! (boundary finishes may be attributed to either adjacent step; several
//! softwares failing in one step may be reported in either order).
//!
//! Two oracles run side by side:
//!
//! * **outcome model** — a set-valued reference model stepped in lock-step with
//!   the simulation.  A *world* is the set of boundary events that were deferred
//!   to the next step; `Model::step` maps a world to every admissible
//!   `(output, next world)` pair.  `run()` phases are compared against the
//!   terminal results reachable from the current worlds, `step()` phases are
//!   compared step by step; the worlds that do not agree with what was observed
//!   (result and completion flags of the main futures) are dropped.  The model fixes the number
//!   of steps of a `run()` only where the property does: a `run()` that starts with nothing to
//!   wait for (every registered client already finished Ok, or no client at all) may return Ok
//!   on the spot or after one more step; either way the state is carried forward as observed.
//! * **poll oracle** — every future of every software (main future and every
//!   task it spawns, with `spawn_local` or `tokio::spawn`) is wrapped in a
//!   [`Probe`] that knows which *incarnation* of the software it belongs to.
//!   Once an incarnation finished (main future returned and the step ended),
//!   was crashed, or was replaced by a bounce, no probe of it may ever be
//!   polled again — whatever the controller does afterwards (crash, bounce,
//!   crash+bounce at arbitrary steps, further `run()` calls).

use crate::engine::{replay_as, Ctx, Outcome, Tier};
use proptest::prelude::*;
use serde::{Deserialize, Serialize};
use serde_json::Value;
use std::collections::BTreeSet;
use std::future::Future;
use std::net::{IpAddr, Ipv4Addr};
use std::panic::{catch_unwind, AssertUnwindSafe};
use std::pin::Pin;
use std::sync::atomic::{AtomicU32, AtomicU64, Ordering::Relaxed};
use std::sync::{Arc, Mutex};
use std::task::{Context, Poll};
use std::time::{Duration, SystemTime};

pub const PROP: super::Prop = super::Prop {
    id: "C11",
    level: "exploration",
    check,
    replay,
};

#[derive(Clone, Copy, Debug, Serialize, Deserialize, PartialEq, Eq)]
pub enum Kind {
    Ok,
    Err,
    Never,
    Panic,
    /// the panic happens in a task spawned by the software; main future pends
    PanicSpawned,
}

#[derive(Clone, Copy, Debug, Serialize, Deserialize, PartialEq, Eq)]
pub enum TaskKind {
    /// wakes every millisecond for ever
    Ticker,
    /// the main future binds a TCP listener on its own port and hands it to a task that accepts for ever
    Tcp,
    /// same with a UDP socket and `recv_from`
    Udp,
    /// "time bomb": panics `t_ms` after the software started
    Bomb,
}

/// A task the software spawns in the first poll of its main future; it outlives the main future.
#[derive(Clone, Debug, Serialize, Deserialize)]
pub struct Task {
    pub kind: TaskKind,
    #[serde(default)]
    pub t_ms: u32,
    /// `tokio::task::spawn_local` (true) or `tokio::spawn` (false)
    #[serde(default)]
    pub local: bool,
}

#[derive(Clone, Debug, Serialize, Deserialize)]
pub struct Sw {
    pub client: bool,
    pub t_ms: u32,
    pub kind: Kind,
    /// spawn a background ticker that outlives the main future
    pub bg: bool,
    #[serde(default)]
    pub tasks: Vec<Task>,
}

#[derive(Clone, Copy, Debug, Serialize, Deserialize, PartialEq, Eq)]
pub enum CtlKind {
    Crash,
    Bounce,
    CrashBounce,
}

/// Controller action in the middle of a step-mode phase: after `at` steps of the phase.
#[derive(Clone, Debug, Serialize, Deserialize)]
pub struct Ctl {
    pub at: u32,
    pub kind: CtlKind,
    /// index into the hosts registered so far (modulo their number)
    pub host: usize,
}

#[derive(Clone, Debug, Serialize, Deserialize)]
pub struct Phase {
    pub register: Vec<Sw>,
    /// hosts to crash before running (index into the hosts registered so far, modulo their number)
    pub crash: Vec<usize>,
    /// true: call run(); false: step() loop
    pub use_run: bool,
    /// hosts to bounce (restart) before running, after the crashes: the software starts again,
    /// with its outcome time counted from now
    #[serde(default)]
    pub bounce: Vec<usize>,
    /// step mode only: 0 = step until step() reports completion (emulates run());
    /// n > 0 = call step() exactly n times, whatever it reports (stops at an error or panic)
    #[serde(default)]
    pub steps: u32,
    /// step mode only: crash / bounce / crash+bounce between two steps of the phase
    #[serde(default)]
    pub ops: Vec<Ctl>,
}

#[derive(Clone, Debug, Serialize, Deserialize)]
pub struct Scenario {
    pub tick_ms: u32,
    pub duration_ms: u32,
    pub seed: u64,
    pub random_order: bool,
    pub phases: Vec<Phase>,
}

// ------------------------------------------------------------------------------------------
// reference model
// ------------------------------------------------------------------------------------------

#[derive(Clone, Debug, PartialEq, Eq, PartialOrd, Ord)]
enum Res {
    Ok(u64),
    ErrSw(usize, u64),
    ErrDuration(u64),
    Panic(u64),
}

/// What one step may report.
#[derive(Clone, Debug, PartialEq, Eq, PartialOrd, Ord)]
enum Out {
    Done(bool),
    ErrSw(usize),
    ErrDuration,
    Panic,
}

/// An event of the current incarnation of a software: it happens in step `first`, or — when its
/// virtual time is exactly a step boundary (`amb`) — in step `first` or `first + 1`.
#[derive(Clone, Debug)]
struct Ev {
    first: u64,
    amb: bool,
}

fn ev(start: u64, t: u64, tick: u64) -> Ev {
    if t == 0 {
        Ev { first: start + 1, amb: false }
    } else if t % tick == 0 {
        Ev { first: start + t / tick, amb: true }
    } else {
        Ev { first: start + t.div_ceil(tick), amb: false }
    }
}

/// (software, 0 = main future | 1 + j = j-th time bomb)
type EvId = (usize, usize);
/// The boundary events that did not happen in their first step and therefore happen in the next.
type World = BTreeSet<EvId>;

#[derive(Clone, Debug)]
struct MSw {
    client: bool,
    /// main future of the current incarnation (Ok / Err / Panic) and its finish step;
    /// None: never finishes, or the host is crashed
    main: Option<(Kind, Ev)>,
    /// panics in spawned tasks; they only go off while the software is still running
    bombs: Vec<Ev>,
}

impl MSw {
    fn start(sw: &Sw, start: u64, tick: u64) -> (MSw, bool) {
        let mut boundary = false;
        let mut mk = |t: u32| {
            let e = ev(start, t as u64, tick);
            boundary |= e.amb;
            e
        };
        let main = match sw.kind {
            Kind::Never | Kind::PanicSpawned => None,
            k => Some((k, mk(sw.t_ms))),
        };
        let mut bombs = Vec::new();
        if sw.kind == Kind::PanicSpawned {
            bombs.push(mk(sw.t_ms));
        }
        for t in &sw.tasks {
            if t.kind == TaskKind::Bomb {
                bombs.push(mk(t.t_ms));
            }
        }
        (MSw { client: sw.client, main, bombs }, boundary)
    }
    fn stop(&mut self) {
        self.main = None;
        self.bombs.clear();
    }
}

/// Has the event happened by the end of step `k`, in the world `after` that follows step `k`?
fn fired_by_end(e: &Ev, id: EvId, k: u64, after: &World) -> bool {
    e.first < k || (e.first == k && !after.contains(&id))
}

struct Model {
    tick: u64,
    dur: u64,
    sws: Vec<MSw>,
}

impl Model {
    /// Every admissible (output, next world) of step `k` entered in world `d`.
    /// None: too many simultaneous boundary events to enumerate.
    fn step(&self, d: &World, k: u64) -> Option<BTreeSet<(Out, World)>> {
        let mut must: Vec<EvId> = Vec::new();
        let mut may: Vec<EvId> = Vec::new();
        for (i, s) in self.sws.iter().enumerate() {
            let mut consider = |id: EvId, e: &Ev| {
                if d.contains(&id) {
                    must.push(id);
                } else if e.first == k {
                    if e.amb {
                        may.push(id);
                    } else {
                        must.push(id);
                    }
                }
            };
            if let Some((_, e)) = &s.main {
                consider((i, 0), e);
            }
            for (j, b) in s.bombs.iter().enumerate() {
                consider((i, j + 1), b);
            }
        }
        if may.len() > 10 {
            return None;
        }
        let mut res = BTreeSet::new();
        for mask in 0..(1u32 << may.len()) {
            let mut firing = must.clone();
            let mut d2 = World::new();
            for (p, id) in may.iter().enumerate() {
                if (mask >> p) & 1 == 1 {
                    firing.push(*id);
                } else {
                    d2.insert(*id);
                }
            }
            let mut panic_sw = BTreeSet::new();
            let mut err_sw = BTreeSet::new();
            for (i, j) in &firing {
                let s = &self.sws[*i];
                if *j == 0 {
                    match s.main.as_ref().map(|m| m.0) {
                        Some(Kind::Panic) => {
                            panic_sw.insert(*i);
                        }
                        Some(Kind::Err) => {
                            err_sw.insert(*i);
                        }
                        _ => {}
                    }
                } else {
                    // a spawned task is only polled while its software runs: the main future must
                    // not have finished in an earlier step (finishing in this very step is fine:
                    // the rest of the tick still runs the software's tasks)
                    let finished_before = match &s.main {
                        Some((_, e)) => e.first < k && !d.contains(&(*i, 0)),
                        None => false,
                    };
                    if !finished_before {
                        panic_sw.insert(*i);
                    }
                }
            }
            if !panic_sw.is_empty() || !err_sw.is_empty() {
                if !panic_sw.is_empty() {
                    res.insert((Out::Panic, d2.clone()));
                }
                for i in err_sw {
                    // a panic in the same software in the same tick unwinds before the result is collected
                    if !panic_sw.contains(&i) {
                        res.insert((Out::ErrSw(i), d2.clone()));
                    }
                }
                continue;
            }
            let clients_done = self.sws.iter().enumerate().filter(|(_, s)| s.client).all(|(i, s)| match &s.main {
                Some((Kind::Ok, e)) => fired_by_end(e, (i, 0), k, &d2),
                _ => false,
            });
            let out = if k * self.tick > self.dur && !clients_done {
                Out::ErrDuration
            } else {
                Out::Done(clients_done)
            };
            res.insert((out, d2));
        }
        Some(res)
    }

    /// Does world `w` (after step `k`) agree with the observed completion of the Ok main futures?
    fn consistent(&self, w: &World, k: u64, done: &[bool]) -> bool {
        self.sws.iter().enumerate().all(|(i, s)| match &s.main {
            Some((Kind::Ok, e)) => fired_by_end(e, (i, 0), k, w) == done[i],
            _ => true,
        })
    }

    /// Is there nothing a `run()` started after `e` steps in world `w` could wait for?  True when
    /// every registered client has already completed Ok (vacuously true without any client).
    /// The property fixes the *result* of such a call (Ok, unless software fails in a step it
    /// takes) but not whether it still takes a step.
    fn nothing_to_wait_for(&self, w: &World, e: u64) -> bool {
        self.sws.iter().enumerate().filter(|(_, s)| s.client).all(|(i, s)| match &s.main {
            Some((Kind::Ok, ev)) => fired_by_end(ev, (i, 0), e, w),
            _ => false,
        })
    }

    /// All terminal results of `run()` started after `e` steps in one of the worlds `fr`,
    /// each with the world it leaves behind.
    ///
    /// In a world with nothing to wait for two behaviours are admissible: return Ok on the spot
    /// (no step: elapsed unchanged, nothing polled, so nothing can fail or panic), or step until
    /// completion is reported (one step, which reports completion unless host software fails in
    /// it).  The observation picks one and the world is carried forward accordingly.
    fn run_terminals(&self, fr: &BTreeSet<World>, e: u64) -> Option<Vec<(Res, World)>> {
        let mut term: Vec<(Res, World)> =
            fr.iter().filter(|w| self.nothing_to_wait_for(w, e)).map(|w| (Res::Ok(e), w.clone())).collect();
        term.extend(self.run_offline(fr, e)?);
        Some(term)
    }

    /// All terminal results of a `run()` that steps until completion is reported, started after
    /// `e` steps in one of the worlds `fr`, each with the world it leaves behind.
    fn run_offline(&self, fr: &BTreeSet<World>, e: u64) -> Option<Vec<(Res, World)>> {
        let mut term = Vec::new();
        let mut fr = fr.clone();
        let mut k = e;
        while !fr.is_empty() {
            k += 1;
            let mut next = BTreeSet::new();
            for w in &fr {
                for (o, w2) in self.step(w, k)? {
                    match o {
                        Out::Done(false) => {
                            next.insert(w2);
                        }
                        Out::Done(true) => term.push((Res::Ok(k), w2)),
                        Out::ErrDuration => term.push((Res::ErrDuration(k), w2)),
                        Out::ErrSw(i) => term.push((Res::ErrSw(i, k), w2)),
                        Out::Panic => term.push((Res::Panic(k), w2)),
                    }
                }
            }
            fr = next;
        }
        Some(term)
    }
}

// ------------------------------------------------------------------------------------------
// software under the simulation
// ------------------------------------------------------------------------------------------

/// Shared between the harness and every future of one software.
struct SwState {
    idx: usize,
    /// number of times the software was started = number of the current incarnation (1-based)
    inc: AtomicU32,
    /// incarnations <= this finished, were crashed or were replaced: never to be polled again
    dead_upto: AtomicU32,
    /// incarnation whose main future has returned (Ok or Err); 0 = none yet
    main_done: AtomicU32,
    polls: AtomicU64,
    dead_polls: AtomicU64,
    first_dead_poll: Mutex<Option<String>>,
}

impl SwState {
    fn kill_upto(&self, inc: u32) {
        self.dead_upto.fetch_max(inc, Relaxed);
    }
    fn done(&self) -> bool {
        let inc = self.inc.load(Relaxed);
        inc > 0 && self.main_done.load(Relaxed) == inc
    }
}

/// Records every poll of a future of incarnation `inc`.
struct Probe<F> {
    st: Arc<SwState>,
    inc: u32,
    what: &'static str,
    inner: Pin<Box<F>>,
}

fn probe<F: Future>(st: &Arc<SwState>, inc: u32, what: &'static str, f: F) -> Probe<F> {
    Probe { st: st.clone(), inc, what, inner: Box::pin(f) }
}

impl<F: Future> Future for Probe<F> {
    type Output = F::Output;
    fn poll(self: Pin<&mut Self>, cx: &mut Context<'_>) -> Poll<F::Output> {
        let me = self.get_mut();
        me.st.polls.fetch_add(1, Relaxed);
        let dead = me.st.dead_upto.load(Relaxed);
        if me.inc <= dead {
            me.st.dead_polls.fetch_add(1, Relaxed);
            let mut g = me.st.first_dead_poll.lock().unwrap();
            if g.is_none() {
                *g = Some(format!(
                    "software s{} incarnation {} ({} task) was polled although incarnations <= {} are finished / crashed / replaced (current incarnation {})",
                    me.st.idx,
                    me.inc,
                    me.what,
                    dead,
                    me.st.inc.load(Relaxed)
                ));
            }
        }
        me.inner.as_mut().poll(cx)
    }
}

fn spawn_task<F: Future<Output = ()> + Send + 'static>(local: bool, f: F) {
    if local {
        tokio::task::spawn_local(f);
    } else {
        tokio::spawn(f);
    }
}

const PORT0: u16 = 9000;

/// Called once per incarnation: directly for a client, by the host factory on registration and
/// on every bounce.
fn software(sw: Sw, idx: usize, st: Arc<SwState>) -> impl Future<Output = turmoil::Result> + 'static {
    let inc = st.inc.fetch_add(1, Relaxed) + 1;
    // whatever ran before belongs to a replaced incarnation
    st.kill_upto(inc - 1);
    let st2 = st.clone();
    probe(&st, inc, "main", async move {
        let st = st2;
        if sw.bg {
            spawn_task(
                true,
                probe(&st, inc, "ticker", async move {
                    loop {
                        tokio::time::sleep(Duration::from_millis(1)).await;
                    }
                }),
            );
        }
        for (j, t) in sw.tasks.iter().enumerate() {
            let port = PORT0 + j as u16;
            match t.kind {
                TaskKind::Ticker => spawn_task(
                    t.local,
                    probe(&st, inc, "ticker", async move {
                        loop {
                            tokio::time::sleep(Duration::from_millis(1)).await;
                        }
                    }),
                ),
                TaskKind::Tcp => {
                    let l = match turmoil::net::TcpListener::bind((IpAddr::V4(Ipv4Addr::UNSPECIFIED), port)).await {
                        Ok(l) => l,
                        Err(e) => {
                            st.main_done.store(inc, Relaxed);
                            let r: turmoil::Result = Err(format!("B{idx} tcp port {port}: {e}").into());
                            return r;
                        }
                    };
                    spawn_task(
                        t.local,
                        probe(&st, inc, "tcp-listener", async move {
                            loop {
                                let _ = l.accept().await;
                            }
                        }),
                    );
                }
                TaskKind::Udp => {
                    let s = match turmoil::net::UdpSocket::bind((IpAddr::V4(Ipv4Addr::UNSPECIFIED), port)).await {
                        Ok(s) => s,
                        Err(e) => {
                            st.main_done.store(inc, Relaxed);
                            let r: turmoil::Result = Err(format!("B{idx} udp port {port}: {e}").into());
                            return r;
                        }
                    };
                    spawn_task(
                        t.local,
                        probe(&st, inc, "udp-socket", async move {
                            let mut buf = [0u8; 8];
                            loop {
                                let _ = s.recv_from(&mut buf).await;
                            }
                        }),
                    );
                }
                TaskKind::Bomb => {
                    let d = Duration::from_millis(t.t_ms as u64);
                    spawn_task(
                        t.local,
                        probe(&st, inc, "bomb", async move {
                            tokio::time::sleep(d).await;
                            panic!("PB{idx}");
                        }),
                    );
                }
            }
        }
        let d = Duration::from_millis(sw.t_ms as u64);
        match sw.kind {
            Kind::Ok => {
                tokio::time::sleep(d).await;
                st.main_done.store(inc, Relaxed);
                Ok(())
            }
            Kind::Err => {
                tokio::time::sleep(d).await;
                st.main_done.store(inc, Relaxed);
                Err(format!("E{idx}"))?
            }
            Kind::Never => std::future::pending().await,
            Kind::Panic => {
                tokio::time::sleep(d).await;
                panic!("P{idx}");
            }
            Kind::PanicSpawned => {
                spawn_task(
                    true,
                    probe(&st, inc, "bomb", async move {
                        tokio::time::sleep(d).await;
                        panic!("PS{idx}");
                    }),
                );
                std::future::pending().await
            }
        }
    })
}

// ------------------------------------------------------------------------------------------
// interpreter + oracle
// ------------------------------------------------------------------------------------------

struct Track {
    sw: Sw,
    st: Arc<SwState>,
    crashed: bool,
}

impl Track {
    fn leftovers(&self) -> bool {
        self.sw.bg || !self.sw.tasks.is_empty()
    }
}

enum Obs {
    Panic,
    Ok(bool),
    Err(String),
}

struct Run<'a> {
    sim: turmoil::Sim<'a>,
    m: Model,
    tr: Vec<Track>,
    fr: BTreeSet<World>,
    /// steps executed so far
    e: u64,
    out: Outcome,
    lifecycle: bool,
}

impl Run<'_> {
    fn dead_poll(&mut self) -> bool {
        for t in &self.tr {
            if t.st.dead_polls.load(Relaxed) > 0 {
                let d = t.st.first_dead_poll.lock().unwrap().clone().unwrap_or_default();
                self.out.fail(
                    "finished-or-crashed-software-polled-again",
                    format!("{d}; {} such polls after {} steps", t.st.dead_polls.load(Relaxed), self.e),
                );
                return true;
            }
        }
        false
    }

    /// Softwares whose main future returned are finished from the end of the step on.
    fn bury_finished(&mut self) {
        for t in &self.tr {
            if t.st.done() {
                t.st.kill_upto(t.st.inc.load(Relaxed));
            }
        }
    }

    fn done_flags(&self) -> Vec<bool> {
        self.tr.iter().map(|t| t.st.done()).collect()
    }

    fn host_at(&self, c: usize) -> Option<usize> {
        let hosts: Vec<usize> = (0..self.tr.len()).filter(|i| !self.tr[*i].sw.client).collect();
        if hosts.is_empty() {
            None
        } else {
            Some(hosts[c % hosts.len()])
        }
    }

    /// crash and/or bounce host `c`; returns false if a violation was recorded
    fn ctl(&mut self, kind: CtlKind, c: usize, mid: bool) -> bool {
        let Some(h) = self.host_at(c) else { return true };
        let name = format!("s{h}");
        let tick = self.m.tick;
        if mid {
            self.out.label("mid-phase-op");
        }
        if matches!(kind, CtlKind::Crash | CtlKind::CrashBounce) {
            let state = if self.tr[h].crashed {
                "crashed"
            } else if self.tr[h].st.done() {
                "finished"
            } else {
                "running"
            };
            self.out.label(format!("crash-of-{state}-host"));
            if state != "running" {
                self.lifecycle = true;
            }
            self.sim.crash(name.clone());
            self.tr[h].st.kill_upto(self.tr[h].st.inc.load(Relaxed));
            self.tr[h].crashed = true;
            self.m.sws[h].stop();
            for w in std::mem::take(&mut self.fr) {
                self.fr.insert(w.into_iter().filter(|id| id.0 != h).collect());
            }
            self.out.label("crashed-host");
            if self.dead_poll() {
                return false;
            }
        }
        if matches!(kind, CtlKind::Bounce | CtlKind::CrashBounce) {
            let state = if self.tr[h].crashed {
                "crashed"
            } else if self.tr[h].st.done() {
                "finished"
            } else {
                "running"
            };
            self.out.label(format!("bounce-of-{state}-host"));
            if self.tr[h].leftovers() {
                self.out.label(format!("bounce-of-{state}-host-with-spawned-tasks"));
                self.lifecycle = true;
            }
            if state != "running" {
                self.lifecycle = true;
            }
            if self.tr[h].sw.tasks.iter().any(|t| matches!(t.kind, TaskKind::Tcp | TaskKind::Udp)) {
                self.out.label("port-rebind-after-restart");
            }
            let before = self.tr[h].st.inc.load(Relaxed);
            self.sim.bounce(name);
            if self.tr[h].st.inc.load(Relaxed) != before + 1 {
                self.out.fail(
                    "bounce-did-not-start-software-exactly-once",
                    format!("bounce of s{h}: software started {} times", self.tr[h].st.inc.load(Relaxed) - before),
                );
                return false;
            }
            self.tr[h].crashed = false;
            let (ms, _) = MSw::start(&self.tr[h].sw, self.e, tick);
            self.m.sws[h] = ms;
            for w in std::mem::take(&mut self.fr) {
                self.fr.insert(w.into_iter().filter(|id| id.0 != h).collect());
            }
            self.out.label("bounced-host");
            if matches!(self.tr[h].sw.kind, Kind::Panic | Kind::PanicSpawned)
                || self.tr[h].sw.tasks.iter().any(|t| t.kind == TaskKind::Bomb)
            {
                self.out.label("panic-in-restarted-host");
            }
            if self.dead_poll() {
                return false;
            }
        }
        true
    }

    fn classify_err(&mut self, msg: &str, may_panic: bool) -> Option<Out> {
        // Software errors carry the harness's own markers ("E<n>", "B<n> ..."); every other error
        // comes from turmoil itself.  The property does not fix the wording of the "duration
        // exceeded" error, so it is not matched by text: a foreign error is the duration error
        // unless it is a tokio JoinError of a panicked task where a panic had to unwind.
        if let Some(n) = msg.strip_prefix('E').and_then(|s| s.parse::<usize>().ok()) {
            Some(Out::ErrSw(n))
        } else if msg.starts_with('B') && msg.contains(" port ") {
            self.out.fail(
                "bind-failed-port-held-by-finished-or-crashed-software",
                format!("a freshly (re)started software could not bind its own port: {msg:?}; nothing else on that host may still be running"),
            );
            None
        } else if may_panic && msg.contains("panic") {
            self.out.fail(
                "software-panic-returned-as-error-instead-of-unwinding",
                format!("run returned Err({msg:?}) where a host/client panic had to surface as a panic of the caller"),
            );
            None
        } else {
            Some(Out::ErrDuration)
        }
    }

    /// One observed step of a step-mode phase.  Ok(Some(obs)): consistent, continue;
    /// Ok(None): the model gave up (too ambiguous); Err(()): violation recorded.
    fn one_step(&mut self, pi: usize) -> Result<Option<Obs>, ()> {
        let k = self.e + 1;
        let mut cand: BTreeSet<(Out, World)> = BTreeSet::new();
        for w in &self.fr {
            match self.m.step(w, k) {
                Some(r) => cand.extend(r),
                None => return Ok(None),
            }
        }
        let sim = &mut self.sim;
        let got = catch_unwind(AssertUnwindSafe(|| sim.step().map_err(|e| e.to_string())));
        if got.is_err() {
            crate::engine::take_last_panic();
        }
        if self.dead_poll() {
            return Err(());
        }
        let outs: BTreeSet<Out> = cand.iter().map(|c| c.0.clone()).collect();
        let may_panic = outs.contains(&Out::Panic);
        let (obs, o) = match got {
            Err(_) => (Obs::Panic, Out::Panic),
            Ok(Ok(b)) => (Obs::Ok(b), Out::Done(b)),
            Ok(Err(msg)) => match self.classify_err(&msg, may_panic) {
                Some(o) => (Obs::Err(msg), o),
                None => return Err(()),
            },
        };
        if !outs.contains(&o) {
            let sig = match &o {
                Out::ErrDuration if outs.contains(&Out::Done(true)) => "duration-error-but-clients-finished-in-time",
                Out::ErrDuration => "duration-error-unexpected",
                Out::Done(true) if outs.contains(&Out::Done(false)) => "completion-reported-before-all-clients-finished",
                Out::Done(true) => "ok-but-model-says-error",
                Out::Done(false) if outs.contains(&Out::Done(true)) => "completion-not-reported",
                Out::Done(false) if outs.contains(&Out::ErrDuration) => "duration-exceeded-but-no-error",
                Out::Done(false) if outs.contains(&Out::Panic) => "panic-swallowed",
                Out::Done(false) => "software-error-swallowed",
                Out::ErrSw(_) => "software-error-unexpected",
                Out::Panic => "panic-unexpected",
            };
            self.out.fail(
                sig,
                format!("phase {pi}: step {k} reported {o:?}, admissible {outs:?} (elapsed {:?})", self.sim.elapsed()),
            );
            return Err(());
        }
        if let Obs::Ok(_) = obs {
            self.e = k;
            let el = self.sim.elapsed().as_millis() as u64;
            if el != k * self.m.tick {
                self.out.fail(
                    "elapsed-not-multiple-of-tick",
                    format!("after {k} steps of {}ms elapsed is {el}ms", self.m.tick),
                );
                return Err(());
            }
            let done = self.done_flags();
            let next: BTreeSet<World> = cand
                .into_iter()
                .filter(|(c, w)| *c == o && self.m.consistent(w, k, &done))
                .map(|(_, w)| w)
                .collect();
            if next.is_empty() {
                self.out.fail(
                    "finish-step-outside-model-window",
                    format!("phase {pi}: after step {k} ({o:?}) the main futures that have returned are {done:?}; no admissible attribution of the finishes to steps matches"),
                );
                return Err(());
            }
            self.fr = next;
        }
        self.bury_finished();
        Ok(Some(obs))
    }
}

pub fn run(sc: &Scenario) -> Outcome {
    let tick = sc.tick_ms.max(1) as u64;
    let dur = sc.duration_ms as u64;
    let mut b = turmoil::Builder::new();
    b.tick_duration(Duration::from_millis(tick))
        .simulation_duration(Duration::from_millis(dur))
        .epoch(SystemTime::UNIX_EPOCH + Duration::from_secs(1))
        .rng_seed(sc.seed);
    if sc.random_order {
        b.enable_random_order();
    }
    let mut r = Run {
        sim: b.build(),
        m: Model { tick, dur, sws: Vec::new() },
        tr: Vec::new(),
        fr: BTreeSet::from([World::new()]),
        e: 0,
        out: Outcome::ok(),
        lifecycle: false,
    };
    let mut kinds = BTreeSet::new();
    let mut boundary = false;
    let mut near_deadline = false;
    let kstar = dur / tick + 1;
    // after an error only the poll oracle goes on (continuing a failed simulation is outside
    // the outcome clauses, but finished / crashed software must stay unpolled all the same)
    let mut tail = false;

    'phases: for (pi, ph) in sc.phases.iter().enumerate() {
        if !tail {
            for sw in &ph.register {
                let idx = r.tr.len();
                let st = Arc::new(SwState {
                    idx,
                    inc: AtomicU32::new(0),
                    dead_upto: AtomicU32::new(0),
                    main_done: AtomicU32::new(0),
                    polls: AtomicU64::new(0),
                    dead_polls: AtomicU64::new(0),
                    first_dead_poll: Mutex::new(None),
                });
                let name = format!("s{idx}");
                if sw.client {
                    r.sim.client(name, software(sw.clone(), idx, st.clone()));
                } else {
                    let (s2, st2) = (sw.clone(), st.clone());
                    r.sim.host(name, move || software(s2.clone(), idx, st2.clone()));
                }
                let (ms, amb) = MSw::start(sw, r.e, tick);
                boundary |= amb;
                for e in ms.main.iter().map(|m| &m.1).chain(ms.bombs.iter()) {
                    if e.first + 1 >= kstar && e.first <= kstar + 1 {
                        near_deadline = true;
                    }
                }
                kinds.insert(format!("{:?}", sw.kind));
                if sw.bg || !sw.tasks.is_empty() {
                    r.out.label(if sw.client { "client-with-spawned-tasks" } else { "host-with-spawned-tasks" });
                    if matches!(sw.kind, Kind::Ok | Kind::Err) {
                        r.out.label("main-future-finishes-before-its-tasks");
                    }
                }
                for t in &sw.tasks {
                    r.out.label(format!("task-{:?}-{}", t.kind, if t.local { "spawn_local" } else { "spawn" }));
                }
                r.m.sws.push(ms);
                r.tr.push(Track { sw: sw.clone(), st, crashed: false });
            }
        }
        for c in &ph.crash {
            if !r.ctl(CtlKind::Crash, *c, false) {
                return r.out;
            }
        }
        for c in &ph.bounce {
            if !r.ctl(CtlKind::Bounce, *c, false) {
                return r.out;
            }
        }

        if tail {
            // poll oracle only
            r.out.label("tail-after-error");
            let n = if ph.steps > 0 { ph.steps.min(24) } else { 6 };
            for s in 0..n {
                for op in ph.ops.iter().filter(|op| op.at == s && s > 0) {
                    if !r.ctl(op.kind, op.host, true) {
                        return r.out;
                    }
                }
                let sim = &mut r.sim;
                let got = catch_unwind(AssertUnwindSafe(|| sim.step().map(|_| ()).map_err(|e| e.to_string())));
                if r.dead_poll() {
                    return r.out;
                }
                match got {
                    Err(_) => {
                        crate::engine::take_last_panic();
                        break 'phases;
                    }
                    Ok(Err(msg)) if msg.starts_with('B') => {
                        r.classify_err(&msg, false);
                        return r.out;
                    }
                    _ => {}
                }
                r.bury_finished();
            }
            continue;
        }

        if ph.use_run {
            // ---- run()
            let any_client = r.tr.iter().any(|t| t.sw.client);
            let idle = r.fr.iter().any(|w| r.m.nothing_to_wait_for(w, r.e));
            if idle {
                r.out.label(if any_client { "run-with-all-clients-already-finished" } else { "run-without-clients" });
            }
            let term: Vec<(Res, World)> = match r.m.run_terminals(&r.fr, r.e) {
                Some(t) => t,
                None => {
                    r.out.label("model-gave-up-too-ambiguous");
                    break 'phases;
                }
            };
            let adm: BTreeSet<Res> = term.iter().map(|t| t.0.clone()).collect();
            let sim = &mut r.sim;
            let got = catch_unwind(AssertUnwindSafe(|| sim.run().map_err(|e| e.to_string())));
            if r.dead_poll() {
                return r.out;
            }
            let el = r.sim.elapsed().as_millis() as u64;
            let may_panic = adm.iter().any(|x| matches!(x, Res::Panic(_)));
            let actual = match &got {
                Err(_) => {
                    crate::engine::take_last_panic();
                    // which step? unknown from outside; accept any admissible Panic
                    adm.iter().find(|x| matches!(x, Res::Panic(_))).cloned().unwrap_or(Res::Panic(0))
                }
                Ok(Ok(())) => {
                    if el % tick != 0 {
                        r.out.fail("elapsed-not-multiple-of-tick", format!("elapsed {el}ms tick {tick}"));
                        return r.out;
                    }
                    Res::Ok(el / tick)
                }
                Ok(Err(msg)) => match r.classify_err(msg, may_panic) {
                    None => return r.out,
                    Some(Out::ErrDuration) => Res::ErrDuration(el / tick),
                    Some(Out::ErrSw(n)) => {
                        // the erroring step leaves elapsed at (k-1)*tick or k*tick: find an admissible k
                        let k = adm
                            .iter()
                            .filter_map(|x| match x {
                                Res::ErrSw(i, k) if *i == n && (*k == el / tick || *k == el / tick + 1) => Some(*k),
                                _ => None,
                            })
                            .next()
                            .unwrap_or(el / tick + 1);
                        Res::ErrSw(n, k)
                    }
                    Some(_) => unreachable!(),
                },
            };
            if !adm.contains(&actual) {
                let sig = match (&actual, adm.iter().next()) {
                    (Res::Ok(_), Some(Res::Ok(_))) => "ok-at-wrong-elapsed",
                    (Res::Ok(_), _) => "ok-but-model-says-error",
                    (Res::ErrDuration(_), Some(Res::Ok(_))) => "duration-error-but-clients-finished-in-time",
                    (Res::ErrDuration(_), _) => "duration-error-unexpected",
                    (Res::ErrSw(..), _) => "software-error-unexpected",
                    (Res::Panic(_), _) => "panic-unexpected",
                };
                r.out.fail(
                    sig,
                    format!("phase {pi}: result {actual:?} (raw {got:?}, elapsed {el}ms) not in admissible set {adm:?}"),
                );
                return r.out;
            }
            match actual {
                Res::Ok(k) => {
                    r.out.label("phase-ok");
                    if idle {
                        r.out.label(if k == r.e { "idle-run-took-no-step" } else { "idle-run-took-a-step" });
                    }
                    r.e = k;
                    let done = r.done_flags();
                    let next: BTreeSet<World> = term
                        .into_iter()
                        .filter(|(x, w)| *x == actual && r.m.consistent(w, k, &done))
                        .map(|(_, w)| w)
                        .collect();
                    if next.is_empty() {
                        r.out.fail(
                            "finish-step-outside-model-window",
                            format!("phase {pi}: run returned Ok after {k} steps with returned main futures {done:?}; no admissible attribution of the finishes to steps matches"),
                        );
                        return r.out;
                    }
                    r.fr = next;
                    r.bury_finished();
                }
                Res::ErrDuration(_) => {
                    r.out.label("duration-error");
                    r.bury_finished();
                    tail = true;
                }
                Res::ErrSw(..) => {
                    r.out.label("software-error");
                    r.bury_finished();
                    tail = true;
                }
                Res::Panic(_) => {
                    r.out.label("panic");
                    break 'phases;
                }
            }
        } else {
            // ---- step() loop
            r.out.label(if ph.steps > 0 { "step-n-mode" } else { "step-mode" });
            let mut s: u32 = 0;
            loop {
                for op in ph.ops.iter().filter(|op| op.at == s && s > 0) {
                    if !r.ctl(op.kind, op.host, true) {
                        return r.out;
                    }
                }
                let obs = match r.one_step(pi) {
                    Err(()) => return r.out,
                    Ok(None) => {
                        r.out.label("model-gave-up-too-ambiguous");
                        break 'phases;
                    }
                    Ok(Some(o)) => o,
                };
                s += 1;
                match obs {
                    Obs::Panic => {
                        r.out.label("panic");
                        break 'phases;
                    }
                    Obs::Err(msg) => {
                        r.out.label(if msg.strip_prefix('E').is_some_and(|t| t.parse::<usize>().is_ok()) || msg.starts_with('B') { "software-error" } else { "duration-error" });
                        tail = true;
                        break;
                    }
                    Obs::Ok(fin) => {
                        if ph.steps == 0 && fin {
                            r.out.label("phase-ok");
                            break;
                        }
                        if ph.steps > 0 && s >= ph.steps {
                            r.out.label("phase-ok");
                            if fin {
                                r.out.label("steps-after-completion");
                            }
                            break;
                        }
                        if s > 100_000 {
                            r.out.fail("harness-step-loop-did-not-end", "step loop did not end");
                            return r.out;
                        }
                    }
                }
            }
        }
        if pi > 0 && !tail {
            r.out.label("second-run");
        }
    }
    // nothing that was finished / crashed / replaced may have been polled, whatever the outcome
    if r.dead_poll() {
        return r.out;
    }
    for t in &r.tr {
        // a bomb that never went off because its software had finished or was stopped first
        if t.st.inc.load(Relaxed) > 0 && t.sw.tasks.iter().any(|x| x.kind == TaskKind::Bomb) && t.st.done() {
            r.out.label("bomb-outlived-its-software");
        }
    }
    r.out.count("polls", r.tr.iter().map(|t| t.st.polls.load(Relaxed)).sum());
    if boundary {
        r.out.label("boundary-finish");
    }
    if near_deadline {
        r.out.label("finish-near-duration");
    }
    if sc.random_order {
        r.out.label("random-order");
    }
    r.out.nontrivial = kinds.len() >= 2 || boundary || near_deadline || r.lifecycle;
    r.out
}

// ------------------------------------------------------------------------------------------
// generators
// ------------------------------------------------------------------------------------------

fn t_strategy(tick: u32, dur: u32, early: u32) -> BoxedStrategy<u32> {
    let tk = tick.max(1);
    if early == 0 {
        // the distribution of the first version of this check
        return prop_oneof![
            3 => 0u32..=(dur + 2 * tick + 3),
            2 => (0u32..=4, 0u32..3).prop_map(move |(d, s)| (dur / tk * tk + s * tick).saturating_sub(2) + d),
            1 => (0u32..=(dur / tk + 2)).prop_map(move |k| k * tick),
        ]
        .boxed();
    }
    prop_oneof![
        3 => 0u32..=(dur + 2 * tick + 3),
        2 => (0u32..=4, 0u32..3).prop_map(move |(d, s)| (dur / tk * tk + s * tick).saturating_sub(2) + d),
        1 => (0u32..=(dur / tk + 2)).prop_map(move |k| k * tick),
        early => 0u32..=(3 * tick),
    ]
    .boxed()
}

fn task_strategy(tick: u32, dur: u32) -> BoxedStrategy<Task> {
    (
        prop_oneof![
            3 => Just(TaskKind::Ticker),
            2 => Just(TaskKind::Tcp),
            1 => Just(TaskKind::Udp),
            2 => Just(TaskKind::Bomb),
        ],
        t_strategy(tick, dur, 2),
        any::<bool>(),
    )
        .prop_map(|(kind, t_ms, local)| Task { kind, t_ms: if kind == TaskKind::Bomb { t_ms } else { 0 }, local })
        .boxed()
}

/// `life`: biased towards the lifecycle class — hosts whose main future finishes early while
/// tasks it spawned are still alive.
fn sw_strategy(tick: u32, dur: u32, life: bool) -> BoxedStrategy<Sw> {
    let tasks = if life {
        proptest::collection::vec(task_strategy(tick, dur), 1..4).boxed()
    } else {
        prop_oneof![
            3 => Just(Vec::new()),
            2 => proptest::collection::vec(task_strategy(tick, dur), 1..3),
        ]
        .boxed()
    };
    let kind = if life {
        prop_oneof![
            8 => Just(Kind::Ok),
            2 => Just(Kind::Err),
            2 => Just(Kind::Never),
            1 => Just(Kind::Panic),
            1 => Just(Kind::PanicSpawned),
        ]
        .boxed()
    } else {
        prop_oneof![
            6 => Just(Kind::Ok),
            2 => Just(Kind::Err),
            2 => Just(Kind::Never),
            1 => Just(Kind::Panic),
            1 => Just(Kind::PanicSpawned),
        ]
        .boxed()
    };
    let client = if life { prop_oneof![2 => Just(false), 1 => Just(true)].boxed() } else { any::<bool>().boxed() };
    (client, t_strategy(tick, dur, if life { 6 } else { 0 }), kind, any::<bool>(), tasks)
        .prop_map(|(client, t_ms, kind, bg, tasks)| Sw { client, t_ms, kind, bg, tasks })
        .boxed()
}

fn ctl_strategy() -> BoxedStrategy<Ctl> {
    (
        1u32..=14,
        prop_oneof![Just(CtlKind::Crash), Just(CtlKind::Bounce), Just(CtlKind::Bounce), Just(CtlKind::CrashBounce)],
        0usize..8,
    )
        .prop_map(|(at, kind, host)| Ctl { at, kind, host })
        .boxed()
}

fn scenario_strategy(life: bool) -> BoxedStrategy<Scenario> {
    (1u32..=12, 1u32..=80, any::<u64>(), any::<bool>())
        .prop_flat_map(move |(tick_ms, duration_ms, seed, random_order)| {
            let ph = (
                proptest::collection::vec(sw_strategy(tick_ms, duration_ms, life), 0..5),
                proptest::collection::vec(0usize..8, 0..2),
                if life { prop_oneof![1 => Just(true), 3 => Just(false)].boxed() } else { any::<bool>().boxed() },
                proptest::collection::vec(0usize..8, if life { 0..3 } else { 0..2 }),
                if life {
                    prop_oneof![2 => Just(0u32), 1 => 1u32..=20, 2 => 2u32..=12].boxed()
                } else {
                    prop_oneof![2 => Just(0u32), 1 => 1u32..=20].boxed()
                },
                proptest::collection::vec(ctl_strategy(), if life { 0..4 } else { 0..2 }),
            )
                .prop_map(|(mut register, crash, use_run, bounce, steps, ops)| {
                    // at most one never-finishing client per phase, and not in most phases
                    let mut seen = false;
                    for s in register.iter_mut() {
                        if s.client && s.kind == Kind::Never {
                            if seen {
                                s.client = false;
                            }
                            seen = true;
                        }
                    }
                    if use_run {
                        Phase { register, crash, use_run, bounce, steps: 0, ops: Vec::new() }
                    } else {
                        Phase { register, crash, use_run, bounce, steps, ops }
                    }
                });
            proptest::collection::vec(ph, if life { 2..5 } else { 1..4 }).prop_map(move |phases| Scenario {
                tick_ms,
                duration_ms,
                seed,
                random_order,
                phases,
            })
        })
        .boxed()
}

pub fn strategy() -> BoxedStrategy<Scenario> {
    scenario_strategy(false)
}

/// Clamp a structurally decoded scenario into the generator's domain (fuzz tier).
pub fn fuzz_sanitize(sc: &mut Scenario) -> bool {
    sc.tick_ms = 1 + sc.tick_ms % 12;
    sc.duration_ms = 1 + sc.duration_ms % 80;
    sc.phases.truncate(4);
    let tmax = sc.duration_ms + 2 * sc.tick_ms + 4;
    for ph in sc.phases.iter_mut() {
        ph.register.truncate(4);
        let mut seen_never = false;
        for s in ph.register.iter_mut() {
            s.t_ms %= tmax;
            if s.client && s.kind == Kind::Never {
                if seen_never {
                    s.client = false;
                }
                seen_never = true;
            }
            s.tasks.truncate(3);
            for t in s.tasks.iter_mut() {
                t.t_ms = if t.kind == TaskKind::Bomb { t.t_ms % tmax } else { 0 };
            }
        }
        ph.crash.truncate(2);
        for c in ph.crash.iter_mut() {
            *c %= 8;
        }
        ph.bounce.truncate(2);
        for c in ph.bounce.iter_mut() {
            *c %= 8;
        }
        ph.steps %= 21;
        ph.ops.truncate(3);
        for op in ph.ops.iter_mut() {
            op.at = 1 + op.at % 14;
            op.host %= 8;
        }
        if ph.use_run {
            ph.steps = 0;
            ph.ops.clear();
        }
    }
    !sc.phases.is_empty()
}

fn check(tier: Tier, seed: u64) -> i32 {
    let ctx = Ctx::new("C11", tier, seed, "exploration");
    ctx.replay_corpus(&replay);
    ctx.random("outcomes", tier.pick(40_000, 600_000), &|| scenario_strategy(false), &run);
    ctx.random("lifecycle", tier.pick(30_000, 300_000), &|| scenario_strategy(true), &run);
    ctx.finish(
        "random scenarios of 1-4 register-then-run phases; each software is a client or host whose main future finishes Ok / Err / never / panics at a generated virtual time and which may spawn tasks (spawn_local or tokio::spawn) that outlive the main future: millisecond tickers, holders of a TCP listener / UDP socket bound by the main future, delayed panics; a phase is run(), a step() loop until completion is reported, or exactly n step() calls; hosts are crashed / bounced / crashed+bounced before a phase and between two steps of a step-mode phase, whether they are running, finished or crashed. Sub-tier `lifecycle` is the same generator biased to hosts that finish early with live tasks and to more controller actions. Oracles: (1) set-valued outcome model stepped with the simulation (boundary finishes either adjacent step; same-step failures of different softwares either order; late panics of finished / crashed / replaced incarnations excluded; a run() that starts with nothing to wait for — every registered client already finished Ok in earlier phases, or no client registered — may return Ok without stepping, elapsed unchanged and nothing polled, or take exactly one step whose software errors / panics surface, the observed alternative being carried forward), compared with every step() result, every run() result and Sim::elapsed; (2) every future of every software records its polls per incarnation: none may be polled after its incarnation finished (from the end of that step), was crashed or was replaced by a bounce; (3) a restarted software must be able to bind the port its dead incarnation held. Non-trivial = >=2 outcome kinds present, or a finish exactly on a step boundary, or a finish within one step of the duration limit, or a crash/bounce of a finished or crashed host or of a host with spawned tasks. Distinct by scenario hash.",
        &[
            "built with --cfg tokio_unstable (panic forwarding)",
            "the step in which a panic surfaced inside run() cannot be observed from outside; any admissible panic step is accepted",
            "after an error the outcome model stops (continuing a failed simulation is not part of the property); the remaining phases only drive the poll oracle; after a panic the scenario stops",
            "inside run() the harness cannot mark a software finished between two steps: polls after the finish are detected from the next harness-visible point on (step mode: the very next step)",
            "the property fixes when run() returns Ok / Err, not how many steps a run() takes when there is nothing left to wait for (all clients finished earlier, or zero clients): returning at once and taking one more step are both accepted; a duration error is never admissible there",
            "every software runs on its own node, so a bind can only collide with an earlier incarnation of the same software",
        ],
    )
}

fn replay(_sub: &str, v: &Value) -> Result<Outcome, String> {
    replay_as::<Scenario>(v, &run)
}

//! C11 — `Sim::run` is Ok iff every client finished Ok in time.
//! DESIGN.md §6 C11.  The model computes the *set* of admissible outcomes
//! (boundary finishes may be attributed to either adjacent step; several
//! softwares failing in one step may be reported in either order).

use crate::engine::{replay_as, Ctx, Outcome, Tier};
use proptest::prelude::*;
use serde::{Deserialize, Serialize};
use serde_json::Value;
use std::cell::Cell;
use std::collections::BTreeSet;
use std::panic::{catch_unwind, AssertUnwindSafe};
use std::rc::Rc;
use std::time::{Duration, SystemTime};

pub const PROP: super::Prop = super::Prop {
    id: "C11",
    level: "exploration",
    check,
    replay,
};

#[derive(Clone, Copy, Debug, Serialize, Deserialize, PartialEq, Eq)]
pub enum Kind {
    Ok,
    Err,
    Never,
    Panic,
    /// the panic happens in a task spawned by the software; main future pends
    PanicSpawned,
}

#[derive(Clone, Debug, Serialize, Deserialize)]
pub struct Sw {
    pub client: bool,
    pub t_ms: u32,
    pub kind: Kind,
    /// spawn a background ticker that outlives the main future
    pub bg: bool,
}

#[derive(Clone, Debug, Serialize, Deserialize)]
pub struct Phase {
    pub register: Vec<Sw>,
    /// indices (into all softwares registered so far) of hosts to crash before running
    pub crash: Vec<usize>,
    /// true: call run(); false: emulate run() with step() and sample progress
    pub use_run: bool,
    /// indices of hosts to bounce (restart) before running: the software starts again, with
    /// its outcome time counted from now
    #[serde(default)]
    pub bounce: Vec<usize>,
}

#[derive(Clone, Debug, Serialize, Deserialize)]
pub struct Scenario {
    pub tick_ms: u32,
    pub duration_ms: u32,
    pub seed: u64,
    pub random_order: bool,
    pub phases: Vec<Phase>,
}

#[derive(Clone, Debug, PartialEq, Eq, PartialOrd, Ord)]
enum Res {
    Ok(u64),
    ErrSw(usize, u64),
    ErrDuration(u64),
    Panic(u64),
}

struct Live {
    idx: usize,
    client: bool,
    kind: Kind,
    /// candidate absolute finish steps (1 or 2 entries); empty = never
    cand: Vec<u64>,
    crashed: bool,
    /// finished in an earlier phase: never polled again, counts as done
    finished: bool,
}

/// All admissible results of one phase starting after `e` steps.
fn admissible(live: &[Live], e: u64, tick: u64, dur: u64, use_run: bool) -> BTreeSet<Res> {
    let mut out = BTreeSet::new();
    // run() looks at all registered clients, finished or not
    let any_client = live.iter().any(|l| l.client);
    if !any_client && use_run {
        out.insert(Res::Ok(e));
        return out;
    }
    // enumerate the choice for every ambiguous software
    let amb: Vec<usize> = live
        .iter()
        .enumerate()
        .filter(|(_, l)| l.cand.len() == 2 && !l.crashed && !l.finished)
        .map(|(i, _)| i)
        .collect();
    let combos = 1u64 << amb.len().min(16);
    for mask in 0..combos {
        let fin = |i: usize| -> Option<u64> {
            let l = &live[i];
            if l.finished {
                return Some(0);
            }
            if l.crashed || l.cand.is_empty() {
                return None;
            }
            if l.cand.len() == 1 {
                return Some(l.cand[0]);
            }
            let pos = amb.iter().position(|a| *a == i).unwrap();
            Some(l.cand[((mask >> pos) & 1) as usize])
        };
        let mut k = e;
        loop {
            k += 1;
            let finishing: Vec<usize> = (0..live.len()).filter(|i| fin(*i) == Some(k)).collect();
            let panics: Vec<usize> = finishing
                .iter()
                .copied()
                .filter(|i| matches!(live[*i].kind, Kind::Panic | Kind::PanicSpawned))
                .collect();
            let errs: Vec<usize> = finishing
                .iter()
                .copied()
                .filter(|i| live[*i].kind == Kind::Err)
                .collect();
            if !panics.is_empty() || !errs.is_empty() {
                if !panics.is_empty() {
                    out.insert(Res::Panic(k));
                }
                for i in errs {
                    out.insert(Res::ErrSw(live[i].idx, k));
                }
                break;
            }
            // a software already past its finish step is done; clients done?
            let clients_done = live.iter().enumerate().filter(|(_, l)| l.client).all(|(i, l)| {
                l.kind == Kind::Ok && fin(i).map(|f| f <= k).unwrap_or(false)
            });
            if clients_done {
                out.insert(Res::Ok(k));
                break;
            }
            if k * tick > dur {
                out.insert(Res::ErrDuration(k));
                break;
            }
        }
    }
    out
}

struct Handle {
    progress: Rc<Cell<u64>>,
    done: Rc<Cell<bool>>,
    frozen_at: Option<u64>,
}

fn software(
    sw: Sw,
    idx: usize,
    progress: Rc<Cell<u64>>,
    done: Rc<Cell<bool>>,
) -> impl std::future::Future<Output = turmoil::Result> + 'static {
    async move {
        if sw.bg {
            let p = progress.clone();
            tokio::task::spawn_local(async move {
                loop {
                    tokio::time::sleep(Duration::from_millis(1)).await;
                    p.set(p.get() + 1);
                }
            });
        }
        let d = Duration::from_millis(sw.t_ms as u64);
        match sw.kind {
            Kind::Ok => {
                tokio::time::sleep(d).await;
                done.set(true);
                Ok(())
            }
            Kind::Err => {
                tokio::time::sleep(d).await;
                done.set(true);
                Err(format!("E{idx}"))?
            }
            Kind::Never => std::future::pending().await,
            Kind::Panic => {
                tokio::time::sleep(d).await;
                panic!("P{idx}");
            }
            Kind::PanicSpawned => {
                tokio::task::spawn_local(async move {
                    tokio::time::sleep(d).await;
                    panic!("PS{idx}");
                });
                std::future::pending().await
            }
        }
    }
}

pub fn run(sc: &Scenario) -> Outcome {
    let mut out = Outcome::ok();
    let tick = sc.tick_ms.max(1) as u64;
    let dur = sc.duration_ms as u64;
    let mut b = turmoil::Builder::new();
    b.tick_duration(Duration::from_millis(tick))
        .simulation_duration(Duration::from_millis(dur))
        .epoch(SystemTime::UNIX_EPOCH + Duration::from_secs(1))
        .rng_seed(sc.seed);
    if sc.random_order {
        b.enable_random_order();
    }
    let mut sim = b.build();
    let mut live: Vec<Live> = Vec::new();
    let mut handles: Vec<Handle> = Vec::new();
    let mut e: u64 = 0; // steps executed so far
    let mut kinds = BTreeSet::new();
    let mut boundary = false;
    let mut near_deadline = false;
    let kstar = dur / tick + 1;

    for (pi, ph) in sc.phases.iter().enumerate() {
        for sw in &ph.register {
            let idx = live.len();
            let progress = Rc::new(Cell::new(0));
            let done = Rc::new(Cell::new(false));
            let name = format!("s{idx}");
            if sw.client {
                sim.client(name, software(sw.clone(), idx, progress.clone(), done.clone()));
            } else {
                let (s2, p2, d2) = (sw.clone(), progress.clone(), done.clone());
                sim.host(name, move || software(s2.clone(), idx, p2.clone(), d2.clone()));
            }
            let t = sw.t_ms as u64;
            let cand = if sw.kind == Kind::Never {
                vec![]
            } else if t == 0 {
                vec![e + 1]
            } else if t % tick == 0 {
                boundary = true;
                vec![e + t / tick, e + t / tick + 1]
            } else {
                vec![e + t.div_ceil(tick)]
            };
            if cand.iter().any(|c| *c + 1 >= kstar && *c <= kstar + 1) {
                near_deadline = true;
            }
            kinds.insert(format!("{:?}", sw.kind));
            live.push(Live {
                idx,
                client: sw.client,
                kind: sw.kind,
                cand,
                crashed: false,
                finished: false,
            });
            handles.push(Handle {
                progress,
                done,
                frozen_at: None,
            });
        }
        for c in &ph.crash {
            if *c < live.len() && !live[*c].client {
                sim.crash(format!("s{c}"));
                // a host whose software already finished stays finished
                if !live[*c].finished {
                    live[*c].crashed = true;
                }
                handles[*c].frozen_at = Some(handles[*c].progress.get());
                out.label("crashed-host");
            }
        }
        for c in &ph.bounce {
            if *c < live.len() && !live[*c].client {
                sim.bounce(format!("s{c}"));
                let sw = sc.phases.iter().flat_map(|p| p.register.iter()).nth(*c).cloned().unwrap();
                let t = sw.t_ms as u64;
                live[*c].cand = if sw.kind == Kind::Never {
                    vec![]
                } else if t == 0 {
                    vec![e + 1]
                } else if t % tick == 0 {
                    boundary = true;
                    vec![e + t / tick, e + t / tick + 1]
                } else {
                    vec![e + t.div_ceil(tick)]
                };
                live[*c].crashed = false;
                live[*c].finished = false;
                handles[*c].done.set(false);
                handles[*c].frozen_at = None;
                out.label("bounced-host");
                if matches!(sw.kind, Kind::Panic | Kind::PanicSpawned) {
                    out.label("panic-in-restarted-host");
                }
            }
        }
        // softwares that finished in earlier phases are no longer live for the model
        let model_live: Vec<Live> = live
            .iter()
            .map(|l| Live {
                idx: l.idx,
                client: l.client,
                kind: l.kind,
                cand: l.cand.clone(),
                crashed: l.crashed,
                finished: l.finished,
            })
            .collect();
        let adm = admissible(&model_live, e, tick, dur, ph.use_run);

        // ---- execute
        let mut frozen_fail: Option<String> = None;
        let got: Result<Result<u64, String>, ()> = catch_unwind(AssertUnwindSafe(|| {
            if ph.use_run {
                sim.run().map(|_| 0u64).map_err(|e| e.to_string())
            } else {
                let mut steps = 0u64;
                loop {
                    let r = sim.step();
                    steps += 1;
                    // progress of finished/crashed software must stay frozen
                    for (i, h) in handles.iter_mut().enumerate() {
                        match h.frozen_at {
                            Some(v) => {
                                if h.progress.get() != v && frozen_fail.is_none() {
                                    frozen_fail = Some(format!(
                                        "software s{i} finished or crashed earlier but its background task advanced {v} -> {}",
                                        h.progress.get()
                                    ));
                                }
                            }
                            None => {
                                if h.done.get() {
                                    h.frozen_at = Some(h.progress.get());
                                }
                            }
                        }
                    }
                    match r {
                        Ok(true) => return Ok(steps),
                        Ok(false) => {
                            if steps > 100_000 {
                                return Err("harness: step loop did not end".into());
                            }
                        }
                        Err(e) => return Err(e.to_string()),
                    }
                }
            }
        }))
        .map_err(|_| ());
        if let Some(f) = frozen_fail {
            out.fail("finished-or-crashed-software-polled-again", f);
            return out;
        }
        let el = sim.elapsed().as_millis() as u64;
        let actual = match &got {
            Err(()) => {
                crate::engine::take_last_panic();
                // which step? unknown from outside; accept any admissible Panic
                adm.iter().find(|r| matches!(r, Res::Panic(_))).cloned().unwrap_or(Res::Panic(0))
            }
            Ok(Ok(_)) => {
                if el % tick != 0 {
                    out.fail("elapsed-not-multiple-of-tick", format!("elapsed {el}ms tick {tick}"));
                    return out;
                }
                Res::Ok(el / tick)
            }
            Ok(Err(msg)) => {
                if msg.starts_with("Ran for duration") {
                    Res::ErrDuration(el / tick)
                } else if let Some(n) = msg.strip_prefix('E').and_then(|s| s.parse::<usize>().ok()) {
                    // erroring step leaves elapsed at (k-1)*tick or k*tick: find an admissible k
                    let k = adm
                        .iter()
                        .filter_map(|r| match r {
                            Res::ErrSw(i, k) if *i == n && (*k == el / tick || *k == el / tick + 1) => Some(*k),
                            _ => None,
                        })
                        .next()
                        .unwrap_or(el / tick + 1);
                    Res::ErrSw(n, k)
                } else if adm.iter().any(|r| matches!(r, Res::Panic(_))) {
                    out.fail("software-panic-returned-as-error-instead-of-unwinding", format!("run returned Err({msg:?}) where a host/client panic had to surface as a panic of the caller; admissible {adm:?}"));
                    return out;
                } else {
                    out.fail("unknown-error", format!("run returned unexpected error {msg:?}"));
                    return out;
                }
            }
        };
        if !adm.contains(&actual) {
            let sig = match (&actual, adm.iter().next()) {
                (Res::Ok(_), Some(Res::Ok(_))) => "ok-at-wrong-elapsed",
                (Res::Ok(_), _) => "ok-but-model-says-error",
                (Res::ErrDuration(_), Some(Res::Ok(_))) => "duration-error-but-clients-finished-in-time",
                (Res::ErrDuration(_), _) => "duration-error-unexpected",
                (Res::ErrSw(..), _) => "software-error-unexpected",
                (Res::Panic(_), _) => "panic-unexpected",
            };
            out.fail(
                sig,
                format!("phase {pi}: result {actual:?} (raw {got:?}, elapsed {el}ms) not in admissible set {adm:?}"),
            );
            return out;
        }
        match actual {
            Res::Ok(k) => {
                out.label("phase-ok");
                if !(ph.use_run && !live.iter().any(|l| l.client)) {
                    e = k;
                }
                // everything that finished up to step k is no longer live
                for l in live.iter_mut() {
                    if l.crashed || l.finished {
                        continue;
                    }
                    if l.cand.iter().all(|f| *f <= e) && !l.cand.is_empty() {
                        l.finished = true; // never polled again
                    } else if l.cand.iter().any(|f| *f <= e) {
                        // ambiguous boundary finish right at the end of the run: stop here
                        out.label("stopped-at-ambiguous-boundary");
                        out.nontrivial = kinds.len() >= 2 || boundary || near_deadline;
                        return out;
                    }
                }
            }
            Res::ErrDuration(_) => {
                out.label("duration-error");
                break;
            }
            Res::ErrSw(..) => {
                out.label("software-error");
                break;
            }
            Res::Panic(_) => {
                out.label("panic");
                break;
            }
        }
        if !ph.use_run {
            out.label("step-mode");
        }
        if pi > 0 {
            out.label("second-run");
        }
    }
    if boundary {
        out.label("boundary-finish");
    }
    if near_deadline {
        out.label("finish-near-duration");
    }
    if sc.random_order {
        out.label("random-order");
    }
    out.nontrivial = kinds.len() >= 2 || boundary || near_deadline;
    out
}

fn sw_strategy(tick: u32, dur: u32) -> BoxedStrategy<Sw> {
    let t = prop_oneof![
        3 => 0u32..=(dur + 2 * tick + 3),
        2 => (0u32..=4, 0u32..3).prop_map(move |(d, s)| (dur / tick.max(1) * tick.max(1) + s * tick).saturating_sub(2) + d),
        1 => (0u32..=(dur / tick.max(1) + 2)).prop_map(move |k| k * tick),
    ];
    (
        any::<bool>(),
        t,
        prop_oneof![
            6 => Just(Kind::Ok),
            2 => Just(Kind::Err),
            2 => Just(Kind::Never),
            1 => Just(Kind::Panic),
            1 => Just(Kind::PanicSpawned),
        ],
        any::<bool>(),
    )
        .prop_map(|(client, t_ms, kind, bg)| {
            // Never-finishing clients make every case a duration error; keep them rarer
            Sw { client, t_ms, kind, bg }
        })
        .boxed()
}

pub fn strategy() -> BoxedStrategy<Scenario> {
    (1u32..=12, 1u32..=80, any::<u64>(), any::<bool>())
        .prop_flat_map(|(tick_ms, duration_ms, seed, random_order)| {
            let ph = (
                proptest::collection::vec(sw_strategy(tick_ms, duration_ms), 0..5),
                proptest::collection::vec(0usize..8, 0..2),
                any::<bool>(),
                proptest::collection::vec(0usize..8, 0..2),
            )
                .prop_map(|(mut register, crash, use_run, bounce)| {
                    // at most one never-finishing client per phase, and not in most phases
                    let mut seen = false;
                    for s in register.iter_mut() {
                        if s.client && s.kind == Kind::Never {
                            if seen {
                                s.client = false;
                            }
                            seen = true;
                        }
                    }
                    Phase { register, crash, use_run, bounce }
                });
            proptest::collection::vec(ph, 1..4).prop_map(move |phases| Scenario {
                tick_ms,
                duration_ms,
                seed,
                random_order,
                phases,
            })
        })
        .boxed()
}

/// Clamp a structurally decoded scenario into the generator's domain (fuzz tier).
pub fn fuzz_sanitize(sc: &mut Scenario) -> bool {
    sc.tick_ms = 1 + sc.tick_ms % 12;
    sc.duration_ms = 1 + sc.duration_ms % 80;
    sc.phases.truncate(3);
    for ph in sc.phases.iter_mut() {
        ph.register.truncate(4);
        let mut seen_never = false;
        for s in ph.register.iter_mut() {
            s.t_ms %= sc.duration_ms + 2 * sc.tick_ms + 4;
            if s.client && s.kind == Kind::Never {
                if seen_never {
                    s.client = false;
                }
                seen_never = true;
            }
        }
        ph.crash.truncate(2);
        for c in ph.crash.iter_mut() {
            *c %= 8;
        }
        ph.bounce.truncate(2);
        for c in ph.bounce.iter_mut() {
            *c %= 8;
        }
    }
    !sc.phases.is_empty()
}

fn check(tier: Tier, seed: u64) -> i32 {
    let ctx = Ctx::new("C11", tier, seed, "exploration");
    ctx.replay_corpus(&replay);
    ctx.random("outcomes", tier.pick(40_000, 600_000), &|| strategy(), &run);
    ctx.finish(
        "random scenarios of 1-3 register-then-run phases; each software is a client or host that finishes Ok / Err / never / panics (main future or spawned task) at a generated virtual time, optionally with a background ticker; run() or a step() loop; crashes between phases. The model enumerates the admissible outcome set (boundary finishes either adjacent step; same-step failures either order). Non-trivial = >=2 outcome kinds present, or a finish exactly on a step boundary, or a finish within one step of the duration limit. Distinct by scenario hash.",
        &[
            "built with --cfg tokio_unstable (panic forwarding)",
            "the step in which a panic surfaced cannot be observed from outside; any admissible panic step is accepted",
            "after an error or panic the scenario stops (continuing a failed simulation is not part of the property)",
        ],
    )
}

fn replay(_sub: &str, v: &Value) -> Result<Outcome, String> {
    replay_as::<Scenario>(v, &run)
}

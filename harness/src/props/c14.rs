//! C14 — messages arrive within the configured latency window, in order on
//! equal latency.  DESIGN.md §6 C14.  SimDriver.

use crate::engine::{replay_as, Ctx, Outcome, Tier};
use proptest::prelude::*;
use serde::{Deserialize, Serialize};
use serde_json::Value;
use std::cell::{Cell, RefCell};
use std::collections::BTreeMap;
use std::rc::Rc;
use std::time::{Duration, SystemTime};
use tokio::io::{AsyncReadExt, AsyncWriteExt};

pub const PROP: super::Prop = super::Prop {
    id: "C14",
    level: "exploration",
    check,
    replay,
};

#[derive(Clone, Debug, Serialize, Deserialize)]
pub enum Sel {
    Name(usize),
    Ip(usize),
    /// regex alternation over these host indices
    Regex(Vec<usize>),
}

#[derive(Clone, Debug, Serialize, Deserialize)]
pub enum Ctl {
    LinkLatency { a: Sel, b: Sel, v: u32 },
    LinkMax { a: Sel, b: Sel, extra: u32 },
    GlobalMax { extra: u32 },
    Curve { x10: u32 },
    /// per-link override whose value is the THEN-CURRENT global setting
    /// ("pinning" a link): kind 0 = set_link_latency(global min),
    /// 1 = set_link_latency(global max), 2 = set_link_max_message_latency(global max)
    LinkPin { a: Sel, b: Sel, kind: u8 },
}

#[derive(Clone, Debug, Serialize, Deserialize)]
pub struct Flow {
    pub src: usize,
    pub dst: usize,
    pub tcp: bool,
    /// (sleep before, burst size)
    pub sends: Vec<(u32, u8)>,
}

#[derive(Clone, Debug, Serialize, Deserialize)]
pub struct Scenario {
    pub tick_ms: u32,
    pub gmin: u32,
    pub gmax: u32,
    pub lambda_x10: u32,
    pub seed: u64,
    pub random_order: bool,
    pub v6: bool,
    pub nhosts: usize,
    pub flows: Vec<Flow>,
    /// (after this many steps, action)
    pub ctl: Vec<(u32, Ctl)>,
}

#[derive(Clone, Debug)]
struct SendRec {
    flow: usize,
    seq: u32,
    step: u64,
    at: Duration,
}
#[derive(Clone, Debug)]
struct RecvRec {
    flow: usize,
    seq: u32,
    sent_at: Duration,
    at: Duration,
}

#[derive(Clone, Default)]
struct Shared {
    step: Rc<Cell<u64>>,
    sends: Rc<RefCell<Vec<SendRec>>>,
    recvs: Rc<RefCell<Vec<RecvRec>>>,
    errors: Rc<RefCell<Vec<String>>>,
    senders_done: Rc<Cell<usize>>,
    bound: Rc<Cell<usize>>,
    nhosts: Rc<Cell<usize>>,
}

const UDP_PORT: u16 = 9000;
const TCP_PORT: u16 = 9001;

fn encode(flow: usize, seq: u32, at: Duration) -> [u8; 16] {
    let mut b = [0u8; 16];
    b[0..4].copy_from_slice(&(flow as u32).to_le_bytes());
    b[4..8].copy_from_slice(&seq.to_le_bytes());
    b[8..16].copy_from_slice(&(at.as_nanos() as u64).to_le_bytes());
    b
}
fn decode(b: &[u8]) -> (usize, u32, Duration) {
    (
        u32::from_le_bytes(b[0..4].try_into().unwrap()) as usize,
        u32::from_le_bytes(b[4..8].try_into().unwrap()),
        Duration::from_nanos(u64::from_le_bytes(b[8..16].try_into().unwrap())),
    )
}

async fn host_software(sh: Shared, me: usize, v6: bool, flows: Vec<(usize, Flow)>) -> turmoil::Result {
    let any = if v6 { "::" } else { "0.0.0.0" };
    let udp = Rc::new(turmoil::net::UdpSocket::bind((any, UDP_PORT)).await?);
    let lis = turmoil::net::TcpListener::bind((any, TCP_PORT)).await?;
    sh.bound.set(sh.bound.get() + 1);
    // UDP receiver
    {
        let (sh, udp) = (sh.clone(), udp.clone());
        tokio::task::spawn_local(async move {
            let mut buf = [0u8; 64];
            loop {
                match udp.recv_from(&mut buf).await {
                    Ok((n, _from)) if n == 16 => {
                        let (flow, seq, sent_at) = decode(&buf[..16]);
                        sh.recvs.borrow_mut().push(RecvRec {
                            flow,
                            seq,
                            sent_at,
                            at: turmoil::sim_elapsed().unwrap(),
                        });
                    }
                    Ok((n, _)) => sh.errors.borrow_mut().push(format!("h{me}: datagram of {n} bytes")),
                    Err(e) => sh.errors.borrow_mut().push(format!("h{me}: recv_from {e}")),
                }
            }
        });
    }
    // TCP acceptor
    {
        let sh = sh.clone();
        tokio::task::spawn_local(async move {
            loop {
                match lis.accept().await {
                    Ok((mut s, _)) => {
                        let sh = sh.clone();
                        tokio::task::spawn_local(async move {
                            let mut buf = [0u8; 16];
                            loop {
                                match s.read_exact(&mut buf).await {
                                    Ok(_) => {
                                        let (flow, seq, sent_at) = decode(&buf);
                                        sh.recvs.borrow_mut().push(RecvRec {
                                            flow,
                                            seq,
                                            sent_at,
                                            at: turmoil::sim_elapsed().unwrap(),
                                        });
                                    }
                                    Err(_) => break,
                                }
                            }
                        });
                    }
                    Err(e) => {
                        sh.errors.borrow_mut().push(format!("h{me}: accept {e}"));
                        break;
                    }
                }
            }
        });
    }
    // senders
    for (fi, f) in flows {
        let (sh, udp) = (sh.clone(), udp.clone());
        tokio::task::spawn_local(async move {
            let dst = format!("h{}", f.dst);
            let mut seq = 0u32;
            let mut stream = None;
            // do not send before every host has bound its sockets
            while sh.bound.get() < sh.nhosts.get() {
                tokio::time::sleep(Duration::from_millis(1)).await;
            }
            if f.tcp {
                match turmoil::net::TcpStream::connect((dst.as_str(), TCP_PORT)).await {
                    Ok(s) => stream = Some(s),
                    Err(e) => {
                        sh.errors.borrow_mut().push(format!("flow {fi}: connect {e}"));
                        sh.senders_done.set(sh.senders_done.get() + 1);
                        return;
                    }
                }
            }
            for (gap, burst) in f.sends {
                if gap > 0 {
                    tokio::time::sleep(Duration::from_millis(gap as u64)).await;
                }
                for _ in 0..burst {
                    let at = turmoil::sim_elapsed().unwrap();
                    let pkt = encode(fi, seq, at);
                    sh.sends.borrow_mut().push(SendRec {
                        flow: fi,
                        seq,
                        step: sh.step.get(),
                        at,
                    });
                    let r = match stream.as_mut() {
                        Some(s) => s.write_all(&pkt).await,
                        None => udp.send_to(&pkt, (dst.as_str(), UDP_PORT)).await.map(|_| ()),
                    };
                    if let Err(e) = r {
                        sh.errors.borrow_mut().push(format!("flow {fi}: send {e}"));
                    }
                    seq += 1;
                }
            }
            sh.senders_done.set(sh.senders_done.get() + 1);
            // keep the TCP stream open until the end of the run
            std::future::pending::<()>().await;
            drop(stream);
        });
    }
    std::future::pending().await
}

fn sel_hosts(s: &Sel, n: usize) -> Vec<usize> {
    match s {
        Sel::Name(i) | Sel::Ip(i) => vec![*i % n],
        Sel::Regex(v) => {
            let mut v: Vec<usize> = v.iter().map(|i| *i % n).collect();
            v.sort();
            v.dedup();
            v
        }
    }
}

#[derive(Clone, Copy, Debug, PartialEq)]
struct Lat {
    min: u32,
    max: u32,
}

/// Model of the configuration: global + per-link overrides.
struct Model {
    global: Lat,
    links: BTreeMap<(usize, usize), Lat>,
}
impl Model {
    fn eff(&self, a: usize, b: usize) -> Lat {
        let k = (a.min(b), a.max(b));
        self.links.get(&k).copied().unwrap_or(self.global)
    }
}

enum Applied {
    LinkLatency(Vec<(usize, usize)>, u32),
    LinkMax(Vec<(usize, usize)>, u32),
    GlobalMax(u32),
    Curve(f64),
    Skip,
}

fn pairs(a: &Sel, b: &Sel, n: usize) -> Vec<(usize, usize)> {
    let mut out = Vec::new();
    for x in sel_hosts(a, n) {
        for y in sel_hosts(b, n) {
            if x != y {
                out.push((x, y));
            }
        }
    }
    out
}

fn apply_model(m: &mut Model, c: &Ctl, n: usize) -> Applied {
    match c {
        Ctl::LinkLatency { a, b, v } => {
            let ps = pairs(a, b, n);
            if ps.is_empty() {
                return Applied::Skip;
            }
            for (x, y) in &ps {
                m.links.insert((*x.min(y), *x.max(y)), Lat { min: *v, max: *v });
            }
            Applied::LinkLatency(ps, *v)
        }
        Ctl::LinkMax { a, b, extra } => {
            let ps = pairs(a, b, n);
            if ps.is_empty() {
                return Applied::Skip;
            }
            // one value for all selected links: must not be below any of their minimums
            let base = ps.iter().map(|(x, y)| m.eff(*x, *y).min).max().unwrap();
            let v = base + extra;
            for (x, y) in &ps {
                let cur = m.eff(*x, *y);
                m.links.insert((*x.min(y), *x.max(y)), Lat { min: cur.min, max: v });
            }
            Applied::LinkMax(ps, v)
        }
        Ctl::LinkPin { a, b, kind } => {
            let ps = pairs(a, b, n);
            if ps.is_empty() {
                return Applied::Skip;
            }
            match kind % 3 {
                0 | 1 => {
                    let v = if kind % 3 == 0 { m.global.min } else { m.global.max };
                    for (x, y) in &ps {
                        m.links.insert((*x.min(y), *x.max(y)), Lat { min: v, max: v });
                    }
                    Applied::LinkLatency(ps, v)
                }
                _ => {
                    let v = m.global.max;
                    // documented precondition max >= min: not below any selected link's minimum
                    if ps.iter().any(|(x, y)| m.eff(*x, *y).min > v) {
                        return Applied::Skip;
                    }
                    for (x, y) in &ps {
                        let cur = m.eff(*x, *y);
                        m.links.insert((*x.min(y), *x.max(y)), Lat { min: cur.min, max: v });
                    }
                    Applied::LinkMax(ps, v)
                }
            }
        }
        Ctl::GlobalMax { extra } => {
            // "set the max message latency for all links": the global setting;
            // a link that has a per-link setting keeps it (per-link takes
            // precedence over the global one, whichever was made first).
            m.global.max = m.global.min + extra;
            Applied::GlobalMax(m.global.max)
        }
        Ctl::Curve { x10 } => Applied::Curve((*x10).max(1) as f64 / 10.0),
    }
}

pub fn run(sc: &Scenario) -> Outcome {
    let mut out = Outcome::ok();
    let n = sc.nhosts.clamp(2, 4);
    let tick = sc.tick_ms.max(1);
    let sh = Shared::default();
    sh.nhosts.set(n);
    let mut b = turmoil::Builder::new();
    b.tick_duration(Duration::from_millis(tick as u64))
        .min_message_latency(Duration::from_millis(sc.gmin as u64))
        .max_message_latency(Duration::from_millis(sc.gmax.max(sc.gmin) as u64))
        .epoch(SystemTime::UNIX_EPOCH + Duration::from_secs(1))
        .rng_seed(sc.seed)
        .simulation_duration(Duration::from_secs(100_000));
    if sc.random_order {
        b.enable_random_order();
    }
    if sc.v6 {
        b.ip_version(turmoil::IpVersion::V6);
    }
    let mut sim = b.build();
    sim.set_message_latency_curve(sc.lambda_x10.max(1) as f64 / 10.0);

    let flows: Vec<(usize, Flow)> = sc
        .flows
        .iter()
        .cloned()
        .enumerate()
        .map(|(i, mut f)| {
            f.src %= n;
            f.dst %= n;
            if f.dst == f.src {
                f.dst = (f.src + 1) % n;
            }
            (i, f)
        })
        .collect();
    for h in 0..n {
        let mine: Vec<(usize, Flow)> = flows.iter().filter(|(_, f)| f.src == h).cloned().collect();
        let shc = sh.clone();
        let v6 = sc.v6;
        sim.host(format!("h{h}"), move || host_software(shc.clone(), h, v6, mine.clone()));
    }
    let nsenders = flows.len();

    let mut model = Model {
        global: Lat { min: sc.gmin, max: sc.gmax.max(sc.gmin) },
        links: BTreeMap::new(),
    };
    // model snapshots per step (config in force during step k)
    let mut eff_at: Vec<BTreeMap<(usize, usize), Lat>> = vec![BTreeMap::new()];
    let mut overall_max = model.global.max;
    let mut midrun_override = false;
    let mut global_changes = 0u32;
    let mut midrun_global_after_override = false;
    // global setting in force during step k (to count messages whose per-link window differs from it)
    let mut global_at: Vec<Lat> = vec![model.global];
    let total_gap: u64 = flows
        .iter()
        .map(|(_, f)| f.sends.iter().map(|(g, _)| *g as u64).sum::<u64>())
        .max()
        .unwrap_or(0);
    let mut tail: Option<u64> = None;
    let mut done_steps = 0u32;
    loop {
        for (at, c) in &sc.ctl {
            if *at == done_steps {
                match apply_model(&mut model, c, n) {
                    Applied::LinkLatency(_, v) => {
                        let (a, b) = match c {
                            Ctl::LinkLatency { a, b, .. } | Ctl::LinkPin { a, b, .. } => (a, b),
                            _ => unreachable!(),
                        };
                        call_sel(&sim, a, b, n, |x, y| sim_set(&sim, x, y, v, false));
                        if done_steps > 0 {
                            midrun_override = true;
                        }
                        out.label("link-fixed-override");
                        if matches!(c, Ctl::LinkPin { .. }) {
                            out.label("link-pinned-to-current-global-value");
                        }
                        if global_changes > 0 {
                            out.label("link-override-after-global-change");
                        }
                    }
                    Applied::LinkMax(_, v) => {
                        let (a, b) = match c {
                            Ctl::LinkMax { a, b, .. } | Ctl::LinkPin { a, b, .. } => (a, b),
                            _ => unreachable!(),
                        };
                        call_sel(&sim, a, b, n, |x, y| sim_set(&sim, x, y, v, true));
                        if done_steps > 0 {
                            midrun_override = true;
                        }
                        out.label("link-max-override");
                        if matches!(c, Ctl::LinkPin { .. }) {
                            out.label("link-pinned-to-current-global-value");
                        }
                        if global_changes > 0 {
                            out.label("link-override-after-global-change");
                        }
                    }
                    Applied::GlobalMax(v) => {
                        sim.set_max_message_latency(Duration::from_millis(v as u64));
                        out.label("global-max-change");
                        global_changes += 1;
                        if !model.links.is_empty() {
                            out.label("global-max-change-after-link-override");
                            if done_steps > 0 {
                                midrun_global_after_override = true;
                            }
                        }
                    }
                    Applied::Curve(l) => sim.set_message_latency_curve(l),
                    Applied::Skip => {}
                }
                overall_max = overall_max.max(model.global.max).max(model.links.values().map(|l| l.max).max().unwrap_or(0));
            }
        }
        let mut snap = BTreeMap::new();
        for a in 0..n {
            for b2 in (a + 1)..n {
                snap.insert((a, b2), model.eff(a, b2));
            }
        }
        eff_at.push(snap);
        global_at.push(model.global);
        done_steps += 1;
        sh.step.set(done_steps as u64);
        if let Err(e) = sim.step() {
            out.fail("step-error", format!("{e}"));
            return out;
        }
        if tail.is_none() && sh.senders_done.get() == nsenders {
            tail = Some((overall_max as u64).div_ceil(tick as u64) + 4);
        }
        if let Some(t) = tail.as_mut() {
            if *t == 0 {
                break;
            }
            *t -= 1;
        }
        if done_steps as u64 > (total_gap + 5000) / tick as u64 + 2000 {
            out.fail("harness-senders-never-finished", format!("after {done_steps} steps; errors {:?}", sh.errors.borrow()));
            return out;
        }
    }

    if !sh.errors.borrow().is_empty() {
        out.fail("unexpected-io-error", format!("{:?}", sh.errors.borrow()));
        return out;
    }
    let sends = sh.sends.borrow();
    let recvs = sh.recvs.borrow();
    let tick_d = Duration::from_millis(tick as u64);
    // index receives
    let mut got: BTreeMap<(usize, u32), (usize, &RecvRec)> = BTreeMap::new();
    for (pos, r) in recvs.iter().enumerate() {
        if got.insert((r.flow, r.seq), (pos, r)).is_some() {
            out.fail("message-received-twice", format!("{r:?}"));
            return out;
        }
    }
    let mut max_burst = 0u8;
    for (_, f) in &flows {
        for (_, bsz) in &f.sends {
            max_burst = max_burst.max(*bsz);
        }
    }
    let mut fixed_pairs_checked = 0u64;
    let mut shadowed_msgs = 0u64;
    let mut tcp_deadline: BTreeMap<usize, Duration> = BTreeMap::new();
    let mut last_fixed: BTreeMap<usize, (Lat, usize, u32)> = BTreeMap::new();
    for s in sends.iter() {
        let f = &flows[s.flow].1;
        let lat = eff_at[s.step as usize][&(f.src.min(f.dst), f.src.max(f.dst))];
        let Some((pos, r)) = got.get(&(s.flow, s.seq)) else {
            out.fail(
                if f.tcp { "tcp-message-not-delivered-on-healthy-link" } else { "udp-message-not-delivered-on-healthy-link" },
                format!("{s:?} flow {f:?} link setting {lat:?}"),
            );
            return out;
        };
        if r.sent_at != s.at {
            out.fail("payload-altered", format!("{s:?} vs {r:?}"));
            return out;
        }
        if lat != global_at[s.step as usize] {
            shadowed_msgs += 1;
        }
        let lo = Duration::from_millis(lat.min as u64).saturating_sub(tick_d);
        let hi = Duration::from_millis(lat.max as u64) + tick_d;
        // TCP delivers in order: a chunk can additionally be held back until
        // every earlier chunk of its stream has arrived.
        let mut latest = s.at + hi;
        if f.tcp {
            let e = tcp_deadline.entry(s.flow).or_insert(latest);
            if *e > latest {
                latest = *e;
            } else {
                *e = latest;
            }
        }
        let delta_ok = r.at + tick_d >= s.at + Duration::from_millis(lat.min as u64) && r.at <= latest;
        if !delta_ok {
            let early = r.at + tick_d < s.at + Duration::from_millis(lat.min as u64);
            out.fail(
                format!("{}-{}", if f.tcp { "tcp" } else { "udp" }, if early { "arrived-before-min-latency" } else { "arrived-after-max-latency" }),
                format!("sent {:?} (step {}), received {:?}; link setting at send {lat:?}, tick {tick}ms, allowed delta [{lo:?},{hi:?}] (latest allowed receipt {latest:?})", s.at, s.step, r.at),
            );
            return out;
        }
        // order under fixed equal latency (UDP; consecutive sends of a flow with the same fixed setting)
        if !f.tcp {
            if lat.min == lat.max {
                if let Some((plat, ppos, pseq)) = last_fixed.get(&s.flow) {
                    if *plat == lat {
                        fixed_pairs_checked += 1;
                        if ppos > pos {
                            out.fail(
                                "equal-latency-messages-reordered",
                                format!("flow {} seq {} (sent later) was received before seq {}; fixed latency {lat:?}", s.flow, s.seq, pseq),
                            );
                            return out;
                        }
                    }
                }
                last_fixed.insert(s.flow, (lat, *pos, s.seq));
            } else {
                last_fixed.remove(&s.flow);
            }
        }
    }
    if recvs.len() != sends.len() {
        out.fail("unsent-message-received", format!("{} received, {} sent", recvs.len(), sends.len()));
        return out;
    }
    if sc.random_order {
        out.label("random-order");
    }
    if sc.v6 {
        out.label("v6");
    }
    if flows.iter().any(|(_, f)| f.tcp) {
        out.label("tcp");
    }
    if flows.iter().any(|(_, f)| !f.tcp) {
        out.label("udp");
    }
    if midrun_override {
        out.label("override-mid-run");
    }
    let nondiv = sc.gmin % tick != 0 || sc.gmax % tick != 0;
    if nondiv {
        out.label("tick-does-not-divide-latency");
    }
    if max_burst >= 3 {
        out.label("burst>=3");
    }
    out.count("messages checked", sends.len() as u64);
    out.count("fixed-latency ordered pairs checked", fixed_pairs_checked);
    out.count("messages whose per-link window differs from the global one at the send", shadowed_msgs);
    if midrun_global_after_override {
        out.label("global-change-mid-run-after-link-override");
    }
    out.nontrivial = !sends.is_empty() && (midrun_override || midrun_global_after_override || nondiv || max_burst >= 3);
    out
}

fn sim_set(sim: &turmoil::Sim<'_>, x: SelArg, y: SelArg, v: u32, max_only: bool) {
    let d = Duration::from_millis(v as u64);
    macro_rules! go {
        ($a:expr, $b:expr) => {
            if max_only {
                sim.set_link_max_message_latency($a, $b, d)
            } else {
                sim.set_link_latency($a, $b, d)
            }
        };
    }
    match (x, y) {
        (SelArg::Name(a), SelArg::Name(b)) => go!(a, b),
        (SelArg::Name(a), SelArg::Ip(b)) => go!(a, b),
        (SelArg::Name(a), SelArg::Re(b)) => go!(a, b),
        (SelArg::Ip(a), SelArg::Name(b)) => go!(a, b),
        (SelArg::Ip(a), SelArg::Ip(b)) => go!(a, b),
        (SelArg::Ip(a), SelArg::Re(b)) => go!(a, b),
        (SelArg::Re(a), SelArg::Name(b)) => go!(a, b),
        (SelArg::Re(a), SelArg::Ip(b)) => go!(a, b),
        (SelArg::Re(a), SelArg::Re(b)) => go!(a, b),
    }
}

pub enum SelArg {
    Name(String),
    Ip(std::net::IpAddr),
    Re(regex::Regex),
}

pub fn sel_arg(sim: &turmoil::Sim<'_>, s: &Sel, n: usize) -> SelArg {
    match s {
        Sel::Name(i) => SelArg::Name(format!("h{}", i % n)),
        Sel::Ip(i) => SelArg::Ip(sim.lookup(format!("h{}", i % n))),
        Sel::Regex(_) => {
            let hs = sel_hosts(s, n);
            let alt: Vec<String> = hs.iter().map(|h| format!("h{h}")).collect();
            SelArg::Re(regex::Regex::new(&format!("^({})$", alt.join("|"))).unwrap())
        }
    }
}

fn call_sel(sim: &turmoil::Sim<'_>, a: &Sel, b: &Sel, n: usize, f: impl FnOnce(SelArg, SelArg)) {
    f(sel_arg(sim, a, n), sel_arg(sim, b, n))
}

fn sel_strategy() -> BoxedStrategy<Sel> {
    prop_oneof![
        3 => (0usize..4).prop_map(Sel::Name),
        2 => (0usize..4).prop_map(Sel::Ip),
        2 => proptest::collection::vec(0usize..4, 1..4).prop_map(Sel::Regex),
    ]
    .boxed()
}

pub fn strategy() -> BoxedStrategy<Scenario> {
    let lat = prop_oneof![
        2 => (0u32..=60).prop_map(|v| (v, v)),
        3 => (0u32..=40, 0u32..=120).prop_map(|(a, d)| (a, a + d)),
    ];
    (
        (1u32..=20, lat, 1u32..=100, any::<u64>(), any::<bool>(), any::<bool>(), 2usize..=4),
        proptest::collection::vec(
            (
                0usize..4,
                0usize..4,
                prop_oneof![3 => Just(false), 1 => Just(true)],
                proptest::collection::vec((0u32..=25, 1u8..=5), 1..6),
            ),
            1..5,
        ),
        proptest::collection::vec(
            (
                // steps are short runs for coarse ticks: bias towards early instants
                prop_oneof![2 => 0u32..4, 2 => 0u32..12, 2 => 0u32..40],
                prop_oneof![
                    3 => (sel_strategy(), sel_strategy(), 0u32..=80).prop_map(|(a, b, v)| Ctl::LinkLatency { a, b, v }),
                    2 => (sel_strategy(), sel_strategy(), 0u32..=60).prop_map(|(a, b, extra)| Ctl::LinkMax { a, b, extra }),
                    3 => (sel_strategy(), sel_strategy(), 0u8..3).prop_map(|(a, b, kind)| Ctl::LinkPin { a, b, kind }),
                    4 => (0u32..=100).prop_map(|extra| Ctl::GlobalMax { extra }),
                    1 => (1u32..=100).prop_map(|x10| Ctl::Curve { x10 }),
                ],
            ),
            0..7,
        ),
    )
        .prop_map(|((tick_ms, (gmin, gmax), lambda_x10, seed, random_order, v6, nhosts), flows, mut ctl)| {
            ctl.sort_by_key(|c| c.0);
            Scenario {
                tick_ms,
                gmin,
                gmax,
                lambda_x10,
                seed,
                random_order,
                v6,
                nhosts,
                flows: flows
                    .into_iter()
                    .map(|(src, dst, tcp, sends)| Flow { src, dst, tcp, sends })
                    .collect(),
                ctl,
            }
        })
        .boxed()
}

/// Clamp a structurally decoded scenario into the generator's domain (fuzz tier).
pub fn fuzz_sanitize(sc: &mut Scenario) -> bool {
    sc.tick_ms = 1 + sc.tick_ms % 20;
    sc.gmin %= 41;
    sc.gmax = sc.gmin + sc.gmax % 121;
    sc.lambda_x10 = 1 + sc.lambda_x10 % 100;
    sc.nhosts = 2 + sc.nhosts % 3;
    sc.flows.truncate(4);
    for f in sc.flows.iter_mut() {
        f.src %= 4;
        f.dst %= 4;
        f.sends.truncate(5);
        for s in f.sends.iter_mut() {
            s.0 %= 26;
            s.1 = 1 + s.1 % 5;
        }
        if f.sends.is_empty() {
            f.sends.push((0, 1));
        }
    }
    let fix_sel = |s: &mut Sel| match s {
        Sel::Name(i) | Sel::Ip(i) => *i %= 4,
        Sel::Regex(v) => {
            v.truncate(3);
            for i in v.iter_mut() {
                *i %= 4;
            }
            if v.is_empty() {
                v.push(0);
            }
        }
    };
    sc.ctl.truncate(6);
    for (at, c) in sc.ctl.iter_mut() {
        *at %= 40;
        match c {
            Ctl::LinkLatency { a, b, v } => {
                fix_sel(a);
                fix_sel(b);
                *v %= 81;
            }
            Ctl::LinkMax { a, b, extra } => {
                fix_sel(a);
                fix_sel(b);
                *extra %= 61;
            }
            Ctl::LinkPin { a, b, kind } => {
                fix_sel(a);
                fix_sel(b);
                *kind %= 3;
            }
            Ctl::GlobalMax { extra } => *extra %= 101,
            Ctl::Curve { x10 } => *x10 = 1 + *x10 % 100,
        }
    }
    sc.ctl.sort_by_key(|c| c.0);
    !sc.flows.is_empty()
}

fn check(tier: Tier, seed: u64) -> i32 {
    let ctx = Ctx::new("C14", tier, seed, "exploration");
    ctx.replay_corpus(&replay);
    ctx.random("latency-window", tier.pick(30_000, 400_000), &|| strategy(), &run);
    ctx.finish(
        "random scenarios: tick 1-20 ms, global min/max latency (fixed or ranged), lambda, 2-4 hosts, 1-4 UDP/TCP flows sending bursts at generated sub-tick instants, 0-6 controller actions applied before and during the run in any order: per-link fixed / max-only overrides by name, IP or regex (free values, or pinned to the then-current global min or max), changes of the global maximum (before and after per-link overrides) and of the curve. Model: a link that ever received a per-link setting keeps its own window (fixed: min=max=v; max-only: max=v, min as before) whatever is done to the global setting afterwards, every other link follows the global setting. Every message must be received once with min_eff - tick <= receipt - send <= max_eff + tick (setting in force at the send), and consecutive UDP messages of a flow sent under the same fixed latency must arrive in send order. Non-trivial = at least one message and (an override made mid-run, or a global change made mid-run after a link override, or a tick that does not divide the latency, or a burst >= 3). Distinct by scenario hash.",
        &[
            "receivers block in recv and log their own sim_elapsed; senders log theirs just before the send call",
            "per-link maximum overrides are generated >= the link's current minimum (the Builder documents max >= min as a precondition)",
            "the global minimum cannot be changed after build (no such API), so a max-only per-link override never has to say which minimum it inherits; the curve of an overridden link is not observed (only the window is)",
            "global maximum changes are generated >= the global minimum; a pin of the maximum only is skipped when a selected link's own minimum exceeds the global maximum",
            "bursts stay far below udp/tcp capacity (64), so no capacity drop or back-pressure interferes",
        ],
    )
}

fn replay(_sub: &str, v: &Value) -> Result<Outcome, String> {
    replay_as::<Scenario>(v, &run)
}

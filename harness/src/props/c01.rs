//! C01 — same seed, configuration and programs give the same execution.
//! DESIGN.md §6 C01.  SimDriver; run-twice equality of complete traces, in
//! one process and (for a deterministic subset) in two fresh OS processes.

use crate::drivers::trace;
use crate::engine::{hash_json, replay_as, Ctx, Outcome, Tier};
use proptest::prelude::*;
use serde::{Deserialize, Serialize};
use serde_json::Value;
use std::cell::{Cell, RefCell};
use std::hash::{Hash, Hasher};
use std::io::Write as _;
use std::os::fd::{AsRawFd, RawFd};
use std::os::unix::fs::FileExt;
use std::panic::{catch_unwind, AssertUnwindSafe};
use std::rc::Rc;
use std::time::{Duration, SystemTime};
use tokio::io::{AsyncReadExt, AsyncWriteExt};
use turmoil::net::{TcpListener, TcpStream, UdpSocket};

pub const PROP: super::Prop = super::Prop {
    id: "C01",
    level: "exploration",
    check,
    replay,
};

#[derive(Clone, Debug, Serialize, Deserialize)]
pub enum FsOp {
    Write(u8, u16, u8),
    Read(u8),
    ReadDir,
    Metadata(u8),
    SyncAll(u8),
    SyncDir,
    Remove(u8),
    Rename(u8, u8),
    CreateDir(u8),
    Sleep(u8),
}

#[derive(Clone, Debug, Serialize, Deserialize)]
pub enum UringOp {
    Write(u8, u16, u8),
    Read(u8, u16, u8),
    Fsync(u8),
}

#[derive(Clone, Debug, Serialize, Deserialize)]
pub enum Program {
    TcpServer,
    TcpClient { to: usize, chunks: Vec<u16>, pause: u8 },
    Udp { to: Vec<usize>, n: u8, gap: u8 },
    SelectSpawn { n: u8 },
    Fs { ops: Vec<FsOp> },
    Uring { depth: u8, rounds: Vec<Vec<UringOp>> },
}

#[derive(Clone, Copy, Debug, Serialize, Deserialize)]
pub enum Ctl {
    Crash(usize),
    Bounce(usize),
    Partition(usize, usize),
    Repair(usize, usize),
    Hold(usize, usize),
    Release(usize, usize),
}

#[derive(Clone, Debug, Serialize, Deserialize)]
pub struct FsKnobs {
    pub sync_probability_pct: u8,
    pub io_error_pct: u8,
    pub short_read_pct: u8,
    pub corruption_pct: u8,
    pub latency_us: Option<(u32, u32)>,
    pub block_size: Option<u16>,
    pub page_cache: bool,
}

#[derive(Clone, Debug, Serialize, Deserialize)]
pub struct Scenario {
    pub seed: u64,
    pub epoch_s: u32,
    pub tick_ms: u32,
    pub lat_min: u32,
    pub lat_max: u32,
    pub lambda_x10: u32,
    pub fail_pct: u8,
    pub repair_pct: u8,
    pub random_order: bool,
    pub tcp_capacity: usize,
    pub udp_capacity: usize,
    pub v6: bool,
    pub fs: FsKnobs,
    /// programs per host
    pub hosts: Vec<Vec<Program>>,
    pub steps: u32,
    pub ctl: Vec<(u32, Ctl)>,
}

#[derive(Clone, Default)]
struct Shared {
    log: Rc<RefCell<Vec<String>>>,
    fs_obs: Rc<Cell<u64>>,
}

impl Shared {
    fn say(&self, host: usize, what: String) {
        let t = turmoil::sim_elapsed().map(|d| d.as_micros()).unwrap_or(0);
        self.log.borrow_mut().push(format!("h{host} @{t}us {what}"));
    }
}

struct RingFd(RawFd);
impl AsRawFd for RingFd {
    fn as_raw_fd(&self) -> RawFd {
        self.0
    }
}

fn kind<T>(r: &std::io::Result<T>) -> String {
    match r {
        Ok(_) => "ok".into(),
        Err(e) => format!("err:{:?}", e.kind()),
    }
}

async fn run_program(sh: Shared, me: usize, nhosts: usize, p: Program, v6: bool) {
    let any = if v6 { "::" } else { "0.0.0.0" };
    match p {
        Program::TcpServer => {
            let lis = match TcpListener::bind((any, 9000)).await {
                Ok(l) => l,
                Err(e) => {
                    sh.say(me, format!("tcp bind err {:?}", e.kind()));
                    return;
                }
            };
            loop {
                match lis.accept().await {
                    Ok((mut s, from)) => {
                        sh.say(me, format!("accepted {from}"));
                        let sh2 = sh.clone();
                        tokio::task::spawn_local(async move {
                            let mut b = [0u8; 64];
                            loop {
                                match s.read(&mut b).await {
                                    Ok(0) => {
                                        sh2.say(me, "srv eof".into());
                                        break;
                                    }
                                    Ok(n) => {
                                        sh2.say(me, format!("srv read {n} first {}", b[0]));
                                        if let Err(e) = s.write_all(&b[..n]).await {
                                            sh2.say(me, format!("srv write err {:?}", e.kind()));
                                            break;
                                        }
                                    }
                                    Err(e) => {
                                        sh2.say(me, format!("srv read err {:?}", e.kind()));
                                        break;
                                    }
                                }
                            }
                        });
                    }
                    Err(e) => {
                        sh.say(me, format!("accept err {:?}", e.kind()));
                        break;
                    }
                }
            }
        }
        Program::TcpClient { to, chunks, pause } => {
            let to = to % nhosts;
            tokio::time::sleep(Duration::from_millis(2)).await;
            match TcpStream::connect((format!("h{to}").as_str(), 9000)).await {
                Err(e) => sh.say(me, format!("connect h{to} err {:?}", e.kind())),
                Ok(mut s) => {
                    sh.say(me, format!("connected local {:?}", s.local_addr().map(|a| a.port())));
                    let mut total = 0usize;
                    for (i, c) in chunks.iter().enumerate() {
                        let data = vec![(i as u8).wrapping_mul(31).wrapping_add(me as u8); (*c as usize).max(1)];
                        if let Err(e) = s.write_all(&data).await {
                            sh.say(me, format!("cli write err {:?}", e.kind()));
                            break;
                        }
                        total += data.len();
                        if pause > 0 {
                            tokio::time::sleep(Duration::from_millis(pause as u64)).await;
                        }
                    }
                    let _ = s.shutdown().await;
                    let mut got = 0usize;
                    let mut b = [0u8; 48];
                    loop {
                        match tokio::time::timeout(Duration::from_millis(400), s.read(&mut b)).await {
                            Ok(Ok(0)) => {
                                sh.say(me, format!("cli eof after {got}/{total}"));
                                break;
                            }
                            Ok(Ok(n)) => {
                                got += n;
                                sh.say(me, format!("cli read {n}"));
                            }
                            Ok(Err(e)) => {
                                sh.say(me, format!("cli read err {:?} after {got}", e.kind()));
                                break;
                            }
                            Err(_) => {
                                sh.say(me, format!("cli read timeout after {got}"));
                                break;
                            }
                        }
                    }
                }
            }
        }
        Program::Udp { to, n, gap } => {
            let u = match UdpSocket::bind((any, 9001)).await {
                Ok(u) => Rc::new(u),
                Err(e) => {
                    sh.say(me, format!("udp bind err {:?}", e.kind()));
                    return;
                }
            };
            let (sh2, u2) = (sh.clone(), u.clone());
            tokio::task::spawn_local(async move {
                let mut b = [0u8; 16];
                loop {
                    match u2.recv_from(&mut b).await {
                        Ok((n, from)) => sh2.say(me, format!("udp recv {n} from {from} seq {}", b[0])),
                        Err(e) => sh2.say(me, format!("udp recv err {:?}", e.kind())),
                    }
                }
            });
            for i in 0..n {
                for t in &to {
                    let t = t % nhosts;
                    if t == me {
                        continue;
                    }
                    let r = u.send_to(&[i, me as u8, 0, 0], (format!("h{t}").as_str(), 9001)).await;
                    sh.say(me, format!("udp send {i} to h{t} {}", kind(&r)));
                }
                tokio::time::sleep(Duration::from_millis(gap as u64)).await;
            }
        }
        Program::SelectSpawn { n } => {
            // exercises the runtime's (seeded) rng: select! branch order, spawn order, intervals
            let (tx, mut rx) = tokio::sync::mpsc::unbounded_channel::<u8>();
            for i in 0..n {
                let tx = tx.clone();
                tokio::spawn(async move {
                    tokio::time::sleep(Duration::from_millis((i as u64 * 7) % 5)).await;
                    let _ = tx.send(i);
                });
            }
            drop(tx);
            let mut iv = tokio::time::interval(Duration::from_millis(3));
            let mut ticks = 0u32;
            let mut order = Vec::new();
            loop {
                tokio::select! {
                    v = rx.recv() => match v { Some(v) => order.push(v), None => break },
                    _ = iv.tick() => { ticks += 1; if ticks > 40 { break; } }
                    _ = tokio::time::sleep(Duration::from_millis(1)) => { order.push(200); }
                }
            }
            sh.say(me, format!("select order {order:?} ticks {ticks}"));
            // two ready branches at once: the choice is the seeded rng's
            let mut picks = Vec::new();
            for _ in 0..24 {
                let a = std::future::ready(0u8);
                let b = std::future::ready(1u8);
                let c = std::future::ready(2u8);
                let p = tokio::select! { v = a => v, v = b => v, v = c => v };
                picks.push(p);
            }
            sh.say(me, format!("select picks {picks:?}"));
        }
        Program::Fs { ops } => {
            use turmoil::fs::shim::std::fs as sfs;
            let path = |f: u8| format!("/d/f{}", f % 6);
            let r = sfs::create_dir("/d");
            sh.say(me, format!("mkdir /d {}", kind(&r)));
            for op in ops {
                sh.fs_obs.set(sh.fs_obs.get() + 1);
                match op {
                    FsOp::Write(f, off, len) => {
                        let r = sfs::OpenOptions::new().create(true).write(true).read(true).open(path(f)).and_then(|fl| fl.write_at(&vec![f.wrapping_add(len); (len as usize % 40) + 1], off as u64 % 200));
                        sh.say(me, format!("write {} {:?}", path(f), r.map_err(|e| e.kind())));
                    }
                    FsOp::Read(f) => {
                        let r = sfs::read(path(f));
                        sh.say(me, format!("read {} {:?}", path(f), r.map_err(|e| e.kind())));
                    }
                    FsOp::ReadDir => match sfs::read_dir("/d") {
                        Ok(rd) => {
                            let names: Vec<String> = rd.map(|e| e.map(|e| e.file_name().to_string_lossy().to_string()).unwrap_or_else(|e| format!("err:{:?}", e.kind()))).collect();
                            sh.say(me, format!("read_dir {names:?}"));
                        }
                        Err(e) => sh.say(me, format!("read_dir err {:?}", e.kind())),
                    },
                    FsOp::Metadata(f) => {
                        let r = sfs::metadata(path(f)).map(|m| (m.len(), m.is_file()));
                        sh.say(me, format!("metadata {} {:?}", path(f), r.map_err(|e| e.kind())));
                    }
                    FsOp::SyncAll(f) => {
                        let r = sfs::OpenOptions::new().read(true).write(true).open(path(f)).and_then(|fl| fl.sync_all());
                        sh.say(me, format!("sync_all {} {}", path(f), kind(&r)));
                    }
                    FsOp::SyncDir => {
                        let r = sfs::sync_dir("/d");
                        sh.say(me, format!("sync_dir {}", kind(&r)));
                    }
                    FsOp::Remove(f) => {
                        let r = sfs::remove_file(path(f));
                        sh.say(me, format!("remove {} {}", path(f), kind(&r)));
                    }
                    FsOp::Rename(a, b) => {
                        let r = sfs::rename(path(a), path(b));
                        sh.say(me, format!("rename {} {} {}", path(a), path(b), kind(&r)));
                    }
                    FsOp::CreateDir(d) => {
                        let r = sfs::create_dir(format!("/d/sub{}", d % 3));
                        sh.say(me, format!("mkdir sub{} {}", d % 3, kind(&r)));
                    }
                    FsOp::Sleep(ms) => tokio::time::sleep(Duration::from_millis(ms as u64 % 6)).await,
                }
            }
        }
        Program::Uring { depth, rounds } => {
            use turmoil::fs::shim::std::fs as sfs;
            use turmoil::io_uring::{opcode, types, AsyncFd, IoUring};
            let _ = sfs::create_dir("/u");
            let files: Vec<_> = (0..2)
                .filter_map(|i| sfs::OpenOptions::new().create(true).read(true).write(true).open(format!("/u/f{i}")).ok())
                .collect();
            if files.len() < 2 {
                sh.say(me, "uring: open failed".into());
                return;
            }
            let mut ring = match IoUring::new((depth % 8 + 1) as u32) {
                Ok(r) => r,
                Err(e) => {
                    sh.say(me, format!("uring new err {:?}", e.kind()));
                    return;
                }
            };
            let afd = match AsyncFd::new(RingFd(ring.as_raw_fd())) {
                Ok(a) => a,
                Err(e) => {
                    sh.say(me, format!("asyncfd err {:?}", e.kind()));
                    return;
                }
            };
            let mut bufs: Vec<Vec<u8>> = Vec::new();
            let mut ud = 0u64;
            for r in rounds {
                let mut pushed = 0usize;
                for op in r {
                    ud += 1;
                    let entry = match op {
                        UringOp::Write(f, off, len) => {
                            bufs.push(vec![(ud as u8).wrapping_mul(17); (len as usize % 48) + 1]);
                            let b = bufs.last().unwrap();
                            opcode::Write::new(types::Fd(files[f as usize % 2].as_raw_fd()), b.as_ptr(), b.len() as u32).offset(off as u64 % 300).build()
                        }
                        UringOp::Read(f, off, len) => {
                            bufs.push(vec![0xEE; (len as usize % 48) + 1]);
                            let b = bufs.last_mut().unwrap();
                            opcode::Read::new(types::Fd(files[f as usize % 2].as_raw_fd()), b.as_mut_ptr(), b.len() as u32).offset(off as u64 % 300).build()
                        }
                        UringOp::Fsync(f) => opcode::Fsync::new(types::Fd(files[f as usize % 2].as_raw_fd())).build(),
                    }
                    .user_data(ud);
                    // SAFETY: every buffer lives in `bufs` until the end of the program
                    let ok = unsafe { ring.submission().push(&entry).is_ok() };
                    if ok {
                        pushed += 1;
                    } else {
                        sh.say(me, format!("uring push {ud} rejected (full)"));
                    }
                }
                let sub = ring.submit();
                sh.say(me, format!("uring submit {:?}", sub.map_err(|e| e.kind())));
                let mut got = 0usize;
                let mut spins = 0;
                while got < pushed && spins < 200 {
                    spins += 1;
                    match afd.readable().await {
                        Ok(mut g) => g.clear_ready(),
                        Err(e) => {
                            sh.say(me, format!("uring readable err {:?}", e.kind()));
                            return;
                        }
                    }
                    let mut cq = ring.completion();
                    cq.sync();
                    let mut batch = Vec::new();
                    for e in &mut cq {
                        batch.push((e.user_data(), e.result()));
                    }
                    got += batch.len();
                    sh.fs_obs.set(sh.fs_obs.get() + batch.len() as u64);
                    sh.say(me, format!("uring cqes {batch:?}"));
                    if batch.is_empty() {
                        tokio::time::sleep(Duration::from_millis(1)).await;
                    }
                }
            }
            // what the reads saw
            let sums: Vec<u32> = bufs.iter().map(|b| b.iter().map(|x| *x as u32).sum()).collect();
            sh.say(me, format!("uring buffers {sums:?}"));
        }
    }
}

/// Execute once; returns (trace lines, network events, fs observations).
fn execute(sc: &Scenario) -> (Vec<String>, usize, u64) {
    execute_with(sc, 0)
}

/// `real_sleep_us` > 0: the harness really sleeps that long before the first
/// step and before every 8th step — wall-clock time that must not influence
/// the simulated execution.
fn execute_with(sc: &Scenario, real_sleep_us: u64) -> (Vec<String>, usize, u64) {
    let sh = Shared::default();
    let nhosts = sc.hosts.len().clamp(1, 5);
    let run = || {
        let mut b = turmoil::Builder::new();
        b.rng_seed(sc.seed)
            .epoch(SystemTime::UNIX_EPOCH + Duration::from_secs(sc.epoch_s as u64 + 1))
            .tick_duration(Duration::from_millis(sc.tick_ms.max(1) as u64))
            .min_message_latency(Duration::from_millis(sc.lat_min.min(sc.lat_max) as u64))
            .max_message_latency(Duration::from_millis(sc.lat_max.max(sc.lat_min) as u64))
            .fail_rate(sc.fail_pct.min(100) as f64 / 100.0)
            .repair_rate(sc.repair_pct.min(100) as f64 / 100.0)
            .tcp_capacity(sc.tcp_capacity.max(1))
            .udp_capacity(sc.udp_capacity.max(1))
            .simulation_duration(Duration::from_secs(100_000));
        if sc.random_order {
            b.enable_random_order();
        }
        if sc.v6 {
            b.ip_version(turmoil::IpVersion::V6);
        }
        {
            let f = b.fs();
            f.sync_probability(sc.fs.sync_probability_pct.min(100) as f64 / 100.0)
                .io_error_probability(sc.fs.io_error_pct.min(100) as f64 / 100.0)
                .short_read_probability(sc.fs.short_read_pct.min(100) as f64 / 100.0)
                .corruption_probability(sc.fs.corruption_pct.min(100) as f64 / 100.0);
            if let Some(bs) = sc.fs.block_size {
                f.block_size(bs.max(1) as u64);
            }
            if let Some((lo, hi)) = sc.fs.latency_us {
                f.io_latency().min_latency(Duration::from_micros(lo.min(hi) as u64)).max_latency(Duration::from_micros(hi.max(lo) as u64));
            }
            if sc.fs.page_cache {
                f.page_cache().page_size(64).max_pages(4).random_eviction_probability(0.25);
            }
        }
        let mut sim = b.build();
        sim.set_message_latency_curve(sc.lambda_x10.max(1) as f64 / 10.0);
        for h in 0..nhosts {
            let progs = sc.hosts[h].clone();
            let (sh2, v6) = (sh.clone(), sc.v6);
            sim.host(format!("h{h}"), move || {
                let (sh3, progs) = (sh2.clone(), progs.clone());
                async move {
                    sh3.say(h, "start".into());
                    let mut hs = Vec::new();
                    for p in progs {
                        hs.push(tokio::task::spawn_local(run_program(sh3.clone(), h, nhosts, p, v6)));
                    }
                    for x in hs {
                        let _ = x.await;
                    }
                    sh3.say(h, "programs done".into());
                    std::future::pending::<()>().await;
                    Ok(())
                }
            });
        }
        let name = |i: usize| format!("h{}", i % nhosts);
        let mut results = Vec::new();
        for done in 0..sc.steps {
            if real_sleep_us > 0 && done % 8 == 0 {
                std::thread::sleep(Duration::from_micros(real_sleep_us));
            }
            for (at, c) in &sc.ctl {
                if *at != done {
                    continue;
                }
                match *c {
                    Ctl::Crash(h) => sim.crash(name(h)),
                    Ctl::Bounce(h) => sim.bounce(name(h)),
                    Ctl::Partition(a, b2) if a % nhosts != b2 % nhosts => sim.partition(name(a), name(b2)),
                    Ctl::Repair(a, b2) if a % nhosts != b2 % nhosts => sim.repair(name(a), name(b2)),
                    Ctl::Hold(a, b2) if a % nhosts != b2 % nhosts => sim.hold(name(a), name(b2)),
                    Ctl::Release(a, b2) if a % nhosts != b2 % nhosts => sim.release(name(a), name(b2)),
                    _ => {}
                }
            }
            match sim.step() {
                Ok(_) => {}
                Err(e) => {
                    results.push(format!("step {} error {e}", done + 1));
                    break;
                }
            }
        }
        results.push(format!("elapsed {:?}", sim.elapsed()));
        results
    };
    let (res, mut events) = trace::capture(|| catch_unwind(AssertUnwindSafe(run)));
    let net_events = events.iter().filter(|e| e.starts_with("Send") || e.starts_with("Delivered") || e.starts_with("Recv") || e.starts_with("Drop") || e.starts_with("Hold")).count();
    match res {
        Ok(r) => events.extend(r),
        Err(_) => {
            let msg = crate::engine::take_last_panic().unwrap_or_default();
            // strip the location of secondary panics; keep the first message
            events.push(format!("PANIC {}", msg.split(" | then:").next().unwrap_or("")));
        }
    }
    events.push("--- program log".into());
    events.extend(sh.log.borrow().iter().cloned());
    (events, net_events, sh.fs_obs.get())
}

fn hash_lines(v: &[String]) -> u64 {
    let mut h = std::collections::hash_map::DefaultHasher::new();
    v.hash(&mut h);
    h.finish()
}

fn child_hash(sc: &Scenario) -> Result<u64, String> {
    let exe = std::env::current_exe().map_err(|e| e.to_string())?;
    let mut ch = std::process::Command::new(exe)
        .arg("c01-child")
        .stdin(std::process::Stdio::piped())
        .stdout(std::process::Stdio::piped())
        .stderr(std::process::Stdio::null())
        .spawn()
        .map_err(|e| e.to_string())?;
    ch.stdin.take().unwrap().write_all(serde_json::to_string(sc).unwrap().as_bytes()).map_err(|e| e.to_string())?;
    let out = ch.wait_with_output().map_err(|e| e.to_string())?;
    let txt = String::from_utf8_lossy(&out.stdout);
    txt.trim().parse::<u64>().map_err(|e| format!("child said {txt:?}: {e}"))
}

/// `tvh c01-stress <threads> <iters>`: scenario on stdin; run it concurrently on several
/// threads and report differing traces (debug aid: is a difference thread-related?).
pub fn stress_main(args: &[String]) -> i32 {
    let mut s = String::new();
    let _ = std::io::Read::read_to_string(&mut std::io::stdin(), &mut s);
    let Ok(sc) = serde_json::from_str::<Scenario>(&s) else { return 2 };
    let threads: usize = args.first().and_then(|a| a.parse().ok()).unwrap_or(16);
    let iters: usize = args.get(1).and_then(|a| a.parse().ok()).unwrap_or(20);
    let reference = execute(&sc).0;
    let bad = std::sync::atomic::AtomicUsize::new(0);
    std::thread::scope(|scope| {
        for t in 0..threads {
            let (sc, reference, bad) = (&sc, &reference, &bad);
            scope.spawn(move || {
                for i in 0..iters {
                    let l = execute(sc).0;
                    if l != *reference {
                        if bad.fetch_add(1, std::sync::atomic::Ordering::Relaxed) < 3 {
                            let k = l.iter().zip(reference.iter()).position(|(a, b)| a != b).unwrap_or(0);
                            eprintln!("thread {t} iter {i}: differs at {k} (len {} vs {}):\n  {:?}\n  {:?}", l.len(), reference.len(), l.get(k), reference.get(k));
                        }
                    }
                }
            });
        }
    });
    eprintln!("mismatches: {}", bad.load(std::sync::atomic::Ordering::Relaxed));
    0
}

/// `tvh c01-child`: read one scenario from stdin, print the trace hash.
pub fn child_main() -> i32 {
    let mut s = String::new();
    if std::io::Read::read_to_string(&mut std::io::stdin(), &mut s).is_err() {
        return 2;
    }
    let Ok(sc) = serde_json::from_str::<Scenario>(&s) else { return 2 };
    let (lines, _, _) = execute(&sc);
    if std::env::var("VERIF_C01_TWICE").is_ok() {
        let (l2, _, _) = execute(&sc);
        for (i, (a, b)) in lines.iter().zip(l2.iter()).enumerate() {
            if a != b {
                eprintln!("{i}: {a}\n{i}: {b}\n");
            }
        }
        eprintln!("lens {} {}", lines.len(), l2.len());
    }
    if std::env::var("VERIF_C01_DUMP").is_ok() {
        for l in &lines {
            eprintln!("{l}");
        }
    }
    println!("{}", hash_lines(&lines));
    0
}

pub fn run(sc: &Scenario) -> Outcome {
    let mut out = Outcome::ok();
    let (a, net_events, fs_obs) = execute(sc);
    let (b, _, _) = execute(sc);
    let has_fs = sc.hosts.iter().flatten().any(|p| matches!(p, Program::Fs { .. }));
    let has_uring = sc.hosts.iter().flatten().any(|p| matches!(p, Program::Uring { .. }));
    if a != b {
        let i = a.iter().zip(b.iter()).position(|(x, y)| x != y).unwrap_or(a.len().min(b.len()));
        let what = a.get(i).cloned().unwrap_or_default();
        let site = if what.contains("read_dir") {
            "read_dir-order"
        } else if what.contains("uring") {
            "io_uring"
        } else if what.contains("select") {
            "tokio-select-or-spawn"
        } else if what.starts_with("Send") || what.starts_with("Delivered") || what.starts_with("Recv") || what.starts_with("Drop") {
            "network-trace"
        } else if what.contains(" read ") || what.contains("write") || what.contains("metadata") || what.contains("sync") {
            "fs-result"
        } else if what.starts_with("PANIC") {
            "panic"
        } else {
            "other"
        };
        out.fail(
            format!("two-runs-in-one-process-differ:{site}"),
            format!("first difference at record {i}: run 1 {:?} / run 2 {:?} (lengths {} / {})", a.get(i), b.get(i), a.len(), b.len()),
        );
        return out;
    }
    // wall-clock independence: real delays injected by the test must not change anything
    let h = hash_json(sc);
    if (has_fs || has_uring) && h % 4 == 1 {
        let (c, _, _) = execute_with(sc, 4_000);
        if c != a {
            let i = a.iter().zip(c.iter()).position(|(x, y)| x != y).unwrap_or(a.len().min(c.len()));
            out.fail(
                "execution-depends-on-wall-clock-time",
                format!("with real 4 ms pauses between some steps the trace differs at record {i}: normal {:?} / delayed {:?}", a.get(i), c.get(i)),
            );
            return out;
        }
        out.label("checked-with-real-delays");
    }
    // fresh OS processes for a deterministic third of the scenarios
    if h % 3 == 0 {
        let mine = hash_lines(&a);
        for n in 0..2 {
            match child_hash(sc) {
                Ok(c) if c == mine => {}
                Ok(c) => {
                    out.fail(
                        "fresh-process-run-differs-from-in-process-run",
                        format!("child {n} trace hash {c}, in-process {mine} ({} records); re-run `tvh c01-child` with VERIF_C01_DUMP=1 to diff", a.len()),
                    );
                    return out;
                }
                Err(e) => {
                    out.fail("harness-child-process-failed", e);
                    return out;
                }
            }
        }
        out.label("checked-in-fresh-processes");
        out.count("scenarios also run in 2 fresh processes", 1);
    }
    let rng_knob = sc.lat_max > sc.lat_min
        || sc.fail_pct > 0
        || sc.random_order
        || sc.fs.sync_probability_pct > 0
        || sc.fs.io_error_pct > 0
        || sc.fs.short_read_pct > 0
        || sc.fs.corruption_pct > 0
        || sc.fs.latency_us.map(|(a, b)| a != b).unwrap_or(false);
    if sc.ctl.iter().any(|c| matches!(c.1, Ctl::Crash(_) | Ctl::Bounce(_))) {
        out.label("with-crash");
    }
    if sc.ctl.iter().any(|c| matches!(c.1, Ctl::Partition(..) | Ctl::Hold(..))) {
        out.label("with-partition-or-hold");
    }
    if has_fs {
        out.label("with-fs");
    }
    if has_uring {
        out.label("with-io_uring");
    }
    if sc.random_order {
        out.label("with-random-order");
    }
    if sc.v6 {
        out.label("v6");
    }
    if sc.fail_pct > 0 {
        out.label("fail-rate>0");
    }
    if a.iter().any(|l| l.starts_with("PANIC")) {
        out.label("panicked-identically");
    }
    if a.iter().any(|l| l.contains("error")) {
        out.label("step-error");
    }
    out.count("trace records compared", a.len() as u64);
    out.nontrivial = (net_events >= 10 || fs_obs >= 5) && rng_knob;
    out
}

fn program_strategy() -> BoxedStrategy<Program> {
    let fsop = prop_oneof![
        6 => (0u8..6, 0u16..200, 0u8..40).prop_map(|(f, o, l)| FsOp::Write(f, o, l)),
        3 => (0u8..6).prop_map(FsOp::Read),
        3 => Just(FsOp::ReadDir),
        2 => (0u8..6).prop_map(FsOp::Metadata),
        2 => (0u8..6).prop_map(FsOp::SyncAll),
        1 => Just(FsOp::SyncDir),
        1 => (0u8..6).prop_map(FsOp::Remove),
        1 => (0u8..6, 0u8..6).prop_map(|(a, b)| FsOp::Rename(a, b)),
        1 => (0u8..3).prop_map(FsOp::CreateDir),
        1 => (0u8..6).prop_map(FsOp::Sleep),
    ];
    let uop = prop_oneof![
        3 => (0u8..2, 0u16..300, 0u8..48).prop_map(|(f, o, l)| UringOp::Write(f, o, l)),
        3 => (0u8..2, 0u16..300, 0u8..48).prop_map(|(f, o, l)| UringOp::Read(f, o, l)),
        1 => (0u8..2).prop_map(UringOp::Fsync),
    ];
    prop_oneof![
        2 => Just(Program::TcpServer),
        3 => (0usize..5, proptest::collection::vec(1u16..80, 1..6), 0u8..4).prop_map(|(to, chunks, pause)| Program::TcpClient { to, chunks, pause }),
        3 => (proptest::collection::vec(0usize..5, 1..4), 1u8..8, 0u8..4).prop_map(|(to, n, gap)| Program::Udp { to, n, gap }),
        2 => (1u8..8).prop_map(|n| Program::SelectSpawn { n }),
        3 => proptest::collection::vec(fsop, 3..25).prop_map(|ops| Program::Fs { ops }),
        2 => (0u8..8, proptest::collection::vec(proptest::collection::vec(uop, 1..6), 1..4)).prop_map(|(depth, rounds)| Program::Uring { depth, rounds }),
    ]
    .boxed()
}

pub fn strategy() -> BoxedStrategy<Scenario> {
    let fs = (
        prop_oneof![2 => Just(0u8), 1 => 1u8..60],
        prop_oneof![3 => Just(0u8), 1 => 1u8..30],
        prop_oneof![3 => Just(0u8), 1 => 1u8..50],
        prop_oneof![3 => Just(0u8), 1 => 1u8..50],
        prop_oneof![1 => Just(None), 1 => (0u32..3000, 0u32..3000).prop_map(Some)],
        prop_oneof![2 => Just(None), 1 => (1u16..32).prop_map(Some)],
        any::<bool>(),
    )
        .prop_map(|(sync_probability_pct, io_error_pct, short_read_pct, corruption_pct, latency_us, block_size, page_cache)| FsKnobs { sync_probability_pct, io_error_pct, short_read_pct, corruption_pct, latency_us, block_size, page_cache });
    let ctl = prop_oneof![
        2 => (0usize..5).prop_map(Ctl::Crash),
        2 => (0usize..5).prop_map(Ctl::Bounce),
        1 => (0usize..5, 0usize..5).prop_map(|(a, b)| Ctl::Partition(a, b)),
        1 => (0usize..5, 0usize..5).prop_map(|(a, b)| Ctl::Repair(a, b)),
        1 => (0usize..5, 0usize..5).prop_map(|(a, b)| Ctl::Hold(a, b)),
        1 => (0usize..5, 0usize..5).prop_map(|(a, b)| Ctl::Release(a, b)),
    ];
    (
        (any::<u64>(), 0u32..2_000_000_000, 1u32..=5, (0u32..8, 0u32..30), 1u32..100),
        (prop_oneof![2 => Just(0u8), 1 => 1u8..40], 0u8..=100, any::<bool>(), prop_oneof![1 => 2usize..6, 2 => Just(64usize)], prop_oneof![1 => 1usize..6, 2 => Just(64usize)], any::<bool>()),
        fs,
        proptest::collection::vec(proptest::collection::vec(program_strategy(), 1..3), 1..=5),
        20u32..120,
        proptest::collection::vec((0u32..100, ctl), 0..5),
    )
        .prop_map(|((seed, epoch_s, tick_ms, (lat_min, d), lambda_x10), (fail_pct, repair_pct, random_order, tcp_capacity, udp_capacity, v6), fs, mut hosts, steps, mut ctl)| {
            ctl.sort_by_key(|c| c.0);
            // one TCP server / one UDP program per host at most (fixed ports)
            for h in hosts.iter_mut() {
                let mut seen_srv = false;
                let mut seen_udp = false;
                h.retain(|p| match p {
                    Program::TcpServer => !std::mem::replace(&mut seen_srv, true),
                    Program::Udp { .. } => !std::mem::replace(&mut seen_udp, true),
                    _ => true,
                });
            }
            Scenario { seed, epoch_s, tick_ms, lat_min, lat_max: lat_min + d, lambda_x10, fail_pct, repair_pct, random_order, tcp_capacity, udp_capacity, v6, fs, hosts, steps, ctl }
        })
        .boxed()
}

fn check(tier: Tier, seed: u64) -> i32 {
    let ctx = Ctx::new("C01", tier, seed, "exploration");
    ctx.replay_corpus(&replay);
    ctx.random("run-twice", tier.pick(3000, 60_000), &|| strategy(), &run);
    ctx.finish(
        "random scenarios: builder knobs (rng seed, epoch, tick, latency range and curve, fail/repair rate, random host order, tcp/udp capacity, ip version, fs sync/io-error/short-read/corruption probabilities, io latency, torn-write block size, page cache) x 1-5 hosts each running 1-2 programs from the families TCP echo server, TCP client, UDP chatter, tokio select/spawn/interval, filesystem workload (incl. read_dir), io_uring batches drained through AsyncFd x a controller script (crash, bounce, partition, repair, hold, release). Each scenario is executed twice in this process and the complete traces (every `turmoil` tracing event, every step result or panic message, Sim::elapsed, and the program log with virtual timestamps, values read, error kinds, directory listing order and CQE order) are compared; a deterministic third of the scenarios is additionally executed in two freshly spawned OS processes whose trace hashes must equal the in-process hash. Non-trivial = (>= 10 network events or >= 5 fs/io_uring observations) and at least one rng-consuming knob active. Distinct by scenario hash.",
        &[
            "host programs are pure functions of the scenario (no wall clock, no OS randomness)",
            "fresh-process equality is checked between processes started by this binary on this machine; cross-machine differences are out of reach",
            "a scenario that panics (e.g. a documented capacity panic) must panic with the same first message in every run",
        ],
    )
}

fn replay(_sub: &str, v: &Value) -> Result<Outcome, String> {
    replay_as::<Scenario>(v, &run)
}

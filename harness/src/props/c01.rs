//! C01 — same seed, configuration and programs give the same execution.
//! DESIGN.md §6 C01.  SimDriver; run-twice equality of complete traces, in
//! one process and (for a deterministic subset) in two fresh OS processes, and (for a
//! deterministic subset) under wall-clock perturbation (real pauses at the places where
//! a leaked real clock would enter the simulated execution).

use crate::drivers::trace;
use crate::engine::{hash_json, replay_as, Ctx, Outcome, Tier};
use proptest::prelude::*;
use serde::{Deserialize, Serialize};
use serde_json::Value;
use std::cell::{Cell, RefCell};
use std::hash::{Hash, Hasher};
use std::io::Write as _;
use std::os::fd::{AsRawFd, RawFd};
use std::os::unix::fs::FileExt;
use std::panic::{catch_unwind, AssertUnwindSafe};
use std::rc::Rc;
use std::time::{Duration, SystemTime};
use tokio::io::{AsyncReadExt, AsyncWriteExt};
use turmoil::net::{TcpListener, TcpStream, UdpSocket};

pub const PROP: super::Prop = super::Prop {
    id: "C01",
    level: "exploration",
    check,
    replay,
};

#[derive(Clone, Debug, Serialize, Deserialize)]
pub enum FsOp {
    Write(u8, u16, u8),
    Read(u8),
    ReadDir,
    Metadata(u8),
    SyncAll(u8),
    SyncDir,
    Remove(u8),
    Rename(u8, u8),
    CreateDir(u8),
    Sleep(u8),
}

#[derive(Clone, Debug, Serialize, Deserialize)]
pub enum UringOp {
    Write(u8, u16, u8),
    Read(u8, u16, u8),
    Fsync(u8),
}

#[derive(Clone, Debug, Serialize, Deserialize)]
pub enum Program {
    TcpServer,
    TcpClient { to: usize, chunks: Vec<u16>, pause: u8 },
    Udp {
        to: Vec<usize>,
        n: u8,
        gap: u8,
        /// virtual ms to wait before the first send
        #[serde(default, skip_serializing_if = "is_zero_u8")]
        start: u8,
    },
    SelectSpawn { n: u8 },
    Fs { ops: Vec<FsOp> },
    Uring { depth: u8, rounds: Vec<Vec<UringOp>> },
    /// controller script run by host software: sleep `.0` ms (virtual), then apply `.1`
    /// through the free functions `turmoil::hold/release/partition/repair/partition_oneway/
    /// repair_oneway` (actions that only exist on the Sim handle are skipped)
    Controller { script: Vec<(u8, Ctl)> },
}

#[derive(Clone, Copy, Debug, Serialize, Deserialize)]
pub enum Ctl {
    Crash(usize),
    Bounce(usize),
    Partition(usize, usize),
    Repair(usize, usize),
    Hold(usize, usize),
    Release(usize, usize),
    PartitionOneway(usize, usize),
    RepairOneway(usize, usize),
    /// Sim::links: schedule every in-flight message of the link for delivery
    DeliverAll(usize, usize),
    /// Sim::links: schedule the in-flight messages whose index (mod 8) is set in the mask
    DeliverSome(usize, usize, u8),
}

#[derive(Clone, Debug, Serialize, Deserialize)]
pub struct FsKnobs {
    pub sync_probability_pct: u8,
    pub io_error_pct: u8,
    pub short_read_pct: u8,
    pub corruption_pct: u8,
    pub latency_us: Option<(u32, u32)>,
    pub block_size: Option<u16>,
    pub page_cache: bool,
}

#[derive(Clone, Debug, Serialize, Deserialize)]
pub struct Scenario {
    pub seed: u64,
    pub epoch_s: u32,
    pub tick_ms: u32,
    pub lat_min: u32,
    pub lat_max: u32,
    pub lambda_x10: u32,
    pub fail_pct: u8,
    pub repair_pct: u8,
    pub random_order: bool,
    pub tcp_capacity: usize,
    pub udp_capacity: usize,
    pub v6: bool,
    pub fs: FsKnobs,
    /// programs per host
    pub hosts: Vec<Vec<Program>>,
    pub steps: u32,
    pub ctl: Vec<(u32, Ctl)>,
    /// sub-millisecond part of the tick duration (0 = whole-millisecond tick)
    #[serde(default, skip_serializing_if = "is_zero_u32")]
    pub tick_extra_us: u32,
}

// fields added later are left out of the JSON when they have their default value, so that
// the scenario hash (which selects the extra sub-checks) of older replay files is unchanged
fn is_zero_u8(v: &u8) -> bool {
    *v == 0
}
fn is_zero_u32(v: &u32) -> bool {
    *v == 0
}

/// Wall-clock perturbation of one execution: real (`std::thread::sleep`) pauses at the
/// places where a leaked real clock would end up in the simulated execution.  None of
/// them may change anything observable.
#[derive(Clone, Copy, Default)]
struct Perturb {
    /// before the first step and before every 8th step
    step_us: u64,
    /// between `Builder::build()` and the first host registration
    after_build_us: u64,
    /// between two host registrations
    between_hosts_us: u64,
    /// before every controller action taken through the Sim handle: sleep until real time
    /// since `build()` is ahead of the virtual time, unless that needs more than this
    catch_up_cap_us: u64,
    /// inside host polls (before in-host controller actions, every 4th fs operation)
    in_host_us: u64,
}

thread_local! {
    static IN_HOST_SLEEP_US: Cell<u64> = const { Cell::new(0) };
    /// classification only: messages that were in flight on a link when the Sim handle
    /// released / manually delivered / repaired it (summed over the last execution)
    static RESCHEDULED_IN_FLIGHT: Cell<u64> = const { Cell::new(0) };
}

fn in_host_real_pause() {
    let us = IN_HOST_SLEEP_US.with(|c| c.get());
    if us > 0 {
        std::thread::sleep(Duration::from_micros(us));
    }
}

#[derive(Clone, Default)]
struct Shared {
    log: Rc<RefCell<Vec<String>>>,
    fs_obs: Rc<Cell<u64>>,
}

impl Shared {
    fn say(&self, host: usize, what: String) {
        let t = turmoil::sim_elapsed().map(|d| d.as_micros()).unwrap_or(0);
        self.log.borrow_mut().push(format!("h{host} @{t}us {what}"));
    }
}

struct RingFd(RawFd);
impl AsRawFd for RingFd {
    fn as_raw_fd(&self) -> RawFd {
        self.0
    }
}

fn kind<T>(r: &std::io::Result<T>) -> String {
    match r {
        Ok(_) => "ok".into(),
        Err(e) => format!("err:{:?}", e.kind()),
    }
}

async fn run_program(sh: Shared, me: usize, nhosts: usize, p: Program, v6: bool) {
    let any = if v6 { "::" } else { "0.0.0.0" };
    match p {
        Program::TcpServer => {
            let lis = match TcpListener::bind((any, 9000)).await {
                Ok(l) => l,
                Err(e) => {
                    sh.say(me, format!("tcp bind err {:?}", e.kind()));
                    return;
                }
            };
            loop {
                match lis.accept().await {
                    Ok((mut s, from)) => {
                        sh.say(me, format!("accepted {from}"));
                        let sh2 = sh.clone();
                        tokio::task::spawn_local(async move {
                            let mut b = [0u8; 64];
                            loop {
                                match s.read(&mut b).await {
                                    Ok(0) => {
                                        sh2.say(me, "srv eof".into());
                                        break;
                                    }
                                    Ok(n) => {
                                        sh2.say(me, format!("srv read {n} first {}", b[0]));
                                        if let Err(e) = s.write_all(&b[..n]).await {
                                            sh2.say(me, format!("srv write err {:?}", e.kind()));
                                            break;
                                        }
                                    }
                                    Err(e) => {
                                        sh2.say(me, format!("srv read err {:?}", e.kind()));
                                        break;
                                    }
                                }
                            }
                        });
                    }
                    Err(e) => {
                        sh.say(me, format!("accept err {:?}", e.kind()));
                        break;
                    }
                }
            }
        }
        Program::TcpClient { to, chunks, pause } => {
            let to = to % nhosts;
            tokio::time::sleep(Duration::from_millis(2)).await;
            match TcpStream::connect((format!("h{to}").as_str(), 9000)).await {
                Err(e) => sh.say(me, format!("connect h{to} err {:?}", e.kind())),
                Ok(mut s) => {
                    sh.say(me, format!("connected local {:?}", s.local_addr().map(|a| a.port())));
                    let mut total = 0usize;
                    for (i, c) in chunks.iter().enumerate() {
                        let data = vec![(i as u8).wrapping_mul(31).wrapping_add(me as u8); (*c as usize).max(1)];
                        if let Err(e) = s.write_all(&data).await {
                            sh.say(me, format!("cli write err {:?}", e.kind()));
                            break;
                        }
                        total += data.len();
                        if pause > 0 {
                            tokio::time::sleep(Duration::from_millis(pause as u64)).await;
                        }
                    }
                    let _ = s.shutdown().await;
                    let mut got = 0usize;
                    let mut b = [0u8; 48];
                    loop {
                        match tokio::time::timeout(Duration::from_millis(400), s.read(&mut b)).await {
                            Ok(Ok(0)) => {
                                sh.say(me, format!("cli eof after {got}/{total}"));
                                break;
                            }
                            Ok(Ok(n)) => {
                                got += n;
                                sh.say(me, format!("cli read {n}"));
                            }
                            Ok(Err(e)) => {
                                sh.say(me, format!("cli read err {:?} after {got}", e.kind()));
                                break;
                            }
                            Err(_) => {
                                sh.say(me, format!("cli read timeout after {got}"));
                                break;
                            }
                        }
                    }
                }
            }
        }
        Program::Udp { to, n, gap, start } => {
            let u = match UdpSocket::bind((any, 9001)).await {
                Ok(u) => Rc::new(u),
                Err(e) => {
                    sh.say(me, format!("udp bind err {:?}", e.kind()));
                    return;
                }
            };
            let (sh2, u2) = (sh.clone(), u.clone());
            tokio::task::spawn_local(async move {
                let mut b = [0u8; 16];
                loop {
                    match u2.recv_from(&mut b).await {
                        Ok((n, from)) => sh2.say(me, format!("udp recv {n} from {from} seq {}", b[0])),
                        Err(e) => sh2.say(me, format!("udp recv err {:?}", e.kind())),
                    }
                }
            });
            if start > 0 {
                tokio::time::sleep(Duration::from_millis(start as u64)).await;
            }
            for i in 0..n {
                for t in &to {
                    let t = t % nhosts;
                    if t == me {
                        continue;
                    }
                    let r = u.send_to(&[i, me as u8, 0, 0], (format!("h{t}").as_str(), 9001)).await;
                    sh.say(me, format!("udp send {i} to h{t} {}", kind(&r)));
                }
                tokio::time::sleep(Duration::from_millis(gap as u64)).await;
            }
        }
        Program::SelectSpawn { n } => {
            // exercises the runtime's (seeded) rng: select! branch order, spawn order, intervals
            let (tx, mut rx) = tokio::sync::mpsc::unbounded_channel::<u8>();
            for i in 0..n {
                let tx = tx.clone();
                tokio::spawn(async move {
                    tokio::time::sleep(Duration::from_millis((i as u64 * 7) % 5)).await;
                    let _ = tx.send(i);
                });
            }
            drop(tx);
            let mut iv = tokio::time::interval(Duration::from_millis(3));
            let mut ticks = 0u32;
            let mut order = Vec::new();
            loop {
                tokio::select! {
                    v = rx.recv() => match v { Some(v) => order.push(v), None => break },
                    _ = iv.tick() => { ticks += 1; if ticks > 40 { break; } }
                    _ = tokio::time::sleep(Duration::from_millis(1)) => { order.push(200); }
                }
            }
            sh.say(me, format!("select order {order:?} ticks {ticks}"));
            // two ready branches at once: the choice is the seeded rng's
            let mut picks = Vec::new();
            for _ in 0..24 {
                let a = std::future::ready(0u8);
                let b = std::future::ready(1u8);
                let c = std::future::ready(2u8);
                let p = tokio::select! { v = a => v, v = b => v, v = c => v };
                picks.push(p);
            }
            sh.say(me, format!("select picks {picks:?}"));
        }
        Program::Fs { ops } => {
            use turmoil::fs::shim::std::fs as sfs;
            let path = |f: u8| format!("/d/f{}", f % 6);
            let r = sfs::create_dir("/d");
            sh.say(me, format!("mkdir /d {}", kind(&r)));
            for (k, op) in ops.into_iter().enumerate() {
                sh.fs_obs.set(sh.fs_obs.get() + 1);
                if k % 4 == 0 {
                    in_host_real_pause();
                }
                match op {
                    FsOp::Write(f, off, len) => {
                        let r = sfs::OpenOptions::new().create(true).write(true).read(true).open(path(f)).and_then(|fl| fl.write_at(&vec![f.wrapping_add(len); (len as usize % 40) + 1], off as u64 % 200));
                        sh.say(me, format!("write {} {:?}", path(f), r.map_err(|e| e.kind())));
                    }
                    FsOp::Read(f) => {
                        let r = sfs::read(path(f));
                        sh.say(me, format!("read {} {:?}", path(f), r.map_err(|e| e.kind())));
                    }
                    FsOp::ReadDir => match sfs::read_dir("/d") {
                        Ok(rd) => {
                            let names: Vec<String> = rd.map(|e| e.map(|e| e.file_name().to_string_lossy().to_string()).unwrap_or_else(|e| format!("err:{:?}", e.kind()))).collect();
                            sh.say(me, format!("read_dir {names:?}"));
                        }
                        Err(e) => sh.say(me, format!("read_dir err {:?}", e.kind())),
                    },
                    FsOp::Metadata(f) => {
                        let r = sfs::metadata(path(f)).map(|m| (m.len(), m.is_file()));
                        sh.say(me, format!("metadata {} {:?}", path(f), r.map_err(|e| e.kind())));
                    }
                    FsOp::SyncAll(f) => {
                        let r = sfs::OpenOptions::new().read(true).write(true).open(path(f)).and_then(|fl| fl.sync_all());
                        sh.say(me, format!("sync_all {} {}", path(f), kind(&r)));
                    }
                    FsOp::SyncDir => {
                        let r = sfs::sync_dir("/d");
                        sh.say(me, format!("sync_dir {}", kind(&r)));
                    }
                    FsOp::Remove(f) => {
                        let r = sfs::remove_file(path(f));
                        sh.say(me, format!("remove {} {}", path(f), kind(&r)));
                    }
                    FsOp::Rename(a, b) => {
                        let r = sfs::rename(path(a), path(b));
                        sh.say(me, format!("rename {} {} {}", path(a), path(b), kind(&r)));
                    }
                    FsOp::CreateDir(d) => {
                        let r = sfs::create_dir(format!("/d/sub{}", d % 3));
                        sh.say(me, format!("mkdir sub{} {}", d % 3, kind(&r)));
                    }
                    FsOp::Sleep(ms) => tokio::time::sleep(Duration::from_millis(ms as u64 % 6)).await,
                }
            }
        }
        Program::Uring { depth, rounds } => {
            use turmoil::fs::shim::std::fs as sfs;
            use turmoil::io_uring::{opcode, types, AsyncFd, IoUring};
            let _ = sfs::create_dir("/u");
            let files: Vec<_> = (0..2)
                .filter_map(|i| sfs::OpenOptions::new().create(true).read(true).write(true).open(format!("/u/f{i}")).ok())
                .collect();
            if files.len() < 2 {
                sh.say(me, "uring: open failed".into());
                return;
            }
            let mut ring = match IoUring::new((depth % 8 + 1) as u32) {
                Ok(r) => r,
                Err(e) => {
                    sh.say(me, format!("uring new err {:?}", e.kind()));
                    return;
                }
            };
            let afd = match AsyncFd::new(RingFd(ring.as_raw_fd())) {
                Ok(a) => a,
                Err(e) => {
                    sh.say(me, format!("asyncfd err {:?}", e.kind()));
                    return;
                }
            };
            let mut bufs: Vec<Vec<u8>> = Vec::new();
            let mut ud = 0u64;
            for r in rounds {
                let mut pushed = 0usize;
                for op in r {
                    ud += 1;
                    let entry = match op {
                        UringOp::Write(f, off, len) => {
                            bufs.push(vec![(ud as u8).wrapping_mul(17); (len as usize % 48) + 1]);
                            let b = bufs.last().unwrap();
                            opcode::Write::new(types::Fd(files[f as usize % 2].as_raw_fd()), b.as_ptr(), b.len() as u32).offset(off as u64 % 300).build()
                        }
                        UringOp::Read(f, off, len) => {
                            bufs.push(vec![0xEE; (len as usize % 48) + 1]);
                            let b = bufs.last_mut().unwrap();
                            opcode::Read::new(types::Fd(files[f as usize % 2].as_raw_fd()), b.as_mut_ptr(), b.len() as u32).offset(off as u64 % 300).build()
                        }
                        UringOp::Fsync(f) => opcode::Fsync::new(types::Fd(files[f as usize % 2].as_raw_fd())).build(),
                    }
                    .user_data(ud);
                    // SAFETY: every buffer lives in `bufs` until the end of the program
                    let ok = unsafe { ring.submission().push(&entry).is_ok() };
                    if ok {
                        pushed += 1;
                    } else {
                        sh.say(me, format!("uring push {ud} rejected (full)"));
                    }
                }
                let sub = ring.submit();
                sh.say(me, format!("uring submit {:?}", sub.map_err(|e| e.kind())));
                let mut got = 0usize;
                let mut spins = 0;
                while got < pushed && spins < 200 {
                    spins += 1;
                    match afd.readable().await {
                        Ok(mut g) => g.clear_ready(),
                        Err(e) => {
                            sh.say(me, format!("uring readable err {:?}", e.kind()));
                            return;
                        }
                    }
                    let mut cq = ring.completion();
                    cq.sync();
                    let mut batch = Vec::new();
                    for e in &mut cq {
                        batch.push((e.user_data(), e.result()));
                    }
                    got += batch.len();
                    sh.fs_obs.set(sh.fs_obs.get() + batch.len() as u64);
                    sh.say(me, format!("uring cqes {batch:?}"));
                    if batch.is_empty() {
                        tokio::time::sleep(Duration::from_millis(1)).await;
                    }
                }
            }
            // what the reads saw
            let sums: Vec<u32> = bufs.iter().map(|b| b.iter().map(|x| *x as u32).sum()).collect();
            sh.say(me, format!("uring buffers {sums:?}"));
        }
        Program::Controller { script } => {
            let name = |i: usize| format!("h{}", i % nhosts);
            for (delay, c) in script {
                tokio::time::sleep(Duration::from_millis(delay as u64)).await;
                in_host_real_pause();
                let applied = match c {
                    Ctl::Partition(a, b) if a % nhosts != b % nhosts => {
                        turmoil::partition(name(a), name(b));
                        true
                    }
                    Ctl::Repair(a, b) if a % nhosts != b % nhosts => {
                        turmoil::repair(name(a), name(b));
                        true
                    }
                    Ctl::Hold(a, b) if a % nhosts != b % nhosts => {
                        turmoil::hold(name(a), name(b));
                        true
                    }
                    Ctl::Release(a, b) if a % nhosts != b % nhosts => {
                        turmoil::release(name(a), name(b));
                        true
                    }
                    Ctl::PartitionOneway(a, b) if a % nhosts != b % nhosts => {
                        turmoil::partition_oneway(name(a), name(b));
                        true
                    }
                    Ctl::RepairOneway(a, b) if a % nhosts != b % nhosts => {
                        turmoil::repair_oneway(name(a), name(b));
                        true
                    }
                    _ => false,
                };
                if applied {
                    sh.say(me, format!("ctl {c:?}"));
                }
            }
        }
    }
}

/// Apply one controller action through the Sim handle.  The links-iterator actions also
/// record what the iterator showed (in-flight messages of the link, in iteration order).
fn apply_from_sim(sim: &mut turmoil::Sim<'_>, c: Ctl, nhosts: usize, seen: &mut Vec<String>) {
    let name = |i: usize| format!("h{}", i % nhosts);
    if let Ctl::Release(a, b) | Ctl::DeliverAll(a, b) | Ctl::DeliverSome(a, b, _) = c {
        if a % nhosts != b % nhosts {
            // read-only look at the link (classification only)
            let (ia, ib) = (sim.lookup(name(a)), sim.lookup(name(b)));
            sim.links(|links| {
                for link in links {
                    let (x, y) = link.pair();
                    if (x == ia && y == ib) || (x == ib && y == ia) {
                        let n = link.count() as u64;
                        RESCHEDULED_IN_FLIGHT.with(|c| c.set(c.get() + n));
                    }
                }
            });
        }
    }
    match c {
        Ctl::Crash(h) => sim.crash(name(h)),
        Ctl::Bounce(h) => sim.bounce(name(h)),
        Ctl::Partition(a, b) if a % nhosts != b % nhosts => sim.partition(name(a), name(b)),
        Ctl::Repair(a, b) if a % nhosts != b % nhosts => sim.repair(name(a), name(b)),
        Ctl::Hold(a, b) if a % nhosts != b % nhosts => sim.hold(name(a), name(b)),
        Ctl::Release(a, b) if a % nhosts != b % nhosts => sim.release(name(a), name(b)),
        Ctl::PartitionOneway(a, b) if a % nhosts != b % nhosts => sim.partition_oneway(name(a), name(b)),
        Ctl::RepairOneway(a, b) if a % nhosts != b % nhosts => sim.repair_oneway(name(a), name(b)),
        Ctl::DeliverAll(a, b) | Ctl::DeliverSome(a, b, _) if a % nhosts != b % nhosts => {
            let (ia, ib) = (sim.lookup(name(a)), sim.lookup(name(b)));
            let mask = match c {
                Ctl::DeliverSome(_, _, m) => Some(m),
                _ => None,
            };
            sim.links(|links| {
                for link in links {
                    let (x, y) = link.pair();
                    if !((x == ia && y == ib) || (x == ib && y == ia)) {
                        continue;
                    }
                    match mask {
                        None => {
                            seen.push(format!("links {x}-{y}: deliver_all"));
                            link.deliver_all();
                        }
                        Some(m) => {
                            let mut line = format!("links {x}-{y}:");
                            for (i, sent) in link.enumerate() {
                                let (src, dst) = sent.pair();
                                let pick = (m >> (i % 8)) & 1 == 1;
                                line.push_str(&format!(" [{src}->{dst} {}{}]", sent.protocol(), if pick { " deliver" } else { "" }));
                                if pick {
                                    sent.deliver();
                                }
                            }
                            seen.push(line);
                        }
                    }
                }
            });
        }
        _ => {}
    }
}

/// Execute once; returns (trace lines, network events, fs observations).
fn execute(sc: &Scenario) -> (Vec<String>, usize, u64) {
    execute_with(sc, Perturb::default())
}

/// The perturbed execution used by `run`: real pauses that put real time well ahead of
/// virtual time at every place where turmoil takes a timestamp.
const PERTURBED: Perturb = Perturb { step_us: 4_000, after_build_us: 6_000, between_hosts_us: 1_500, catch_up_cap_us: 40_000, in_host_us: 300 };

fn tick_of(sc: &Scenario) -> Duration {
    Duration::from_millis(sc.tick_ms.max(1) as u64) + Duration::from_micros(sc.tick_extra_us.min(999) as u64)
}

/// `pt` non-default: the harness really sleeps at the places described in [`Perturb`] —
/// wall-clock time that must not influence the simulated execution.
fn execute_with(sc: &Scenario, pt: Perturb) -> (Vec<String>, usize, u64) {
    let sh = Shared::default();
    let nhosts = sc.hosts.len().clamp(1, 5);
    IN_HOST_SLEEP_US.with(|c| c.set(pt.in_host_us));
    RESCHEDULED_IN_FLIGHT.with(|c| c.set(0));
    let pause = |us: u64| {
        if us > 0 {
            std::thread::sleep(Duration::from_micros(us));
        }
    };
    let run = || {
        let mut b = turmoil::Builder::new();
        b.rng_seed(sc.seed)
            .epoch(SystemTime::UNIX_EPOCH + Duration::from_secs(sc.epoch_s as u64 + 1))
            .tick_duration(tick_of(sc))
            .min_message_latency(Duration::from_millis(sc.lat_min.min(sc.lat_max) as u64))
            .max_message_latency(Duration::from_millis(sc.lat_max.max(sc.lat_min) as u64))
            .fail_rate(sc.fail_pct.min(100) as f64 / 100.0)
            .repair_rate(sc.repair_pct.min(100) as f64 / 100.0)
            .tcp_capacity(sc.tcp_capacity.max(1))
            .udp_capacity(sc.udp_capacity.max(1))
            .simulation_duration(Duration::from_secs(100_000));
        if sc.random_order {
            b.enable_random_order();
        }
        if sc.v6 {
            b.ip_version(turmoil::IpVersion::V6);
        }
        {
            let f = b.fs();
            f.sync_probability(sc.fs.sync_probability_pct.min(100) as f64 / 100.0)
                .io_error_probability(sc.fs.io_error_pct.min(100) as f64 / 100.0)
                .short_read_probability(sc.fs.short_read_pct.min(100) as f64 / 100.0)
                .corruption_probability(sc.fs.corruption_pct.min(100) as f64 / 100.0);
            if let Some(bs) = sc.fs.block_size {
                f.block_size(bs.max(1) as u64);
            }
            if let Some((lo, hi)) = sc.fs.latency_us {
                f.io_latency().min_latency(Duration::from_micros(lo.min(hi) as u64)).max_latency(Duration::from_micros(hi.max(lo) as u64));
            }
            if sc.fs.page_cache {
                f.page_cache().page_size(64).max_pages(4).random_eviction_probability(0.25);
            }
        }
        // only used to size the real pauses of a perturbed execution
        let built_at = std::time::Instant::now();
        let mut sim = b.build();
        pause(pt.after_build_us);
        sim.set_message_latency_curve(sc.lambda_x10.max(1) as f64 / 10.0);
        for h in 0..nhosts {
            if h > 0 {
                pause(pt.between_hosts_us);
            }
            let progs = sc.hosts[h].clone();
            let (sh2, v6) = (sh.clone(), sc.v6);
            sim.host(format!("h{h}"), move || {
                let (sh3, progs) = (sh2.clone(), progs.clone());
                async move {
                    sh3.say(h, "start".into());
                    let mut hs = Vec::new();
                    for p in progs {
                        hs.push(tokio::task::spawn_local(run_program(sh3.clone(), h, nhosts, p, v6)));
                    }
                    for x in hs {
                        let _ = x.await;
                    }
                    sh3.say(h, "programs done".into());
                    std::future::pending::<()>().await;
                    Ok(())
                }
            });
        }
        let mut results = Vec::new();
        for done in 0..sc.steps {
            if done % 8 == 0 {
                pause(pt.step_us);
            }
            for (at, c) in &sc.ctl {
                if *at != done {
                    continue;
                }
                if pt.catch_up_cap_us > 0 {
                    // real time since build() must be ahead of virtual time when the action runs
                    let want = sim.elapsed() + tick_of(sc) * 2 + Duration::from_millis(2);
                    let need = want.saturating_sub(built_at.elapsed());
                    if need <= Duration::from_micros(pt.catch_up_cap_us) {
                        std::thread::sleep(need);
                    }
                }
                apply_from_sim(&mut sim, *c, nhosts, &mut results);
            }
            match sim.step() {
                Ok(_) => {}
                Err(e) => {
                    results.push(format!("step {} error {e}", done + 1));
                    break;
                }
            }
        }
        results.push(format!("elapsed {:?}", sim.elapsed()));
        results
    };
    let (res, mut events) = trace::capture(|| catch_unwind(AssertUnwindSafe(run)));
    IN_HOST_SLEEP_US.with(|c| c.set(0));
    let net_events = events.iter().filter(|e| e.starts_with("Send") || e.starts_with("Delivered") || e.starts_with("Recv") || e.starts_with("Drop") || e.starts_with("Hold")).count();
    match res {
        Ok(r) => events.extend(r),
        Err(_) => {
            let msg = crate::engine::take_last_panic().unwrap_or_default();
            // strip the location of secondary panics; keep the first message
            events.push(format!("PANIC {}", msg.split(" | then:").next().unwrap_or("")));
        }
    }
    events.push("--- program log".into());
    events.extend(sh.log.borrow().iter().cloned());
    (events, net_events, sh.fs_obs.get())
}

fn hash_lines(v: &[String]) -> u64 {
    let mut h = std::collections::hash_map::DefaultHasher::new();
    v.hash(&mut h);
    h.finish()
}

fn child_hash(sc: &Scenario) -> Result<u64, String> {
    let exe = std::env::current_exe().map_err(|e| e.to_string())?;
    let mut ch = std::process::Command::new(exe)
        .arg("c01-child")
        .stdin(std::process::Stdio::piped())
        .stdout(std::process::Stdio::piped())
        .stderr(std::process::Stdio::null())
        .spawn()
        .map_err(|e| e.to_string())?;
    ch.stdin.take().unwrap().write_all(serde_json::to_string(sc).unwrap().as_bytes()).map_err(|e| e.to_string())?;
    let out = ch.wait_with_output().map_err(|e| e.to_string())?;
    let txt = String::from_utf8_lossy(&out.stdout);
    txt.trim().parse::<u64>().map_err(|e| format!("child said {txt:?}: {e}"))
}

/// `tvh c01-stress <threads> <iters>`: scenario on stdin; run it concurrently on several
/// threads and report differing traces (debug aid: is a difference thread-related?).
pub fn stress_main(args: &[String]) -> i32 {
    let mut s = String::new();
    let _ = std::io::Read::read_to_string(&mut std::io::stdin(), &mut s);
    let Ok(sc) = serde_json::from_str::<Scenario>(&s) else { return 2 };
    let threads: usize = args.first().and_then(|a| a.parse().ok()).unwrap_or(16);
    let iters: usize = args.get(1).and_then(|a| a.parse().ok()).unwrap_or(20);
    let reference = execute(&sc).0;
    let bad = std::sync::atomic::AtomicUsize::new(0);
    std::thread::scope(|scope| {
        for t in 0..threads {
            let (sc, reference, bad) = (&sc, &reference, &bad);
            scope.spawn(move || {
                for i in 0..iters {
                    let l = execute(sc).0;
                    if l != *reference {
                        if bad.fetch_add(1, std::sync::atomic::Ordering::Relaxed) < 3 {
                            let k = l.iter().zip(reference.iter()).position(|(a, b)| a != b).unwrap_or(0);
                            eprintln!("thread {t} iter {i}: differs at {k} (len {} vs {}):\n  {:?}\n  {:?}", l.len(), reference.len(), l.get(k), reference.get(k));
                        }
                    }
                }
            });
        }
    });
    eprintln!("mismatches: {}", bad.load(std::sync::atomic::Ordering::Relaxed));
    0
}

/// `tvh c01-child`: read one scenario from stdin, print the trace hash.
pub fn child_main() -> i32 {
    let mut s = String::new();
    if std::io::Read::read_to_string(&mut std::io::stdin(), &mut s).is_err() {
        return 2;
    }
    let Ok(sc) = serde_json::from_str::<Scenario>(&s) else { return 2 };
    let (lines, _, _) = execute(&sc);
    if std::env::var("VERIF_C01_TWICE").is_ok() {
        let (l2, _, _) = execute(&sc);
        for (i, (a, b)) in lines.iter().zip(l2.iter()).enumerate() {
            if a != b {
                eprintln!("{i}: {a}\n{i}: {b}\n");
            }
        }
        eprintln!("lens {} {}", lines.len(), l2.len());
    }
    if std::env::var("VERIF_C01_DUMP").is_ok() {
        for l in &lines {
            eprintln!("{l}");
        }
    }
    println!("{}", hash_lines(&lines));
    0
}

pub fn run(sc: &Scenario) -> Outcome {
    run_checks(sc, false)
}

/// `all`: run every sub-check (real delays, fresh processes) instead of the hash-selected
/// share — used when replaying a stored scenario.
fn run_checks(sc: &Scenario, all: bool) -> Outcome {
    let mut out = Outcome::ok();
    let (a, net_events, fs_obs) = execute(sc);
    let in_flight_at_release = RESCHEDULED_IN_FLIGHT.with(|c| c.get());
    let (b, _, _) = execute(sc);
    let has_fs = sc.hosts.iter().flatten().any(|p| matches!(p, Program::Fs { .. }));
    let has_uring = sc.hosts.iter().flatten().any(|p| matches!(p, Program::Uring { .. }));
    if a != b {
        let i = a.iter().zip(b.iter()).position(|(x, y)| x != y).unwrap_or(a.len().min(b.len()));
        let what = a.get(i).cloned().unwrap_or_default();
        let site = if what.contains("read_dir") {
            "read_dir-order"
        } else if what.contains("uring") {
            "io_uring"
        } else if what.contains("select") {
            "tokio-select-or-spawn"
        } else if what.starts_with("Send") || what.starts_with("Delivered") || what.starts_with("Recv") || what.starts_with("Drop") {
            "network-trace"
        } else if what.contains(" read ") || what.contains("write") || what.contains("metadata") || what.contains("sync") {
            "fs-result"
        } else if what.starts_with("PANIC") {
            "panic"
        } else {
            "other"
        };
        out.fail(
            format!("two-runs-in-one-process-differ:{site}"),
            format!("first difference at record {i}: run 1 {:?} / run 2 {:?} (lengths {} / {})", a.get(i), b.get(i), a.len(), b.len()),
        );
        return out;
    }
    // wall-clock independence: real delays injected by the test (between build() and host
    // registration, between steps, before controller actions, inside host polls) must not
    // change anything.  Scenarios whose controller scripts reschedule in-flight messages
    // (release / manual delivery / repair) are where a leaked real clock would show: half
    // of those are checked, a quarter of the rest.
    let h = hash_json(sc);
    let is_resched = |c: &Ctl| matches!(c, Ctl::Release(..) | Ctl::DeliverAll(..) | Ctl::DeliverSome(..) | Ctl::Repair(..) | Ctl::RepairOneway(..));
    let sim_resched = sc.ctl.iter().any(|c| is_resched(&c.1));
    let host_ctl = sc.hosts.iter().take(5).flatten().any(|p| matches!(p, Program::Controller { .. }));
    let host_resched = sc.hosts.iter().take(5).flatten().any(|p| matches!(p, Program::Controller { script } if script.iter().any(|c| is_resched(&c.1))));
    if all || h % 4 == 1 || ((sim_resched || host_resched) && h % 2 == 1) {
        let (c, _, _) = execute_with(sc, PERTURBED);
        if c != a {
            let i = a.iter().zip(c.iter()).position(|(x, y)| x != y).unwrap_or(a.len().min(c.len()));
            out.fail(
                "execution-depends-on-wall-clock-time",
                format!("with real pauses (6 ms after build(), 1.5 ms between host registrations, 4 ms before every 8th step, catch-up before controller actions, 0.3 ms inside host polls) the trace differs at record {i}: normal {:?} / delayed {:?} (lengths {} / {})", a.get(i), c.get(i), a.len(), c.len()),
            );
            return out;
        }
        out.label("checked-with-real-delays");
        if sim_resched || host_resched {
            out.label("checked-with-real-delays:rescheduling-controller");
        }
    }
    // fresh OS processes for a deterministic third of the scenarios
    if all || h % 3 == 0 {
        let mine = hash_lines(&a);
        for n in 0..2 {
            match child_hash(sc) {
                Ok(c) if c == mine => {}
                Ok(c) => {
                    out.fail(
                        "fresh-process-run-differs-from-in-process-run",
                        format!("child {n} trace hash {c}, in-process {mine} ({} records); re-run `tvh c01-child` with VERIF_C01_DUMP=1 to diff", a.len()),
                    );
                    return out;
                }
                Err(e) => {
                    out.fail("harness-child-process-failed", e);
                    return out;
                }
            }
        }
        out.label("checked-in-fresh-processes");
        out.count("scenarios also run in 2 fresh processes", 1);
    }
    let rng_knob = sc.lat_max > sc.lat_min
        || sc.fail_pct > 0
        || sc.random_order
        || sc.fs.sync_probability_pct > 0
        || sc.fs.io_error_pct > 0
        || sc.fs.short_read_pct > 0
        || sc.fs.corruption_pct > 0
        || sc.fs.latency_us.map(|(a, b)| a != b).unwrap_or(false);
    if sc.ctl.iter().any(|c| matches!(c.1, Ctl::Crash(_) | Ctl::Bounce(_))) {
        out.label("with-crash");
    }
    let all_ctl: Vec<Ctl> = sc
        .ctl
        .iter()
        .map(|c| c.1)
        .chain(sc.hosts.iter().take(5).flatten().flat_map(|p| match p {
            Program::Controller { script } => script.iter().map(|c| c.1).collect::<Vec<_>>(),
            _ => Vec::new(),
        }))
        .collect();
    if all_ctl.iter().any(|c| matches!(c, Ctl::Partition(..) | Ctl::Hold(..) | Ctl::PartitionOneway(..))) {
        out.label("with-partition-or-hold");
    }
    if all_ctl.iter().any(|c| matches!(c, Ctl::Hold(..))) {
        out.label("with-hold");
    }
    if all_ctl.iter().any(|c| matches!(c, Ctl::PartitionOneway(..) | Ctl::RepairOneway(..))) {
        out.label("with-oneway-partition-or-repair");
    }
    if sc.ctl.iter().any(|c| matches!(c.1, Ctl::DeliverAll(..) | Ctl::DeliverSome(..))) {
        out.label("with-manual-delivery-through-links-iterator");
    }
    if !sc.ctl.is_empty() {
        out.label("controller-from-sim-handle");
    }
    if host_ctl {
        out.label("controller-from-host-software");
    }
    let held = a.iter().filter(|l| l.starts_with("Hold")).count();
    if in_flight_at_release > 0 {
        out.label("release-or-manual-delivery-from-sim-handle-with-messages-in-flight");
        out.count("messages in flight on a link when the Sim handle released / delivered it", in_flight_at_release);
    }
    if held > 0 {
        out.label("messages-sent-onto-held-link");
        if host_resched {
            out.label("messages-sent-onto-held-link+release-from-host-software");
        }
    }
    match sc.seed {
        0 => out.label("rng-seed-0"),
        1 => out.label("rng-seed-1"),
        u64::MAX => out.label("rng-seed-max"),
        _ => {}
    }
    if sc.lat_max == 0 && sc.lat_min == 0 {
        out.label("zero-latency");
    }
    if sc.tick_extra_us > 0 {
        out.label("sub-millisecond-tick");
    }
    if sc.fail_pct >= 100 || sc.fs.sync_probability_pct >= 100 || sc.fs.io_error_pct >= 100 || sc.fs.short_read_pct >= 100 || sc.fs.corruption_pct >= 100 {
        out.label("a-probability-knob-at-1");
    }
    if has_fs {
        out.label("with-fs");
    }
    if has_uring {
        out.label("with-io_uring");
    }
    if sc.random_order {
        out.label("with-random-order");
    }
    if sc.v6 {
        out.label("v6");
    }
    if sc.fail_pct > 0 {
        out.label("fail-rate>0");
    }
    if a.iter().any(|l| l.starts_with("PANIC")) {
        out.label("panicked-identically");
    }
    if a.iter().any(|l| l.contains("error")) {
        out.label("step-error");
    }
    out.count("trace records compared", a.len() as u64);
    out.nontrivial = (net_events >= 10 || fs_obs >= 5) && rng_knob;
    out
}

fn program_strategy() -> BoxedStrategy<Program> {
    let fsop = prop_oneof![
        6 => (0u8..6, 0u16..200, 0u8..40).prop_map(|(f, o, l)| FsOp::Write(f, o, l)),
        3 => (0u8..6).prop_map(FsOp::Read),
        3 => Just(FsOp::ReadDir),
        2 => (0u8..6).prop_map(FsOp::Metadata),
        2 => (0u8..6).prop_map(FsOp::SyncAll),
        1 => Just(FsOp::SyncDir),
        1 => (0u8..6).prop_map(FsOp::Remove),
        1 => (0u8..6, 0u8..6).prop_map(|(a, b)| FsOp::Rename(a, b)),
        1 => (0u8..3).prop_map(FsOp::CreateDir),
        1 => (0u8..6).prop_map(FsOp::Sleep),
    ];
    let uop = prop_oneof![
        3 => (0u8..2, 0u16..300, 0u8..48).prop_map(|(f, o, l)| UringOp::Write(f, o, l)),
        3 => (0u8..2, 0u16..300, 0u8..48).prop_map(|(f, o, l)| UringOp::Read(f, o, l)),
        1 => (0u8..2).prop_map(UringOp::Fsync),
    ];
    prop_oneof![
        2 => Just(Program::TcpServer),
        4 => (0usize..5, proptest::collection::vec(1u16..80, 1..6), 0u8..4).prop_map(|(to, chunks, pause)| Program::TcpClient { to, chunks, pause }),
        4 => (proptest::collection::vec(0usize..5, 1..4), 1u8..10, 0u8..4, prop_oneof![2 => Just(0u8), 1 => 0u8..12]).prop_map(|(to, n, gap, start)| Program::Udp { to, n, gap, start }),
        2 => (1u8..8).prop_map(|n| Program::SelectSpawn { n }),
        3 => proptest::collection::vec(fsop, 3..25).prop_map(|ops| Program::Fs { ops }),
        2 => (0u8..8, proptest::collection::vec(proptest::collection::vec(uop, 1..6), 1..4)).prop_map(|(depth, rounds)| Program::Uring { depth, rounds }),
        2 => proptest::collection::vec(host_ctl_fragment(), 1..4).prop_map(|f| Program::Controller { script: f.into_iter().flatten().collect() }),
    ]
    .boxed()
}

/// Link actions name their pair as (a, b) with b in 0..12: b >= 5 means "a link that
/// carries traffic in this scenario" and is resolved to concrete host indices by
/// [`retarget`] when the scenario is assembled (so that blocked links are usually busy).
fn retarget(c: Ctl, edges: &[(usize, usize)]) -> Ctl {
    let f = |a: usize, b: usize| -> (usize, usize) {
        if b < 5 {
            (a, b)
        } else if edges.is_empty() {
            (a, b - 5)
        } else {
            edges[(a * 7 + b) % edges.len()]
        }
    };
    match c {
        Ctl::Crash(_) | Ctl::Bounce(_) => c,
        Ctl::Partition(a, b) => { let (a, b) = f(a, b); Ctl::Partition(a, b) }
        Ctl::Repair(a, b) => { let (a, b) = f(a, b); Ctl::Repair(a, b) }
        Ctl::Hold(a, b) => { let (a, b) = f(a, b); Ctl::Hold(a, b) }
        Ctl::Release(a, b) => { let (a, b) = f(a, b); Ctl::Release(a, b) }
        Ctl::PartitionOneway(a, b) => { let (a, b) = f(a, b); Ctl::PartitionOneway(a, b) }
        Ctl::RepairOneway(a, b) => { let (a, b) = f(a, b); Ctl::RepairOneway(a, b) }
        Ctl::DeliverAll(a, b) => { let (a, b) = f(a, b); Ctl::DeliverAll(a, b) }
        Ctl::DeliverSome(a, b, m) => { let (a, b) = f(a, b); Ctl::DeliverSome(a, b, m) }
    }
}

/// One fragment of an in-host controller script: a single action, or a paired
/// "block the link, wait, unblock it" sequence.
fn host_ctl_fragment() -> BoxedStrategy<Vec<(u8, Ctl)>> {
    let pair = (0usize..5, 0usize..12);
    prop_oneof![
        1 => (0u8..6, pair.clone(), 0u8..6).prop_map(|(d, (a, b), k)| vec![(d, match k {
            0 => Ctl::Partition(a, b),
            1 => Ctl::Repair(a, b),
            2 => Ctl::Hold(a, b),
            3 => Ctl::Release(a, b),
            4 => Ctl::PartitionOneway(a, b),
            _ => Ctl::RepairOneway(a, b),
        })]),
        3 => (0u8..4, pair.clone(), 1u8..10).prop_map(|(d, (a, b), len)| vec![(d, Ctl::Hold(a, b)), (len, Ctl::Release(a, b))]),
        1 => (0u8..4, pair.clone(), 1u8..10, any::<bool>()).prop_map(|(d, (a, b), len, oneway)| if oneway {
            vec![(d, Ctl::PartitionOneway(a, b)), (len, Ctl::RepairOneway(a, b))]
        } else {
            vec![(d, Ctl::Partition(a, b)), (len, Ctl::Repair(a, b))]
        }),
    ]
    .boxed()
}

/// One fragment of the controller script driven from the Sim handle between steps.
fn sim_ctl_fragment() -> BoxedStrategy<Vec<(u32, Ctl)>> {
    let pair = (0usize..5, 0usize..12);
    let at = prop_oneof![1 => 0u32..12, 1 => 0u32..100];
    let single = prop_oneof![
        2 => (0usize..5).prop_map(Ctl::Crash),
        2 => (0usize..5).prop_map(Ctl::Bounce),
        1 => pair.clone().prop_map(|(a, b)| Ctl::Partition(a, b)),
        1 => pair.clone().prop_map(|(a, b)| Ctl::Repair(a, b)),
        1 => pair.clone().prop_map(|(a, b)| Ctl::Hold(a, b)),
        1 => pair.clone().prop_map(|(a, b)| Ctl::Release(a, b)),
        1 => pair.clone().prop_map(|(a, b)| Ctl::PartitionOneway(a, b)),
        1 => pair.clone().prop_map(|(a, b)| Ctl::RepairOneway(a, b)),
        1 => pair.clone().prop_map(|(a, b)| Ctl::DeliverAll(a, b)),
        1 => (pair.clone(), any::<u8>()).prop_map(|((a, b), m)| Ctl::DeliverSome(a, b, m)),
    ];
    prop_oneof![
        5 => (at.clone(), single).prop_map(|(t, c)| vec![(t, c)]),
        // block the link, let traffic pile up, then unblock it (release, or manual delivery
        // of all / some of the messages followed by a release)
        3 => (prop_oneof![2 => 0u32..3, 2 => 0u32..8, 1 => 0u32..60], 1u32..14, pair.clone(), 0u8..4, any::<u8>()).prop_map(|(t, len, (a, b), how, m)| match how {
            0 | 1 => vec![(t, Ctl::Hold(a, b)), (t + len, Ctl::Release(a, b))],
            2 => vec![(t, Ctl::Hold(a, b)), (t + len, Ctl::DeliverAll(a, b)), (t + len + 2, Ctl::Release(a, b))],
            _ => vec![(t, Ctl::Hold(a, b)), (t + len, Ctl::DeliverSome(a, b, m)), (t + len + 2, Ctl::Release(a, b))],
        }),
        1 => (at, 1u32..14, pair, any::<bool>()).prop_map(|(t, len, (a, b), oneway)| if oneway {
            vec![(t, Ctl::PartitionOneway(a, b)), (t + len, Ctl::RepairOneway(a, b))]
        } else {
            vec![(t, Ctl::Partition(a, b)), (t + len, Ctl::Repair(a, b))]
        }),
    ]
    .boxed()
}

pub fn strategy() -> BoxedStrategy<Scenario> {
    let fs = (
        prop_oneof![10 => Just(0u8), 5 => 1u8..60, 1 => Just(100u8)],
        prop_oneof![15 => Just(0u8), 5 => 1u8..30, 1 => Just(100u8)],
        prop_oneof![15 => Just(0u8), 5 => 1u8..50, 1 => Just(100u8)],
        prop_oneof![15 => Just(0u8), 5 => 1u8..50, 1 => Just(100u8)],
        prop_oneof![1 => Just(None), 1 => (0u32..3000, 0u32..3000).prop_map(Some)],
        prop_oneof![2 => Just(None), 1 => (1u16..32).prop_map(Some)],
        any::<bool>(),
    )
        .prop_map(|(sync_probability_pct, io_error_pct, short_read_pct, corruption_pct, latency_us, block_size, page_cache)| FsKnobs { sync_probability_pct, io_error_pct, short_read_pct, corruption_pct, latency_us, block_size, page_cache });
    // boundary values are weighted into every numeric dimension: "for all rng seeds"
    // includes 0, 1 and u64::MAX; probabilities include 0 and 1; latency range includes 0..0
    let seed = prop_oneof![4 => any::<u64>(), 2 => Just(0u64), 1 => Just(1u64), 1 => Just(u64::MAX), 1 => 0u64..4];
    let epoch = prop_oneof![6 => 0u32..2_000_000_000, 1 => Just(0u32), 1 => Just(u32::MAX)];
    let tick = prop_oneof![
        4 => (Just(1u32), Just(0u32)),
        4 => (2u32..=5, Just(0u32)),
        1 => (prop_oneof![Just(10u32), Just(50u32), Just(100u32)], Just(0u32)),
        1 => (1u32..=3, 1u32..1000),
    ];
    let lat = prop_oneof![6 => (0u32..8, 0u32..30), 1 => Just((0u32, 0u32)), 1 => (0u32..8, Just(0u32)), 1 => (Just(0u32), 1u32..30)];
    let pct = |hi: u8, w0: u32| prop_oneof![w0 => Just(0u8), 4 => 1u8..hi, 1 => Just(100u8)];
    (
        (seed, epoch, tick, lat, prop_oneof![8 => 1u32..100, 1 => Just(1u32)]),
        (pct(40, 9), prop_oneof![8 => 0u8..=100, 1 => Just(0u8), 1 => Just(100u8)], any::<bool>(), prop_oneof![1 => 2usize..6, 2 => Just(64usize)], prop_oneof![1 => 1usize..6, 2 => Just(64usize)], any::<bool>()),
        fs,
        prop_oneof![1 => Just(1usize), 3 => Just(2usize), 6 => 3usize..=5].prop_flat_map(|n| proptest::collection::vec(proptest::collection::vec(program_strategy(), 1..3), n)),
        20u32..120,
        proptest::collection::vec(sim_ctl_fragment(), 0..4).prop_map(|f| f.into_iter().flatten().collect::<Vec<_>>()),
    )
        .prop_map(|((seed, epoch_s, (tick_ms, tick_extra_us), (lat_min, d), lambda_x10), (fail_pct, repair_pct, random_order, tcp_capacity, udp_capacity, v6), fs, mut hosts, steps, mut ctl): (_, _, _, Vec<Vec<Program>>, u32, Vec<(u32, Ctl)>)| {
            ctl.sort_by_key(|c| c.0);
            // one TCP server / one UDP program per host at most (fixed ports)
            for h in hosts.iter_mut() {
                let mut seen_srv = false;
                let mut seen_udp = false;
                h.retain(|p| match p {
                    Program::TcpServer => !std::mem::replace(&mut seen_srv, true),
                    Program::Udp { .. } => !std::mem::replace(&mut seen_udp, true),
                    _ => true,
                });
            }
            // resolve "a busy link" pairs against the traffic this scenario really has
            let n = hosts.len();
            let mut edges = Vec::new();
            for (h, progs) in hosts.iter().enumerate() {
                for p in progs {
                    match p {
                        Program::TcpClient { to, .. } if to % n != h => edges.push((h, to % n)),
                        Program::Udp { to, .. } => edges.extend(to.iter().filter(|t| *t % n != h).map(|t| (h, t % n))),
                        _ => {}
                    }
                }
            }
            if edges.is_empty() && n >= 2 && (steps + lambda_x10) % 4 != 3 {
                // most multi-host scenarios should have some network traffic
                let h = (steps as usize) % n;
                hosts[h].retain(|p| !matches!(p, Program::Udp { .. }));
                let to = (h + 1 + (epoch_s as usize) % (n - 1)) % n;
                hosts[h].push(Program::Udp { to: vec![to], n: 1 + (lambda_x10 % 9) as u8, gap: (lambda_x10 % 4) as u8, start: (steps % 7) as u8 });
                edges.push((h, to));
            }
            for c in ctl.iter_mut() {
                c.1 = retarget(c.1, &edges);
            }
            for p in hosts.iter_mut().flatten() {
                if let Program::Controller { script } = p {
                    for c in script.iter_mut() {
                        c.1 = retarget(c.1, &edges);
                    }
                }
            }
            Scenario { seed, epoch_s, tick_ms, lat_min, lat_max: lat_min + d, lambda_x10, fail_pct, repair_pct, random_order, tcp_capacity, udp_capacity, v6, fs, hosts, steps, ctl, tick_extra_us }
        })
        .boxed()
}

fn check(tier: Tier, seed: u64) -> i32 {
    let ctx = Ctx::new("C01", tier, seed, "exploration");
    ctx.replay_corpus(&replay);
    ctx.random("run-twice", tier.pick(5000, 60_000), &|| strategy(), &run);
    ctx.finish(
        "random scenarios: builder knobs (rng seed with the boundary values 0, 1, u64::MAX and small seeds weighted in, epoch incl. both ends, tick 1-5 ms / 10-100 ms / with a sub-millisecond part, latency range incl. 0..0 and min=max, latency curve, fail/repair rate incl. 0 and 1, random host order, tcp/udp capacity, ip version, fs sync/io-error/short-read/corruption probabilities incl. 0 and 1, io latency, torn-write block size, page cache) x 1-5 hosts each running 1-2 programs from the families TCP echo server, TCP client, UDP chatter (optional start delay), tokio select/spawn/interval, filesystem workload (incl. read_dir), io_uring batches drained through AsyncFd, in-host controller script (turmoil::hold/release/partition/repair/partition_oneway/repair_oneway after virtual sleeps) x a controller script driven from the Sim handle between steps (crash, bounce, partition, repair, partition_oneway, repair_oneway, hold, release, manual delivery of all / a subset of the in-flight messages through the Sim::links iterator; single actions and paired block-wait-unblock fragments, about half of the link pairs aimed at a link that carries traffic). Each scenario is executed twice in this process and the complete traces (every `turmoil` tracing event, every step result or panic message, what the links iterator showed, Sim::elapsed, and the program log with virtual timestamps, values read, error kinds, directory listing order and CQE order) are compared; a deterministic third of the scenarios is additionally executed in two freshly spawned OS processes whose trace hashes must equal the in-process hash; half of the scenarios whose controller scripts reschedule in-flight messages (release, manual delivery, repair) and a quarter of the others are executed once more with real wall-clock pauses (6 ms between Builder::build() and the first host registration, 1.5 ms between host registrations, 4 ms before every 8th step, before every Sim-handle controller action as long as needed (at most 40 ms) to put real time since build() ahead of virtual time, 0.3 ms inside host polls before in-host controller actions and every 4th fs operation) and must give the same trace. Stored scenarios (replay corpus) always get every sub-check. Non-trivial = (>= 10 network events or >= 5 fs/io_uring observations) and at least one rng-consuming knob active. Distinct by scenario hash.",
        &[
            "host programs are pure functions of the scenario (no wall clock, no OS randomness); the real pauses of the perturbed execution have no other effect than letting wall-clock time pass",
            "fresh-process equality is checked between processes started by this binary on this machine; cross-machine differences are out of reach",
            "a scenario that panics (e.g. a documented capacity panic) must panic with the same first message in every run",
            "partition_oneway/repair_oneway may be combined with hold on the same link although the rustdoc calls the combination unsupported: only run-to-run equality is demanded, not any particular behaviour",
        ],
    )
}

fn replay(_sub: &str, v: &Value) -> Result<Outcome, String> {
    replay_as::<Scenario>(v, &|sc: &Scenario| run_checks(sc, true))
}

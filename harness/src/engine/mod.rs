//! Engine: parallel proptest runner, bounded-exhaustive enumerator, replay,
//! known-finding matching and evidence writing. See DESIGN.md §2-§3.

use proptest::strategy::{BoxedStrategy, Strategy, ValueTree};
use proptest::test_runner::{Config, RngAlgorithm, TestCaseError, TestError, TestRng, TestRunner};
use serde::de::DeserializeOwned;
use serde::{Deserialize, Serialize};
use serde_json::{json, Value};
use std::cell::RefCell;
use std::collections::{BTreeMap, HashSet};
use std::hash::{Hash, Hasher};
use std::panic::{catch_unwind, AssertUnwindSafe};
use std::path::{Path, PathBuf};
use std::sync::atomic::{AtomicBool, AtomicU64, Ordering};
use std::sync::{Arc, Mutex};
use std::time::Instant;

pub mod bytesde;

pub const WORKERS: usize = 16;

#[derive(Clone, Copy, Debug, PartialEq, Eq)]
pub enum Tier {
    Quick,
    Thorough,
}

impl Tier {
    pub fn name(self) -> &'static str {
        match self {
            Tier::Quick => "quick",
            Tier::Thorough => "thorough",
        }
    }
    pub fn pick<T>(self, q: T, t: T) -> T {
        match self {
            Tier::Quick => q,
            Tier::Thorough => t,
        }
    }
}

#[derive(Clone, Debug, Serialize, Deserialize)]
pub struct Failure {
    /// Stable identifier of *what* failed (clause + site), used for
    /// known-finding matching. Never contains run-specific numbers.
    pub signature: String,
    /// Human-readable detail with the concrete values.
    pub detail: String,
}

#[derive(Clone, Debug, Default)]
pub struct Outcome {
    pub labels: Vec<String>,
    pub nontrivial: bool,
    pub failure: Option<Failure>,
    /// Known-finding ids whose taint excluded at least one comparison.
    pub excluded: Vec<String>,
    /// Extra additive counters (e.g. crash points explored inside one case).
    pub counters: Vec<(String, u64)>,
}

impl Outcome {
    pub fn ok() -> Self {
        Self::default()
    }
    pub fn label(&mut self, l: impl Into<String>) {
        let l = l.into();
        if !self.labels.contains(&l) {
            self.labels.push(l);
        }
    }
    pub fn count(&mut self, k: impl Into<String>, n: u64) {
        self.counters.push((k.into(), n));
    }
    pub fn fail(&mut self, signature: impl Into<String>, detail: impl Into<String>) {
        if self.failure.is_none() {
            self.failure = Some(Failure {
                signature: signature.into(),
                detail: detail.into(),
            });
        }
    }
    pub fn exclude(&mut self, id: impl Into<String>) {
        let id = id.into();
        if !self.excluded.contains(&id) {
            self.excluded.push(id);
        }
    }
}

#[derive(Clone, Debug, Deserialize)]
pub struct Finding {
    pub id: String,
    pub property: String,
    pub status: String, // "known" | "fixed"
    /// Failure signatures (exact match) this entry covers.
    #[serde(default)]
    pub signatures: Vec<String>,
    pub what: String,
    #[serde(default)]
    pub replay: Option<String>,
    #[serde(default)]
    pub commit: Option<String>,
}

fn verif_root() -> PathBuf {
    if let Ok(p) = std::env::var("VERIF_ROOT") {
        return PathBuf::from(p);
    }
    PathBuf::from("/verif")
}

pub fn load_findings() -> Vec<Finding> {
    let p = verif_root().join("known_findings.json");
    match std::fs::read_to_string(&p) {
        Ok(s) => {
            let v: Value = serde_json::from_str(&s).expect("known_findings.json is not JSON");
            serde_json::from_value(v["findings"].clone()).expect("known_findings.json: bad shape")
        }
        Err(_) => Vec::new(),
    }
}

thread_local! {
    static LAST_PANIC: RefCell<Option<String>> = const { RefCell::new(None) };
}

pub fn install_panic_hook() {
    let verbose = std::env::var("VERIF_VERBOSE").is_ok();
    let default = std::panic::take_hook();
    std::panic::set_hook(Box::new(move |info| {
        let msg = if let Some(s) = info.payload().downcast_ref::<&str>() {
            s.to_string()
        } else if let Some(s) = info.payload().downcast_ref::<String>() {
            s.clone()
        } else {
            "<non-string panic>".to_string()
        };
        let loc = info
            .location()
            .map(|l| format!("{}:{}", l.file(), l.line()))
            .unwrap_or_default();
        // keep the FIRST panic of a case (tokio re-panics with a generic message
        // when a task panicked); later ones are appended for context
        LAST_PANIC.with(|p| {
            let mut g = p.borrow_mut();
            match g.as_mut() {
                None => *g = Some(format!("{msg} @ {loc}")),
                Some(prev) => {
                    if prev.len() < 600 {
                        prev.push_str(&format!(" | then: {msg}"));
                    }
                }
            }
        });
        if verbose {
            default(info);
        }
    }));
}

pub fn take_last_panic() -> Option<String> {
    LAST_PANIC.with(|p| p.borrow_mut().take())
}

/// Strip numbers so that a panic signature is stable across inputs.
pub fn normalize(msg: &str) -> String {
    let mut out = String::new();
    let mut last_hash = false;
    for c in msg.chars() {
        if c.is_ascii_digit() {
            if !last_hash {
                out.push('#');
                last_hash = true;
            }
        } else {
            out.push(c);
            last_hash = false;
        }
    }
    out.chars().take(160).collect()
}

/// Run one case, converting a panic into a failure.
pub fn guarded<S>(run: &(dyn Fn(&S) -> Outcome + Sync), s: &S) -> Outcome {
    take_last_panic();
    match catch_unwind(AssertUnwindSafe(|| run(s))) {
        Ok(o) => o,
        Err(_) => {
            let msg = take_last_panic().unwrap_or_else(|| "<unknown panic>".into());
            let mut o = Outcome::ok();
            o.fail(format!("panic: {}", normalize(&msg)), msg);
            o
        }
    }
}

#[derive(Default)]
struct SubStats {
    kind: String,
    evaluations: u64,
    nontrivial: u64,
    exhaustive: bool,
    space: String,
}

#[derive(Default)]
struct Acc {
    evaluations: u64,
    nontrivial: HashSet<u64>,
    classes: BTreeMap<String, u64>,
    counters: BTreeMap<String, u64>,
    excluded: BTreeMap<String, u64>,
    known_hits: BTreeMap<String, u64>,
    samples: Vec<Value>,
    violations: Vec<(String, Failure, String)>, // sub, failure, replay path
    subs: BTreeMap<String, SubStats>,
    replayed: u64,
    infra: Vec<String>,
}

pub struct Ctx {
    pub prop: &'static str,
    pub tier: Tier,
    pub seed: u64,
    pub level: &'static str,
    start: Instant,
    acc: Mutex<Acc>,
    findings: Vec<Finding>,
    /// Per-worker "currently running" slot for the watchdog.
    current: Arc<Mutex<Vec<Option<(Instant, String)>>>>,
    stop_watchdog: Arc<AtomicBool>,
}

pub fn hash_json<S: Serialize>(s: &S) -> u64 {
    let txt = serde_json::to_string(s).unwrap_or_default();
    let mut h = std::collections::hash_map::DefaultHasher::new();
    txt.hash(&mut h);
    h.finish()
}

fn trim_sample(v: Value) -> Value {
    let txt = v.to_string();
    if txt.len() <= 4000 {
        v
    } else {
        json!({ "truncated_json": txt.chars().take(4000).collect::<String>() })
    }
}

impl Ctx {
    pub fn new(prop: &'static str, tier: Tier, seed: u64, level: &'static str) -> Arc<Ctx> {
        let ctx = Arc::new(Ctx {
            prop,
            tier,
            seed,
            level,
            start: Instant::now(),
            acc: Mutex::new(Acc::default()),
            findings: load_findings()
                .into_iter()
                .filter(|f| f.property == prop)
                .collect(),
            current: Arc::new(Mutex::new(vec![None; WORKERS + 1])),
            stop_watchdog: Arc::new(AtomicBool::new(false)),
        });
        // Watchdog: a single case that runs for more than the limit means a
        // hang in the harness or in the code under test; that is reported as
        // inconclusive (exit 2), never as a violation.
        let cur = ctx.current.clone();
        let stop = ctx.stop_watchdog.clone();
        let limit = std::env::var("VERIF_CASE_LIMIT_S")
            .ok()
            .and_then(|s| s.parse().ok())
            .unwrap_or(300u64);
        let prop_id = prop;
        std::thread::spawn(move || loop {
            std::thread::sleep(std::time::Duration::from_millis(500));
            if stop.load(Ordering::Relaxed) {
                return;
            }
            let g = cur.lock().unwrap();
            for (w, slot) in g.iter().enumerate() {
                if let Some((t, what)) = slot {
                    if t.elapsed().as_secs() > limit {
                        println!(
                            "WATCHDOG property={prop_id} worker={w} case ran > {limit}s: {}",
                            what.chars().take(2000).collect::<String>()
                        );
                        std::process::exit(2);
                    }
                }
            }
        });
        ctx
    }

    fn known_match(&self, f: &Failure) -> Option<&Finding> {
        self.findings
            .iter()
            .find(|k| k.status == "known" && k.signatures.iter().any(|s| *s == f.signature))
    }

    fn record<S: Serialize>(&self, sub: &str, s: &S, o: &Outcome) {
        let mut a = self.acc.lock().unwrap();
        a.evaluations += 1;
        let st = a.subs.entry(sub.to_string()).or_default();
        st.evaluations += 1;
        if o.nontrivial {
            st.nontrivial += 1;
        }
        for l in &o.labels {
            *a.classes.entry(l.clone()).or_default() += 1;
        }
        for (k, n) in &o.counters {
            *a.counters.entry(k.clone()).or_default() += n;
        }
        for e in &o.excluded {
            *a.excluded.entry(e.clone()).or_default() += 1;
        }
        if o.nontrivial {
            let h = hash_json(s);
            let fresh = a.nontrivial.insert(h);
            if fresh && a.samples.len() < 5 {
                // spread samples over sub-checks: at most 2 per sub
                let n_sub = a
                    .samples
                    .iter()
                    .filter(|v| v["sub"] == Value::String(sub.to_string()))
                    .count();
                if n_sub < 2 {
                    let v = json!({"sub": sub, "labels": o.labels, "scenario": trim_sample(serde_json::to_value(s).unwrap_or(Value::Null))});
                    a.samples.push(v);
                }
            }
        }
    }

    fn set_current(&self, w: usize, what: Option<String>) {
        let mut g = self.current.lock().unwrap();
        g[w] = what.map(|s| (Instant::now(), s));
    }

    fn write_replay<S: Serialize>(&self, sub: &str, s: &S, f: &Failure) -> String {
        let dir = verif_root().join("replays").join(self.prop).join("found");
        let _ = std::fs::create_dir_all(&dir);
        let body = json!({
            "property": self.prop,
            "sub": sub,
            "tier": self.tier.name(),
            "seed": self.seed,
            "failure": f,
            "scenario": s,
        });
        let h = hash_json(&body["scenario"]);
        let path = dir.join(format!("{sub}-{h:016x}.json"));
        let _ = std::fs::write(&path, serde_json::to_string_pretty(&body).unwrap());
        path.to_string_lossy().to_string()
    }

    fn report_violation<S: Serialize>(&self, sub: &str, s: &S, f: &Failure) {
        let path = self.write_replay(sub, s, f);
        println!(
            "VIOLATION property={} replay={} sub={} signature={:?}",
            self.prop, path, sub, f.signature
        );
        println!("  detail: {}", f.detail.chars().take(3000).collect::<String>());
        self.acc
            .lock()
            .unwrap()
            .violations
            .push((sub.to_string(), f.clone(), path));
    }

    /// Random tier: `cases` cases split over WORKERS fixed workers.
    pub fn random<S>(
        self: &Arc<Self>,
        sub: &str,
        cases: u32,
        strategy: &(dyn Fn() -> BoxedStrategy<S> + Sync),
        run: &(dyn Fn(&S) -> Outcome + Sync),
    ) where
        S: Serialize + std::fmt::Debug + Clone + 'static,
    {
        {
            let mut a = self.acc.lock().unwrap();
            let st = a.subs.entry(sub.to_string()).or_default();
            st.kind = "random".into();
        }
        // The thorough tier runs `VERIF_THOROUGH_MULT` (default 3) times the number of cases
        // the property module asks for: depth knob for long campaigns.
        let cases = if self.tier == Tier::Thorough {
            let m = std::env::var("VERIF_THOROUGH_MULT").ok().and_then(|v| v.parse::<u32>().ok()).unwrap_or(3).max(1);
            cases.saturating_mul(m)
        } else {
            // Quick tier: properties whose cases are cheap run a multiple of the module's case
            // count, so that every quick check does a few seconds of work on 16 cores.
            let m = match self.prop {
                "C06" | "C14" => 4,
                "C12" | "C13" | "C16" | "C19" => 3,
                "C03" | "C05" | "C08" | "C09" | "C11" | "C15" | "C17" => 2,
                _ => 1,
            };
            cases.saturating_mul(m)
        };
        let per = cases.div_ceil(WORKERS as u32).max(1);
        let stop_all = AtomicBool::new(false);
        let stop_all = &stop_all;
        std::thread::scope(|scope| {
            for w in 0..WORKERS {
                let ctx = self.clone();
                let sub = sub.to_string();
                std::thread::Builder::new()
                    .stack_size(64 << 20)
                    .spawn_scoped(scope, move || {
                        let mut h = std::collections::hash_map::DefaultHasher::new();
                        (ctx.seed, ctx.prop, &sub, w as u64).hash(&mut h);
                        let hv = h.finish();
                        let mut seed = [0u8; 32];
                        for i in 0..4 {
                            seed[i * 8..(i + 1) * 8].copy_from_slice(
                                &(hv.wrapping_mul(0x9E3779B97F4A7C15u64.wrapping_add(i as u64)))
                                    .to_le_bytes(),
                            );
                        }
                        let rng = TestRng::from_seed(RngAlgorithm::ChaCha, &seed);
                        let config = Config {
                            cases: per,
                            failure_persistence: None,
                            max_shrink_iters: 3000,
                            max_global_rejects: 65536,
                            verbose: 0,
                            ..Config::default()
                        };
                        let mut runner = TestRunner::new_with_rng(config, rng);
                        let failed = AtomicBool::new(false);
                        // failures of a nondeterministic system under test may not reproduce on
                        // the final re-run: remember what was seen, keyed by scenario
                        let seen_fail: RefCell<Vec<(u64, Failure)>> = RefCell::new(Vec::new());
                        let strat = strategy();
                        let res = runner.run(&strat, |s| {
                            if stop_all.load(Ordering::Relaxed) && !failed.load(Ordering::Relaxed) {
                                return Ok(());
                            }
                            let counting = !failed.load(Ordering::Relaxed);
                            ctx.set_current(w, Some(format!("{sub}: {s:?}")));
                            let o = guarded(run, &s);
                            ctx.set_current(w, None);
                            if counting {
                                ctx.record(&sub, &s, &o);
                            }
                            match &o.failure {
                                None => Ok(()),
                                Some(f) => {
                                    if let Some(k) = ctx.known_match(f) {
                                        if counting {
                                            let mut a = ctx.acc.lock().unwrap();
                                            *a.known_hits.entry(k.id.clone()).or_default() += 1;
                                        }
                                        Ok(())
                                    } else {
                                        failed.store(true, Ordering::Relaxed);
                                        stop_all.store(true, Ordering::Relaxed);
                                        seen_fail.borrow_mut().push((hash_json(&s), f.clone()));
                                        Err(TestCaseError::fail(f.signature.clone()))
                                    }
                                }
                            }
                        });
                        match res {
                            Ok(()) => {}
                            Err(TestError::Fail(_, s)) => {
                                let o = guarded(run, &s);
                                let f = o.failure.unwrap_or_else(|| {
                                    let h = hash_json(&s);
                                    let seen = seen_fail.borrow();
                                    match seen.iter().rev().find(|(k, _)| *k == h).or(seen.last()) {
                                        Some((_, f)) => Failure {
                                            signature: f.signature.clone(),
                                            detail: format!("(did not reproduce on the final re-run of the shrunk case: the failure is nondeterministic) {}", f.detail),
                                        },
                                        None => Failure {
                                            signature: "flaky: failure did not reproduce on re-run".into(),
                                            detail: format!("{s:?}"),
                                        },
                                    }
                                });
                                ctx.report_violation(&sub, &s, &f);
                            }
                            Err(TestError::Abort(r)) => {
                                ctx.acc
                                    .lock()
                                    .unwrap()
                                    .infra
                                    .push(format!("{sub}: proptest aborted: {r}"));
                            }
                        }
                    })
                    .unwrap();
            }
        });
    }

    /// Bounded-exhaustive tier: every element of `space` is executed.
    pub fn exhaustive<S>(
        self: &Arc<Self>,
        sub: &str,
        space_desc: &str,
        space: Box<dyn Iterator<Item = S> + Send + '_>,
        run: &(dyn Fn(&S) -> Outcome + Sync),
    ) where
        S: Serialize + std::fmt::Debug + Clone + Send + 'static,
    {
        {
            let mut a = self.acc.lock().unwrap();
            let st = a.subs.entry(sub.to_string()).or_default();
            st.kind = "exhaustive".into();
            st.exhaustive = true;
            st.space = space_desc.to_string();
        }
        let it = Mutex::new(space);
        let fails = AtomicU64::new(0);
        std::thread::scope(|scope| {
            for w in 0..WORKERS {
                let ctx = self.clone();
                let it = &it;
                let fails = &fails;
                let sub = sub.to_string();
                std::thread::Builder::new()
                    .stack_size(64 << 20)
                    .spawn_scoped(scope, move || loop {
                        let next = { it.lock().unwrap().next() };
                        let Some(s) = next else { break };
                        ctx.set_current(w, Some(format!("{sub}: {s:?}")));
                        let o = guarded(run, &s);
                        ctx.set_current(w, None);
                        ctx.record(&sub, &s, &o);
                        if let Some(f) = &o.failure {
                            if let Some(k) = ctx.known_match(f) {
                                let mut a = ctx.acc.lock().unwrap();
                                *a.known_hits.entry(k.id.clone()).or_default() += 1;
                            } else if fails.fetch_add(1, Ordering::Relaxed) < 3 {
                                // report the first few; enumeration order is
                                // smallest-first so these are already minimal
                                ctx.report_violation(&sub, &s, f);
                            } else {
                                let mut a = ctx.acc.lock().unwrap();
                                *a.counters
                                    .entry(format!("{sub}: further failing cases not listed"))
                                    .or_default() += 1;
                            }
                        }
                    })
                    .unwrap();
            }
        });
    }

    /// Replay the committed corpus for this property (replays/<id>/*.json).
    /// `dispatch(sub, scenario)` re-executes one scenario.
    pub fn replay_corpus(
        self: &Arc<Self>,
        dispatch: &dyn Fn(&str, &Value) -> Result<Outcome, String>,
    ) {
        let dir = verif_root().join("replays").join(self.prop);
        let mut files: Vec<PathBuf> = match std::fs::read_dir(&dir) {
            Ok(rd) => rd
                .filter_map(|e| e.ok())
                .map(|e| e.path())
                .filter(|p| p.extension().map(|e| e == "json").unwrap_or(false))
                .collect(),
            Err(_) => Vec::new(),
        };
        files.sort();
        for p in files {
            self.replay_file(&p, dispatch, true);
        }
        // every "known" entry must have reproduced through its replay
        let a = self.acc.lock().unwrap();
        let hits = a.known_hits.clone();
        drop(a);
        for k in self.findings.iter().filter(|k| k.status == "known") {
            if hits.get(&k.id).copied().unwrap_or(0) > 0 {
                println!("KNOWN-FINDING: property={} {} — {}", self.prop, k.id, k.what);
            } else {
                println!(
                    "NOTE property={} known finding {} did not reproduce from its replay (no longer present?)",
                    self.prop, k.id
                );
            }
        }
    }

    pub fn replay_file(
        self: &Arc<Self>,
        p: &Path,
        dispatch: &dyn Fn(&str, &Value) -> Result<Outcome, String>,
        corpus: bool,
    ) -> bool {
        let txt = match std::fs::read_to_string(p) {
            Ok(t) => t,
            Err(e) => {
                self.acc
                    .lock()
                    .unwrap()
                    .infra
                    .push(format!("cannot read {}: {e}", p.display()));
                return false;
            }
        };
        let v: Value = match serde_json::from_str(&txt) {
            Ok(v) => v,
            Err(e) => {
                self.acc
                    .lock()
                    .unwrap()
                    .infra
                    .push(format!("bad replay {}: {e}", p.display()));
                return false;
            }
        };
        let sub = v["sub"].as_str().unwrap_or("").to_string();
        self.set_current(WORKERS, Some(format!("replay {}", p.display())));
        take_last_panic();
        let res = catch_unwind(AssertUnwindSafe(|| dispatch(&sub, &v["scenario"])));
        self.set_current(WORKERS, None);
        let o = match res {
            Ok(Ok(o)) => o,
            Ok(Err(e)) => {
                self.acc
                    .lock()
                    .unwrap()
                    .infra
                    .push(format!("replay {} not dispatchable: {e}", p.display()));
                return false;
            }
            Err(_) => {
                let msg = take_last_panic().unwrap_or_default();
                let mut o = Outcome::ok();
                o.fail(format!("panic: {}", normalize(&msg)), msg);
                o
            }
        };
        {
            let mut a = self.acc.lock().unwrap();
            a.replayed += 1;
        }
        self.record(&format!("replay:{sub}"), &v["scenario"], &o);
        match &o.failure {
            None => {
                if !corpus {
                    println!("REPLAY-OK property={} file={}", self.prop, p.display());
                }
                true
            }
            Some(f) => {
                if let Some(k) = self.known_match(f) {
                    let mut a = self.acc.lock().unwrap();
                    *a.known_hits.entry(k.id.clone()).or_default() += 1;
                    if !corpus {
                        println!("KNOWN-FINDING: property={} {} — {}", self.prop, k.id, k.what);
                    }
                    true
                } else {
                    println!(
                        "VIOLATION property={} replay={} sub={} signature={:?}",
                        self.prop,
                        p.display(),
                        sub,
                        f.signature
                    );
                    println!("  detail: {}", f.detail.chars().take(3000).collect::<String>());
                    self.acc.lock().unwrap().violations.push((
                        sub,
                        f.clone(),
                        p.to_string_lossy().to_string(),
                    ));
                    false
                }
            }
        }
    }

    /// Write evidence and return the process exit code.
    pub fn finish(self: &Arc<Self>, rule: &str, assumptions: &[&str]) -> i32 {
        self.stop_watchdog.store(true, Ordering::Relaxed);
        let a = self.acc.lock().unwrap();
        let wall = self.start.elapsed().as_secs_f64();
        let subs: Vec<Value> = a
            .subs
            .iter()
            .map(|(k, s)| {
                json!({"sub": k, "kind": s.kind, "evaluations": s.evaluations,
                       "nontrivial_cases": s.nontrivial, "exhaustive": s.exhaustive, "space": s.space})
            })
            .collect();
        let any_exh = a.subs.values().any(|s| s.exhaustive);
        let all_exh = !a.subs.is_empty()
            && a.subs
                .iter()
                .filter(|(k, _)| !k.starts_with("replay:"))
                .all(|(_, s)| s.exhaustive);
        let exh_desc: Vec<String> = a
            .subs
            .iter()
            .filter(|(_, s)| s.exhaustive)
            .map(|(k, s)| format!("{k}: {}", s.space))
            .collect();
        let ev = json!({
            "property_id": self.prop,
            "tier": self.tier.name(),
            "seed": self.seed,
            "level": self.level,
            "coverage": {
                "evaluations": a.evaluations,
                "distinct_nontrivial": a.nontrivial.len(),
                "rule": rule,
                "samples": a.samples,
                "exhaustive": all_exh,
                "exhaustive_subspaces": if any_exh { json!(exh_desc) } else { json!([]) },
                "sub_checks": subs,
                "classes": a.classes,
                "counters": a.counters,
                "excluded_by_known_finding": a.excluded,
                "known_finding_hits": a.known_hits,
                "corpus_replayed": a.replayed,
                "workers": WORKERS,
            },
            "assumptions": assumptions,
            "wall_s": (wall * 1000.0).round() / 1000.0,
            "violations": a.violations.len(),
        });
        let mut ev = ev;
        if let Ok(fz) = std::env::var("VERIF_FUZZ_STATS") {
            if let Ok(v) = serde_json::from_str::<Value>(&fz) {
                ev["coverage"]["coverage_guided_campaign"] = v;
            }
        }
        let dir = verif_root().join("evidence");
        let _ = std::fs::create_dir_all(&dir);
        let path = dir.join(format!("{}.json", self.prop));
        std::fs::write(&path, serde_json::to_string_pretty(&ev).unwrap()).expect("write evidence");
        println!(
            "SUMMARY property={} tier={} seed={} evaluations={} distinct_nontrivial={} violations={} known_hits={:?} wall_s={:.1}",
            self.prop,
            self.tier.name(),
            self.seed,
            a.evaluations,
            a.nontrivial.len(),
            a.violations.len(),
            a.known_hits,
            wall
        );
        if std::env::var("VERIF_CLASSES").is_ok() {
            println!("classes: {:#?}", a.classes);
            println!("counters: {:#?}", a.counters);
            println!("excluded: {:#?}", a.excluded);
        }
        if !a.violations.is_empty() {
            return 1;
        }
        if !a.infra.is_empty() {
            for i in &a.infra {
                println!("INFRA property={} {}", self.prop, i);
            }
            return 2;
        }
        0
    }
}

/// Helper for replay dispatch: deserialize and run.
pub fn replay_as<S: DeserializeOwned>(
    v: &Value,
    run: &dyn Fn(&S) -> Outcome,
) -> Result<Outcome, String> {
    let s: S = serde_json::from_value(v.clone()).map_err(|e| format!("scenario shape: {e}"))?;
    Ok(run(&s))
}

/// Monotone index mapping for shrink-friendly choices.
pub fn pick(i: u16, len: usize) -> usize {
    if len == 0 {
        return 0;
    }
    ((i as usize) * len) >> 16
}

#[allow(dead_code)]
pub fn new_tree_value<S: Strategy>(s: &S, runner: &mut TestRunner) -> S::Value {
    s.new_tree(runner).unwrap().current()
}

// ---------------------------------------------------------------------------
// Coverage-guided tier: libFuzzer bytes -> proptest strategy (PassThrough rng)
// -> the same interpreter + oracle as the random tier.

thread_local! {
    static FUZZ_FINDINGS: RefCell<Option<Vec<Finding>>> = const { RefCell::new(None) };
}

/// Decode `data` structurally into a scenario (see `bytesde`), clamp it into the
/// generator's domain with `sanitize` (returning false skips the input), run it, and return
/// the scenario and failure if the oracle failed with a signature that is not a listed
/// known finding of `prop`.
pub fn fuzz_one<S>(prop: &str, sanitize: &dyn Fn(&mut S) -> bool, run: &(dyn Fn(&S) -> Outcome + Sync), data: &[u8]) -> Option<(S, Failure)>
where
    S: Serialize + DeserializeOwned + std::fmt::Debug + Clone + 'static,
{
    if data.is_empty() {
        return None;
    }
    let mut s: S = bytesde::from_bytes(data).ok()?;
    if !sanitize(&mut s) {
        return None;
    }
    let o = guarded(run, &s);
    let f = o.failure?;
    let known = FUZZ_FINDINGS.with(|k| {
        let mut g = k.borrow_mut();
        let v = g.get_or_insert_with(load_findings);
        v.iter().any(|x| x.property == prop && x.status == "known" && x.signatures.iter().any(|sg| *sg == f.signature))
    });
    if known {
        return None;
    }
    Some((s, f))
}

/// Called by the fuzz targets: on a failure write a replay file, print the
/// VIOLATION line and panic so that libFuzzer keeps the input.
pub fn fuzz_report<S: Serialize>(prop: &str, sub: &str, found: Option<(S, Failure)>) {
    let Some((s, f)) = found else { return };
    let dir = verif_root().join("replays").join(prop).join("found");
    let _ = std::fs::create_dir_all(&dir);
    let body = json!({"property": prop, "sub": sub, "tier": "thorough", "seed": 0, "failure": f, "scenario": s});
    let h = hash_json(&body["scenario"]);
    let path = dir.join(format!("fuzz-{sub}-{h:016x}.json"));
    let _ = std::fs::write(&path, serde_json::to_string_pretty(&body).unwrap());
    println!("VIOLATION property={prop} replay={} sub={sub} signature={:?}", path.display(), f.signature);
    println!("  detail: {}", f.detail.chars().take(2000).collect::<String>());
    panic!("oracle failed: {}", f.signature);
}

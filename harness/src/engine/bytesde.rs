//! A serde `Deserializer` over raw fuzzer bytes: decodes any `Deserialize`
//! scenario type structurally (struct = fields in order, enum = one byte
//! modulo the number of variants, Vec = one length byte (<= 16) + elements,
//! integers little-endian), so that libFuzzer's byte mutations map to local
//! scenario mutations.  When the bytes run out everything decodes to zero /
//! empty, so decoding always terminates.  Ranges are NOT enforced here: each
//! fuzz target clamps the decoded scenario into its generator's domain
//! (`fuzz_sanitize`) before running it.
//!
//! (proptest's `RngAlgorithm::PassThrough` was tried first and is unusable
//! with weighted unions: every lazily built alternative forks the rng, which
//! halves the remaining buffer, and rand 0.9's uniform sampler then spins for
//! ever on the resulting all-zero stream.)

use serde::de::{self, DeserializeSeed, EnumAccess, IntoDeserializer, SeqAccess, VariantAccess, Visitor};
use serde::Deserialize;

pub struct Bytes<'a> {
    data: &'a [u8],
    pos: usize,
}

#[derive(Debug)]
pub struct Error(String);
impl std::fmt::Display for Error {
    fn fmt(&self, f: &mut std::fmt::Formatter<'_>) -> std::fmt::Result {
        f.write_str(&self.0)
    }
}
impl std::error::Error for Error {}
impl de::Error for Error {
    fn custom<T: std::fmt::Display>(msg: T) -> Self {
        Error(msg.to_string())
    }
}

impl<'a> Bytes<'a> {
    pub fn new(data: &'a [u8]) -> Self {
        Bytes { data, pos: 0 }
    }
    fn byte(&mut self) -> u8 {
        let b = self.data.get(self.pos).copied().unwrap_or(0);
        self.pos += 1;
        b
    }
    fn uint(&mut self, n: usize) -> u64 {
        let mut v = 0u64;
        for i in 0..n {
            v |= (self.byte() as u64) << (8 * i);
        }
        v
    }
}

pub fn from_bytes<'a, T: Deserialize<'a>>(data: &'a [u8]) -> Result<T, Error> {
    let mut d = Bytes::new(data);
    T::deserialize(&mut d)
}

macro_rules! int {
    ($f:ident, $v:ident, $t:ty, $n:expr) => {
        fn $f<V: Visitor<'de>>(self, visitor: V) -> Result<V::Value, Error> {
            visitor.$v(self.uint($n) as $t)
        }
    };
}

impl<'de> de::Deserializer<'de> for &mut Bytes<'_> {
    type Error = Error;
    fn deserialize_any<V: Visitor<'de>>(self, _: V) -> Result<V::Value, Error> {
        Err(Error("deserialize_any is not supported".into()))
    }
    fn deserialize_bool<V: Visitor<'de>>(self, visitor: V) -> Result<V::Value, Error> {
        visitor.visit_bool(self.byte() & 1 == 1)
    }
    int!(deserialize_u8, visit_u8, u8, 1);
    int!(deserialize_u16, visit_u16, u16, 2);
    int!(deserialize_u32, visit_u32, u32, 4);
    int!(deserialize_u64, visit_u64, u64, 8);
    int!(deserialize_i8, visit_i8, i8, 1);
    int!(deserialize_i16, visit_i16, i16, 2);
    int!(deserialize_i32, visit_i32, i32, 4);
    int!(deserialize_i64, visit_i64, i64, 8);
    fn deserialize_f32<V: Visitor<'de>>(self, visitor: V) -> Result<V::Value, Error> {
        visitor.visit_f32(self.byte() as f32 / 255.0)
    }
    fn deserialize_f64<V: Visitor<'de>>(self, visitor: V) -> Result<V::Value, Error> {
        visitor.visit_f64(self.byte() as f64 / 255.0)
    }
    fn deserialize_char<V: Visitor<'de>>(self, visitor: V) -> Result<V::Value, Error> {
        visitor.visit_char((b'a' + self.byte() % 26) as char)
    }
    fn deserialize_str<V: Visitor<'de>>(self, visitor: V) -> Result<V::Value, Error> {
        self.deserialize_string(visitor)
    }
    fn deserialize_string<V: Visitor<'de>>(self, visitor: V) -> Result<V::Value, Error> {
        let n = self.byte() % 8;
        visitor.visit_string(format!("s{n}"))
    }
    fn deserialize_bytes<V: Visitor<'de>>(self, visitor: V) -> Result<V::Value, Error> {
        self.deserialize_byte_buf(visitor)
    }
    fn deserialize_byte_buf<V: Visitor<'de>>(self, visitor: V) -> Result<V::Value, Error> {
        let n = (self.byte() % 17) as usize;
        let v: Vec<u8> = (0..n).map(|_| self.byte()).collect();
        visitor.visit_byte_buf(v)
    }
    fn deserialize_option<V: Visitor<'de>>(self, visitor: V) -> Result<V::Value, Error> {
        if self.byte() & 1 == 1 {
            visitor.visit_some(self)
        } else {
            visitor.visit_none()
        }
    }
    fn deserialize_unit<V: Visitor<'de>>(self, visitor: V) -> Result<V::Value, Error> {
        visitor.visit_unit()
    }
    fn deserialize_unit_struct<V: Visitor<'de>>(self, _: &'static str, visitor: V) -> Result<V::Value, Error> {
        visitor.visit_unit()
    }
    fn deserialize_newtype_struct<V: Visitor<'de>>(self, _: &'static str, visitor: V) -> Result<V::Value, Error> {
        visitor.visit_newtype_struct(self)
    }
    fn deserialize_seq<V: Visitor<'de>>(self, visitor: V) -> Result<V::Value, Error> {
        let n = (self.byte() % 17) as usize;
        visitor.visit_seq(Fixed { de: self, left: n })
    }
    fn deserialize_tuple<V: Visitor<'de>>(self, len: usize, visitor: V) -> Result<V::Value, Error> {
        visitor.visit_seq(Fixed { de: self, left: len })
    }
    fn deserialize_tuple_struct<V: Visitor<'de>>(self, _: &'static str, len: usize, visitor: V) -> Result<V::Value, Error> {
        visitor.visit_seq(Fixed { de: self, left: len })
    }
    fn deserialize_map<V: Visitor<'de>>(self, _: V) -> Result<V::Value, Error> {
        Err(Error("maps are not supported".into()))
    }
    fn deserialize_struct<V: Visitor<'de>>(self, _: &'static str, fields: &'static [&'static str], visitor: V) -> Result<V::Value, Error> {
        visitor.visit_seq(Fixed { de: self, left: fields.len() })
    }
    fn deserialize_enum<V: Visitor<'de>>(self, _: &'static str, variants: &'static [&'static str], visitor: V) -> Result<V::Value, Error> {
        let idx = (self.byte() as usize) % variants.len().max(1);
        visitor.visit_enum(Enum { de: self, idx: idx as u32 })
    }
    fn deserialize_identifier<V: Visitor<'de>>(self, _: V) -> Result<V::Value, Error> {
        Err(Error("identifiers are not supported".into()))
    }
    fn deserialize_ignored_any<V: Visitor<'de>>(self, visitor: V) -> Result<V::Value, Error> {
        visitor.visit_unit()
    }
}

struct Fixed<'a, 'b> {
    de: &'a mut Bytes<'b>,
    left: usize,
}
impl<'de> SeqAccess<'de> for Fixed<'_, '_> {
    type Error = Error;
    fn next_element_seed<T: DeserializeSeed<'de>>(&mut self, seed: T) -> Result<Option<T::Value>, Error> {
        if self.left == 0 {
            return Ok(None);
        }
        self.left -= 1;
        seed.deserialize(&mut *self.de).map(Some)
    }
    fn size_hint(&self) -> Option<usize> {
        Some(self.left)
    }
}

struct Enum<'a, 'b> {
    de: &'a mut Bytes<'b>,
    idx: u32,
}
impl<'de, 'a, 'b> EnumAccess<'de> for Enum<'a, 'b> {
    type Error = Error;
    type Variant = Self;
    fn variant_seed<V: DeserializeSeed<'de>>(self, seed: V) -> Result<(V::Value, Self), Error> {
        let v = seed.deserialize(IntoDeserializer::<Error>::into_deserializer(self.idx))?;
        Ok((v, self))
    }
}
impl<'de> VariantAccess<'de> for Enum<'_, '_> {
    type Error = Error;
    fn unit_variant(self) -> Result<(), Error> {
        Ok(())
    }
    fn newtype_variant_seed<T: DeserializeSeed<'de>>(self, seed: T) -> Result<T::Value, Error> {
        seed.deserialize(self.de)
    }
    fn tuple_variant<V: Visitor<'de>>(self, len: usize, visitor: V) -> Result<V::Value, Error> {
        visitor.visit_seq(Fixed { de: self.de, left: len })
    }
    fn struct_variant<V: Visitor<'de>>(self, fields: &'static [&'static str], visitor: V) -> Result<V::Value, Error> {
        visitor.visit_seq(Fixed { de: self.de, left: fields.len() })
    }
}

//! NetWire driver — *the harness is the wire* (DESIGN.md §2.1).
//!
//! A `turmoil_net::Net` with N hosts is installed on the current thread and
//! driven only through the public primitives `EnterGuard::{egress_all,
//! deliver}` plus `turmoil_net::netstat`.  There is no tokio runtime and no
//! clock: turmoil-net's retransmission is clocked by *egress passes*
//! (`Kernel::egress` runs `check_retx` once per call), so one driver **round**
//! = one `egress_all` = one retransmit tick for every host.
//!
//! # Round loop (`run`)
//!
//! ```text
//! round r:
//!   1. fire due `Sleep` timers; poll every *woken* task until none is woken
//!      (each poll pins `turmoil_net::set_current(host)`, like
//!      `fixture::HostScoped`; a task is only re-polled after its waker was
//!      invoked, so a lost wake-up shows up as a stall)
//!   2. `Wire::after_tasks`            (monitors may look at netstat)
//!   3. `egress_all`                   (one retransmit tick on every host)
//!      every packet gets an id, is classified (`Kind`) from its public
//!      fields by the `Tracker`, recorded in the packet log, shown to
//!      `Wire::on_emit`, and receives a fate from `Wire::fate`:
//!      `Now` / `Hold(k)` (delivered in round r+k) / `Drop`
//!   4. packets due in this round (held earlier + `Now`) are ordered by
//!      `Wire::order` and handed to `EnterGuard::deliver` one by one
//!      (`Wire::on_deliver` is called just before each, after the tracker has
//!      accounted for it)
//!   5. `Wire::end_round` with netstat snapshots of every host
//! ```
//!
//! The run ends when every task has finished and the wire has been idle for
//! `settle` rounds, when nothing at all can happen any more (no runnable task,
//! no timer, nothing in flight, and no emission for `quiet_rounds` rounds —
//! the caller passes `retx_threshold * (retx_max + 2) + 2`, after which every
//! retransmit counter has expired), or at `max_rounds`.
//!
//! # Host programs are data
//!
//! A `Script` is a task pinned to a host: a vector of `Op`s interpreted by
//! `interpret`.  Tasks of one host share numbered slots (listeners,
//! connections, UDP sockets), so a connection can be written by one task and
//! read by another (both directions at once).  Every observation is appended
//! to the `Obs` log with the round number.  A failing op logs the error and
//! aborts its task.  Payload bytes are a pure function `pat(key, offset)`, the
//! reader verifies them against the key named in its `Read` op and logs the
//! first mismatching offset.
//!
//! The same interpreter runs inside `fixture::ClientServer` / `fixture::lo`
//! (`host_future` joins all tasks of a host into one future; `Sleep` then uses
//! tokio's paused clock, one round = one fixture tick = 1 ms).
//!
//! # What later properties can reuse
//!
//! * `Cfg` (serde KernelConfig), `Script`/`Op`, `run`, `RunLog{obs, pkts, end,
//!   rounds}`;
//! * `Wire` trait: fate callback, delivery order, emit/deliver/round hooks;
//!   `TableWire` is a ready-made table-driven implementation (fates by packet
//!   id, by n-th packet of a kind, black-hole of a host from a packet id on,
//!   drop budget, priorities for the delivery order);
//! * `Tracker`: per-connection, per-endpoint wire state derived from public
//!   packet fields only (ISN, highest sequence emitted, highest ACK emitted,
//!   highest valid ACK *delivered*, last window *delivered*), used for packet
//!   kinds and by the C16 window monitor; also usable from inside a `Rule`;
//! * `NetSnap`: netstat rows per host after each round.

use serde::{Deserialize, Serialize};
use std::cell::{Cell, RefCell};
use std::collections::BTreeMap;
use std::future::Future;
use std::net::{IpAddr, Ipv4Addr, Ipv6Addr, SocketAddr};
use std::pin::Pin;
use std::rc::Rc;
use std::sync::atomic::{AtomicBool, Ordering};
use std::sync::Arc;
use std::task::{Context, Poll, Wake, Waker};
use tokio::io::{AsyncRead, AsyncWrite, ReadBuf};
use turmoil_net::shim::tokio::net::{TcpListener, TcpStream, UdpSocket};
use turmoil_net::{HostId, KernelConfig, Net, NetstatState, Packet, Proto, Transport};

// ---------------------------------------------------------------- config

#[derive(Clone, Debug, Serialize, Deserialize, PartialEq)]
pub struct Cfg {
    pub mtu: u32,
    pub loopback_mtu: u32,
    pub send_cap: usize,
    pub recv_cap: usize,
    pub retx_threshold: u32,
    pub retx_max: u32,
}

impl Default for Cfg {
    fn default() -> Self {
        Cfg { mtu: 1500, loopback_mtu: 65536, send_cap: 65536, recv_cap: 65536, retx_threshold: 3, retx_max: 5 }
    }
}

impl Cfg {
    pub fn kernel(&self) -> KernelConfig {
        KernelConfig::default()
            .mtu(self.mtu)
            .loopback_mtu(self.loopback_mtu)
            .send_buf_cap(self.send_cap)
            .recv_buf_cap(self.recv_cap)
            .retx_threshold(self.retx_threshold)
            .retx_max(self.retx_max)
    }
    /// TCP payload room of a segment leaving through the external interface.
    pub fn mss(&self, v6: bool) -> usize {
        (self.mtu as usize).saturating_sub(if v6 { 40 } else { 20 }).saturating_sub(20)
    }
    pub fn lo_mss(&self, v6: bool) -> usize {
        (self.loopback_mtu as usize).saturating_sub(if v6 { 40 } else { 20 }).saturating_sub(20)
    }
    /// UDP payload limit towards an external (`lo == false`) or loopback peer.
    pub fn udp_limit(&self, v6: bool, lo: bool) -> usize {
        let m = if lo { self.loopback_mtu } else { self.mtu } as usize;
        m.saturating_sub(if v6 { 40 } else { 20 }).saturating_sub(8)
    }
    /// Rounds after which every retransmit counter has run out.
    pub fn quiet_rounds(&self) -> u32 {
        self.retx_threshold.max(1) * (self.retx_max + 2) + 2
    }
}

pub fn host_ip(h: usize, v6: bool) -> IpAddr {
    if v6 {
        IpAddr::V6(Ipv6Addr::new(0xfd00, 0, 0, 0, 0, 0, 0, (h + 1) as u16))
    } else {
        IpAddr::V4(Ipv4Addr::new(10, 0, 0, (h + 1) as u8))
    }
}
pub fn lo_ip(v6: bool) -> IpAddr {
    if v6 {
        IpAddr::V6(Ipv6Addr::LOCALHOST)
    } else {
        IpAddr::V4(Ipv4Addr::LOCALHOST)
    }
}
/// Host index owning `ip` (None for loopback / unknown).
pub fn ip_host(ip: IpAddr) -> Option<usize> {
    match ip {
        IpAddr::V4(a) if a.octets()[0] == 10 => Some(a.octets()[3] as usize - 1),
        IpAddr::V6(a) if a.segments()[0] == 0xfd00 => Some(a.segments()[7] as usize - 1),
        _ => None,
    }
}

/// Payload byte `i` of the stream/datagram identified by `key`.
pub fn pat(key: u8, i: u64) -> u8 {
    let x = (i as u32).wrapping_mul(2654435761).wrapping_add((key as u32).wrapping_mul(40503));
    ((x >> 15) ^ (x >> 7)) as u8 ^ key
}

// ---------------------------------------------------------------- scripts

#[derive(Clone, Debug, Serialize, Deserialize, PartialEq)]
pub enum Until {
    Eof,
    Bytes(u32),
}

#[derive(Clone, Debug, Serialize, Deserialize, PartialEq)]
pub enum Op {
    /// bind a listener on the wildcard address of the family
    Listen { lst: u8, port: u16, v6: bool },
    Accept { lst: u8, conn: u8 },
    /// `to`: Some(host index) or None = own loopback
    Connect { conn: u8, to: Option<usize>, port: u16, v6: bool },
    /// park until another task of this host filled the slot
    WaitConn { conn: u8 },
    /// write all `len` pattern bytes (AsyncWrite::poll_write loop; each partial write is logged)
    Write { conn: u8, len: u32, key: u8 },
    /// one `try_write` of `len` bytes; never aborts the task on WouldBlock
    TryWrite { conn: u8, len: u32, key: u8 },
    /// AsyncRead::poll_read repeatedly with buffers of the cycled sizes
    Read { conn: u8, bufs: Vec<u16>, until: Until, key: u8 },
    TryRead { conn: u8, buf: u16, key: u8 },
    Shutdown { conn: u8 },
    Drop { conn: u8 },
    DropListener { lst: u8 },
    Sleep { rounds: u32 },
    /// park until task `task` (index into the script vector) has ended
    WaitTask { task: u8 },
    UdpBind { sock: u8, port: u16, v6: bool, lo: bool },
    UdpSendTo { sock: u8, to: Option<usize>, port: u16, v6: bool, len: u32, key: u8 },
    UdpRecv { sock: u8, buf: u32, key: u8 },
}

#[derive(Clone, Debug, Serialize, Deserialize, PartialEq)]
pub struct Script {
    pub host: usize,
    pub ops: Vec<Op>,
}

/// io::Error reduced to what an oracle may compare.
#[derive(Clone, Debug, PartialEq, Eq, Serialize)]
pub struct Errk {
    pub kind: String,
    pub raw: Option<i32>,
}
impl Errk {
    pub fn of(e: &std::io::Error) -> Self {
        Errk { kind: format!("{:?}", e.kind()), raw: e.raw_os_error() }
    }
    pub fn is(&self, k: &str) -> bool {
        self.kind == k
    }
}

#[derive(Clone, Debug, PartialEq, Serialize)]
pub enum Ev {
    Listening,
    Connected { local: SocketAddr, peer: SocketAddr },
    Accepted { local: SocketAddr, peer: SocketAddr },
    /// partial write accepted `n` bytes at stream offset `off`
    Wrote { conn: u8, n: usize, off: u64 },
    /// `n` bytes read at stream offset `off`; `bad` = first offset whose byte differs from `pat`
    ReadN { conn: u8, n: usize, off: u64, buf: usize, bad: Option<u64> },
    Eof { conn: u8, off: u64 },
    /// `send_q` = Send-Q of this connection in netstat immediately before the call
    TryWrote { conn: u8, len: usize, off: u64, send_q: Option<usize>, res: Result<usize, Errk> },
    TryReadRes { conn: u8, off: u64, res: Result<usize, Errk>, bad: Option<u64> },
    ShutdownOk { conn: u8 },
    Dropped { conn: u8 },
    ListenerDropped,
    UdpBound { local: SocketAddr },
    UdpSent { len: usize, dst: SocketAddr, res: Result<usize, Errk> },
    UdpRecvd { n: usize, from: SocketAddr, bad: Option<u64> },
    /// the op failed; the task stops here
    Failed { what: &'static str, conn: u8, off: u64, err: Errk },
    TaskDone,
}

#[derive(Clone, Debug, Serialize)]
pub struct Obs {
    pub round: u32,
    pub host: usize,
    pub task: usize,
    pub op: usize,
    pub ev: Ev,
}

// ---------------------------------------------------------------- shared interpreter state

enum Clock {
    /// NetWire executor: (current round, timers)
    Rounds(Rc<Cell<u32>>, Rc<RefCell<Vec<(u32, Waker)>>>),
    /// inside a tokio fixture: 1 round = 1 ms of paused tokio time (origin = first use)
    Tokio(Cell<Option<tokio::time::Instant>>),
}

#[derive(Default)]
struct ConnSlot {
    /// AsyncRead/AsyncWrite need `&mut`, try_read/try_write `&self`: both go
    /// through short borrows of this cell (polls never nest)
    rw: Option<Rc<RefCell<TcpStream>>>,
    woff: u64,
    roff: u64,
}

#[derive(Default)]
struct HostState {
    listeners: BTreeMap<u8, Rc<TcpListener>>,
    conns: BTreeMap<u8, ConnSlot>,
    udps: BTreeMap<u8, Rc<UdpSocket>>,
    waiters: Vec<Waker>,
}

/// State shared by all tasks of one run.
pub struct Shared {
    clock: Clock,
    hosts: Vec<RefCell<HostState>>,
    obs: RefCell<Vec<Obs>>,
    done: RefCell<Vec<bool>>,
    /// index of the op each task is executing (or parked in)
    cur: RefCell<Vec<usize>>,
    done_waiters: RefCell<Vec<Waker>>,
}

impl Shared {
    fn new(clock: Clock, nhosts: usize, ntasks: usize) -> Rc<Shared> {
        Rc::new(Shared {
            clock,
            hosts: (0..nhosts).map(|_| RefCell::new(HostState::default())).collect(),
            obs: RefCell::new(Vec::new()),
            done: RefCell::new(vec![false; ntasks]),
            cur: RefCell::new(vec![0; ntasks]),
            done_waiters: RefCell::new(Vec::new()),
        })
    }
    fn round(&self) -> u32 {
        match &self.clock {
            Clock::Rounds(r, _) => r.get(),
            Clock::Tokio(t0) => {
                let o = t0.get().unwrap_or_else(|| {
                    let n = tokio::time::Instant::now();
                    t0.set(Some(n));
                    n
                });
                o.elapsed().as_millis() as u32
            }
        }
    }
    fn log(&self, host: usize, task: usize, op: usize, ev: Ev) {
        self.obs.borrow_mut().push(Obs { round: self.round(), host, task, op, ev });
    }
    fn wake_host(&self, host: usize) {
        let ws: Vec<Waker> = self.hosts[host].borrow_mut().waiters.drain(..).collect();
        for w in ws {
            w.wake();
        }
    }
    fn finish_task(&self, task: usize) {
        self.done.borrow_mut()[task] = true;
        let ws: Vec<Waker> = self.done_waiters.borrow_mut().drain(..).collect();
        for w in ws {
            w.wake();
        }
    }
    /// op index a task is currently executing / parked in
    pub fn current_op(&self, t: usize) -> usize {
        self.cur.borrow().get(t).copied().unwrap_or(0)
    }
    pub fn task_done(&self, t: usize) -> bool {
        self.done.borrow().get(t).copied().unwrap_or(true)
    }
    pub fn all_done(&self) -> bool {
        self.done.borrow().iter().all(|d| *d)
    }
    pub fn take_obs(&self) -> Vec<Obs> {
        std::mem::take(&mut *self.obs.borrow_mut())
    }
    /// Drop every socket of `host`; the caller must have pinned that host.
    fn clear_host(&self, host: usize) {
        let st = std::mem::take(&mut *self.hosts[host].borrow_mut());
        drop(st);
    }
}

struct SleepFut {
    due: u32,
    round: Rc<Cell<u32>>,
    timers: Rc<RefCell<Vec<(u32, Waker)>>>,
}
impl Future for SleepFut {
    type Output = ();
    fn poll(self: Pin<&mut Self>, cx: &mut Context<'_>) -> Poll<()> {
        if self.round.get() >= self.due {
            Poll::Ready(())
        } else {
            self.timers.borrow_mut().push((self.due, cx.waker().clone()));
            Poll::Pending
        }
    }
}

async fn sleep_rounds(sh: &Shared, k: u32) {
    match &sh.clock {
        Clock::Rounds(r, t) => SleepFut { due: r.get() + k, round: r.clone(), timers: t.clone() }.await,
        Clock::Tokio(_) => tokio::time::sleep(std::time::Duration::from_millis(k as u64)).await,
    }
}

fn conn_send_q(s: &StreamHandle, host: usize) -> Option<usize> {
    let local = s.local_addr().ok()?;
    let peer = s.peer_addr().ok()?;
    // netstat wants a routable address of the host
    let ns = turmoil_net::netstat(host_ip(host, false));
    ns.entries
        .iter()
        .find(|e| e.proto == Proto::Tcp && e.local == local && e.peer == Some(peer))
        .map(|e| e.send_q)
}

fn check_pat(key: u8, off: u64, data: &[u8]) -> Option<u64> {
    data.iter().enumerate().find(|(i, b)| **b != pat(key, off + *i as u64)).map(|(i, _)| off + i as u64)
}

fn fill_pat(key: u8, off: u64, n: usize) -> Vec<u8> {
    (0..n).map(|i| pat(key, off + i as u64)).collect()
}

/// Interpret one script. Pure function of the ops and of what the stack does.
pub async fn interpret(sh: Rc<Shared>, task: usize, sc: Script) {
    let h = sc.host;
    macro_rules! fail {
        ($op:expr, $what:expr, $conn:expr, $off:expr, $e:expr) => {{
            sh.log(h, task, $op, Ev::Failed { what: $what, conn: $conn, off: $off, err: Errk::of(&$e) });
            sh.finish_task(task);
            return;
        }};
    }
    for (i, op) in sc.ops.iter().enumerate() {
        sh.cur.borrow_mut()[task] = i;
        match op {
            Op::Listen { lst, port, v6 } => {
                let any: IpAddr = if *v6 { Ipv6Addr::UNSPECIFIED.into() } else { Ipv4Addr::UNSPECIFIED.into() };
                match TcpListener::bind(SocketAddr::new(any, *port)).await {
                    Ok(l) => {
                        sh.hosts[h].borrow_mut().listeners.insert(*lst, Rc::new(l));
                        sh.log(h, task, i, Ev::Listening);
                        sh.wake_host(h);
                    }
                    Err(e) => fail!(i, "listen", *lst, 0, e),
                }
            }
            Op::Accept { lst, conn } => {
                let l = sh.hosts[h].borrow().listeners.get(lst).cloned();
                let r = match l {
                    Some(l) => l.accept().await,
                    None => Err(std::io::Error::other("no such listener slot")),
                };
                match r {
                    Ok((s, peer)) => {
                        let local = s.local_addr().unwrap_or(SocketAddr::new(lo_ip(false), 0));
                        put_conn(&sh, h, *conn, s);
                        sh.log(h, task, i, Ev::Accepted { local, peer });
                    }
                    Err(e) => fail!(i, "accept", *conn, 0, e),
                }
            }
            Op::Connect { conn, to, port, v6 } => {
                let ip = match to {
                    Some(t) => host_ip(*t, *v6),
                    None => lo_ip(*v6),
                };
                match TcpStream::connect(SocketAddr::new(ip, *port)).await {
                    Ok(s) => {
                        let local = s.local_addr().unwrap_or(SocketAddr::new(lo_ip(false), 0));
                        let peer = s.peer_addr().unwrap_or(SocketAddr::new(lo_ip(false), 0));
                        put_conn(&sh, h, *conn, s);
                        sh.log(h, task, i, Ev::Connected { local, peer });
                    }
                    Err(e) => fail!(i, "connect", *conn, 0, e),
                }
            }
            Op::WaitConn { conn } => {
                std::future::poll_fn(|cx| {
                    let mut st = sh.hosts[h].borrow_mut();
                    if st.conns.get(conn).map(|c| c.rw.is_some()).unwrap_or(false) {
                        Poll::Ready(())
                    } else {
                        st.waiters.push(cx.waker().clone());
                        Poll::Pending
                    }
                })
                .await;
            }
            Op::Write { conn, len, key } => {
                let Some(rw) = get_rw(&sh, h, *conn) else {
                    fail!(i, "write:no-conn", *conn, 0, std::io::Error::other("slot empty"))
                };
                let mut left = *len as usize;
                while left > 0 {
                    let off = sh.hosts[h].borrow().conns[conn].woff;
                    let data = fill_pat(*key, off, left);
                    let r = std::future::poll_fn(|cx| Pin::new(&mut *rw.borrow_mut()).poll_write(cx, &data)).await;
                    match r {
                        Ok(0) => fail!(i, "write", *conn, off, std::io::Error::new(std::io::ErrorKind::WriteZero, "write returned 0")),
                        Ok(n) => {
                            sh.hosts[h].borrow_mut().conns.get_mut(conn).unwrap().woff += n as u64;
                            sh.log(h, task, i, Ev::Wrote { conn: *conn, n, off });
                            left -= n.min(left);
                        }
                        Err(e) => fail!(i, "write", *conn, off, e),
                    }
                }
            }
            Op::TryWrite { conn, len, key } => {
                let Some(s) = get_stream(&sh, h, *conn) else {
                    fail!(i, "try_write:no-conn", *conn, 0, std::io::Error::other("slot empty"))
                };
                let off = sh.hosts[h].borrow().conns[conn].woff;
                let data = fill_pat(*key, off, *len as usize);
                let send_q = conn_send_q(&s, h);
                let res = s.try_write(&data);
                if let Ok(n) = &res {
                    sh.hosts[h].borrow_mut().conns.get_mut(conn).unwrap().woff += *n as u64;
                }
                sh.log(
                    h,
                    task,
                    i,
                    Ev::TryWrote { conn: *conn, len: *len as usize, off, send_q, res: res.as_ref().map(|n| *n).map_err(Errk::of) },
                );
            }
            Op::Read { conn, bufs, until, key } => {
                let Some(rw) = get_rw(&sh, h, *conn) else {
                    fail!(i, "read:no-conn", *conn, 0, std::io::Error::other("slot empty"))
                };
                let mut got = 0usize;
                let mut j = 0usize;
                loop {
                    if let Until::Bytes(n) = until {
                        if got >= *n as usize {
                            break;
                        }
                    }
                    let mut bsz = if bufs.is_empty() { 64 } else { bufs[j % bufs.len()].max(1) as usize };
                    if let Until::Bytes(n) = until {
                        bsz = bsz.min(*n as usize - got);
                    }
                    j += 1;
                    let mut buf = vec![0u8; bsz];
                    let off = sh.hosts[h].borrow().conns[conn].roff;
                    let r = std::future::poll_fn(|cx| {
                        let mut rb = ReadBuf::new(&mut buf);
                        match Pin::new(&mut *rw.borrow_mut()).poll_read(cx, &mut rb) {
                            Poll::Ready(Ok(())) => Poll::Ready(Ok(rb.filled().len())),
                            Poll::Ready(Err(e)) => Poll::Ready(Err(e)),
                            Poll::Pending => Poll::Pending,
                        }
                    })
                    .await;
                    match r {
                        Ok(0) => {
                            sh.log(h, task, i, Ev::Eof { conn: *conn, off });
                            break;
                        }
                        Ok(n) => {
                            let bad = check_pat(*key, off, &buf[..n]);
                            sh.hosts[h].borrow_mut().conns.get_mut(conn).unwrap().roff += n as u64;
                            sh.log(h, task, i, Ev::ReadN { conn: *conn, n, off, buf: bsz, bad });
                            got += n;
                        }
                        Err(e) => fail!(i, "read", *conn, off, e),
                    }
                }
            }
            Op::TryRead { conn, buf, key } => {
                let Some(s) = get_stream(&sh, h, *conn) else {
                    fail!(i, "try_read:no-conn", *conn, 0, std::io::Error::other("slot empty"))
                };
                let off = sh.hosts[h].borrow().conns[conn].roff;
                let mut b = vec![0u8; (*buf).max(1) as usize];
                let res = s.try_read(&mut b);
                let mut bad = None;
                if let Ok(n) = &res {
                    bad = check_pat(*key, off, &b[..*n]);
                    sh.hosts[h].borrow_mut().conns.get_mut(conn).unwrap().roff += *n as u64;
                }
                sh.log(h, task, i, Ev::TryReadRes { conn: *conn, off, res: res.as_ref().map(|n| *n).map_err(Errk::of), bad });
            }
            Op::Shutdown { conn } => {
                let Some(rw) = get_rw(&sh, h, *conn) else {
                    fail!(i, "shutdown:no-conn", *conn, 0, std::io::Error::other("slot empty"))
                };
                let r = std::future::poll_fn(|cx| Pin::new(&mut *rw.borrow_mut()).poll_shutdown(cx)).await;
                match r {
                    Ok(()) => sh.log(h, task, i, Ev::ShutdownOk { conn: *conn }),
                    Err(e) => {
                        let off = sh.hosts[h].borrow().conns[conn].woff;
                        fail!(i, "shutdown", *conn, off, e)
                    }
                }
            }
            Op::Drop { conn } => {
                let slot = sh.hosts[h].borrow_mut().conns.remove(conn);
                drop(slot);
                sh.log(h, task, i, Ev::Dropped { conn: *conn });
            }
            Op::DropListener { lst } => {
                let l = sh.hosts[h].borrow_mut().listeners.remove(lst);
                drop(l);
                sh.log(h, task, i, Ev::ListenerDropped);
            }
            Op::Sleep { rounds } => sleep_rounds(&sh, *rounds).await,
            Op::WaitTask { task: t } => {
                std::future::poll_fn(|cx| {
                    if sh.done.borrow().get(*t as usize).copied().unwrap_or(true) {
                        Poll::Ready(())
                    } else {
                        sh.done_waiters.borrow_mut().push(cx.waker().clone());
                        Poll::Pending
                    }
                })
                .await;
            }
            Op::UdpBind { sock, port, v6, lo } => {
                let ip = if *lo { lo_ip(*v6) } else { host_ip(h, *v6) };
                match UdpSocket::bind(SocketAddr::new(ip, *port)).await {
                    Ok(s) => {
                        let local = s.local_addr().unwrap_or(SocketAddr::new(ip, *port));
                        sh.hosts[h].borrow_mut().udps.insert(*sock, Rc::new(s));
                        sh.log(h, task, i, Ev::UdpBound { local });
                    }
                    Err(e) => fail!(i, "udp_bind", *sock, 0, e),
                }
            }
            Op::UdpSendTo { sock, to, port, v6, len, key } => {
                let ip = match to {
                    Some(t) => host_ip(*t, *v6),
                    None => lo_ip(*v6),
                };
                let dst = SocketAddr::new(ip, *port);
                let data = fill_pat(*key, 0, *len as usize);
                let u = sh.hosts[h].borrow().udps.get(sock).cloned();
                let res = match u {
                    Some(s) => s.send_to(&data, dst).await,
                    None => Err(std::io::Error::other("slot empty")),
                };
                sh.log(h, task, i, Ev::UdpSent { len: *len as usize, dst, res: res.map_err(|e| Errk::of(&e)) });
            }
            Op::UdpRecv { sock, buf, key } => {
                let mut b = vec![0u8; *buf as usize];
                let u = sh.hosts[h].borrow().udps.get(sock).cloned();
                let r = match u {
                    Some(s) => s.recv_from(&mut b).await,
                    None => Err(std::io::Error::other("slot empty")),
                };
                match r {
                    Ok((n, from)) => {
                        let bad = check_pat(*key, 0, &b[..n]);
                        sh.log(h, task, i, Ev::UdpRecvd { n, from, bad });
                    }
                    Err(e) => fail!(i, "udp_recv", *sock, 0, e),
                }
            }
        }
    }
    sh.log(h, task, sc.ops.len(), Ev::TaskDone);
    sh.finish_task(task);
}

fn put_conn(sh: &Shared, h: usize, conn: u8, s: TcpStream) {
    // One TcpStream, two access paths: `Rc<RefCell<TcpStream>>` for the
    // AsyncRead/AsyncWrite (&mut) calls, and `try_read`/`try_write` (&self)
    // through a short borrow of the same cell.
    let rw = Rc::new(RefCell::new(s));
    let mut st = sh.hosts[h].borrow_mut();
    let slot = st.conns.entry(conn).or_default();
    slot.rw = Some(rw);
    drop(st);
    sh.wake_host(h);
}
fn get_rw(sh: &Shared, h: usize, conn: u8) -> Option<Rc<RefCell<TcpStream>>> {
    sh.hosts[h].borrow().conns.get(&conn).and_then(|c| c.rw.clone())
}
fn get_stream(sh: &Shared, h: usize, conn: u8) -> Option<StreamHandle> {
    get_rw(sh, h, conn).map(StreamHandle)
}
pub struct StreamHandle(Rc<RefCell<TcpStream>>);
impl StreamHandle {
    fn try_write(&self, b: &[u8]) -> std::io::Result<usize> {
        self.0.borrow().try_write(b)
    }
    fn try_read(&self, b: &mut [u8]) -> std::io::Result<usize> {
        self.0.borrow().try_read(b)
    }
    fn local_addr(&self) -> std::io::Result<SocketAddr> {
        self.0.borrow().local_addr()
    }
    fn peer_addr(&self) -> std::io::Result<SocketAddr> {
        self.0.borrow().peer_addr()
    }
}

// ---------------------------------------------------------------- packets

#[derive(Clone, Copy, Debug, PartialEq, Eq, Hash, PartialOrd, Ord, Serialize, Deserialize)]
pub enum Kind {
    Syn,
    SynAck,
    HandshakeAck,
    Data,
    PureAck,
    WindowUpdate,
    Fin,
    Rst,
    Udp,
}
pub const TCP_KINDS: [Kind; 8] =
    [Kind::Syn, Kind::SynAck, Kind::HandshakeAck, Kind::Data, Kind::PureAck, Kind::WindowUpdate, Kind::Fin, Kind::Rst];

impl Kind {
    pub fn name(self) -> &'static str {
        match self {
            Kind::Syn => "syn",
            Kind::SynAck => "syn-ack",
            Kind::HandshakeAck => "handshake-ack",
            Kind::Data => "data",
            Kind::PureAck => "pure-ack",
            Kind::WindowUpdate => "window-update",
            Kind::Fin => "fin",
            Kind::Rst => "rst",
            Kind::Udp => "udp",
        }
    }
    /// occupies sequence space, i.e. is retransmitted by its sender
    pub fn reliable(self) -> bool {
        matches!(self, Kind::Syn | Kind::SynAck | Kind::Data | Kind::Fin)
    }
}

#[derive(Clone, Copy, Debug, PartialEq, Eq, Serialize, Deserialize)]
pub enum Fate {
    Now,
    Hold(u32),
    Drop,
}

#[derive(Clone, Copy, Debug, Serialize)]
pub struct TcpInfo {
    pub seq: u32,
    pub ack: u32,
    pub window: u16,
    pub len: usize,
    pub syn: bool,
    pub ackf: bool,
    pub fin: bool,
    pub rst: bool,
}

#[derive(Clone, Debug, Serialize)]
pub struct PktRec {
    pub id: usize,
    pub round: u32,
    pub src: SocketAddr,
    pub dst: SocketAddr,
    pub src_host: Option<usize>,
    pub dst_host: Option<usize>,
    pub kind: Kind,
    pub tcp: Option<TcpInfo>,
    pub len: usize,
    pub fate: Fate,
    pub delivered: Option<u32>,
    /// number of packets emitted later but delivered earlier
    pub overtaken_by: u32,
}

/// Wire-derived state of one endpoint of a TCP connection.
#[derive(Clone, Debug, Default, Serialize)]
pub struct EndTrack {
    /// sequence number of this end's SYN / SYN-ACK
    pub isn: Option<u32>,
    /// highest seq+len(+syn/fin) this end has emitted
    pub max_end: u32,
    /// highest seq+len of *payload* emitted
    pub max_data_end: u32,
    /// highest ack field this end has emitted (with the ACK flag)
    pub max_ack_emitted: Option<u32>,
    pub last_win_emitted: Option<u16>,
    /// highest valid cumulative ACK delivered to this end
    pub una: Option<u32>,
    /// window field of the last non-RST segment of the peer delivered to this end
    pub win: Option<u16>,
    /// smallest window this end has advertised after the handshake
    pub min_win_adv: Option<u16>,
    pub emitted_handshake_ack: bool,
    /// emitted an ACK-bearing segment other than a SYN-ACK (so `max_ack_emitted` is its rcv_nxt)
    pub emitted_any_ack: bool,
    pub fin_emitted: bool,
    pub rst_delivered: bool,
    /// start sequence number -> how many segments occupying sequence space
    /// (SYN, SYN-ACK, data, FIN) were emitted starting there
    pub copies: BTreeMap<u32, u32>,
    /// this end emitted a data/FIN segment starting below a cumulative ACK
    /// that had already been delivered to it (a delivered ACK was ignored)
    pub sent_below_una: bool,
    /// a RST was delivered to this end whose sequence number is not the next
    /// one this end expects (= the highest ACK it has emitted)
    pub stale_rst_delivered: bool,
    /// a segment occupying sequence space was delivered to this end although
    /// this end had already acknowledged all of it (a duplicate)
    pub got_duplicate: bool,
}

#[derive(Clone, Debug, Default, Serialize)]
pub struct ConnTrack {
    /// ends[0] = the active opener (sender of the SYN)
    pub addr: [Option<SocketAddr>; 2],
    pub ends: [EndTrack; 2],
}

fn seq_lt(a: u32, b: u32) -> bool {
    (a.wrapping_sub(b) as i32) < 0
}
fn seq_le(a: u32, b: u32) -> bool {
    (a.wrapping_sub(b) as i32) <= 0
}
pub fn seq_max(a: u32, b: u32) -> u32 {
    if seq_lt(a, b) {
        b
    } else {
        a
    }
}

/// Classifies packets and keeps per-connection wire state from the public
/// packet fields only.  Usable by the driver and from inside a `Rule`.
#[derive(Default, Debug)]
pub struct Tracker {
    pub conns: Vec<ConnTrack>,
    index: BTreeMap<(SocketAddr, SocketAddr), (usize, usize)>,
}

impl Tracker {
    /// (connection index, index of the *source* end) for a segment.
    pub fn lookup(&self, src: SocketAddr, dst: SocketAddr) -> Option<(usize, usize)> {
        self.index.get(&(src, dst)).copied()
    }

    /// Account for an emitted packet and name its kind.
    pub fn on_emit(&mut self, p: &Packet) -> (Kind, SocketAddr, SocketAddr, Option<TcpInfo>, usize) {
        match &p.payload {
            Transport::Udp(d) => (
                Kind::Udp,
                SocketAddr::new(p.src, d.src_port),
                SocketAddr::new(p.dst, d.dst_port),
                None,
                d.payload.len(),
            ),
            Transport::Tcp(s) => {
                let src = SocketAddr::new(p.src, s.src_port);
                let dst = SocketAddr::new(p.dst, s.dst_port);
                let info = TcpInfo {
                    seq: s.seq,
                    ack: s.ack,
                    window: s.window,
                    len: s.payload.len(),
                    syn: s.flags.syn,
                    ackf: s.flags.ack,
                    fin: s.flags.fin,
                    rst: s.flags.rst,
                };
                let kind = self.classify_emit(src, dst, &info);
                (kind, src, dst, Some(info), s.payload.len())
            }
        }
    }

    fn classify_emit(&mut self, src: SocketAddr, dst: SocketAddr, t: &TcpInfo) -> Kind {
        if t.rst {
            return Kind::Rst;
        }
        if t.syn && !t.ackf {
            // (re)transmitted SYN: a fresh ISN on a known 4-tuple starts a new incarnation
            let fresh = match self.lookup(src, dst) {
                Some((c, e)) => self.conns[c].ends[e].isn != Some(t.seq) || e != 0,
                None => true,
            };
            if fresh {
                let c = self.conns.len();
                let mut ct = ConnTrack::default();
                ct.addr = [Some(src), Some(dst)];
                ct.ends[0].isn = Some(t.seq);
                ct.ends[0].max_end = t.seq.wrapping_add(1);
                ct.ends[0].max_data_end = t.seq.wrapping_add(1);
                self.conns.push(ct);
                self.index.insert((src, dst), (c, 0));
                self.index.insert((dst, src), (c, 1));
            }
            if let Some((c, e)) = self.lookup(src, dst) {
                *self.conns[c].ends[e].copies.entry(t.seq).or_default() += 1;
            }
            return Kind::Syn;
        }
        let Some((c, e)) = self.lookup(src, dst) else {
            // segment of a connection whose SYN never crossed the wire (cannot happen between hosts)
            return if t.len > 0 {
                Kind::Data
            } else if t.fin {
                Kind::Fin
            } else {
                Kind::PureAck
            };
        };
        let end = &mut self.conns[c].ends[e];
        if t.syn && t.ackf {
            if end.isn.is_none() {
                end.isn = Some(t.seq);
                end.max_end = t.seq.wrapping_add(1);
                end.max_data_end = t.seq.wrapping_add(1);
            }
            end.max_ack_emitted = Some(t.ack);
            *end.copies.entry(t.seq).or_default() += 1;
            return Kind::SynAck;
        }
        let seg_end = t.seq.wrapping_add(t.len as u32).wrapping_add(t.fin as u32);
        if end.isn.is_some() {
            end.max_end = seq_max(end.max_end, seg_end);
            if t.len > 0 {
                end.max_data_end = seq_max(end.max_data_end, t.seq.wrapping_add(t.len as u32));
            }
        }
        if t.len > 0 || t.fin {
            *end.copies.entry(t.seq).or_default() += 1;
            if let Some(u) = end.una {
                if seq_lt(t.seq, u) {
                    end.sent_below_una = true;
                }
            }
        }
        let prev_ack = end.max_ack_emitted;
        let prev_win = end.last_win_emitted;
        if t.ackf {
            end.max_ack_emitted = Some(match prev_ack {
                Some(a) => seq_max(a, t.ack),
                None => t.ack,
            });
            end.last_win_emitted = Some(t.window);
            end.emitted_any_ack = true;
            end.min_win_adv = Some(end.min_win_adv.map_or(t.window, |w| w.min(t.window)));
        }
        if t.fin {
            end.fin_emitted = true;
            return Kind::Fin;
        }
        if t.len > 0 {
            return Kind::Data;
        }
        // pure ACK flavours
        if e == 0 && !end.emitted_handshake_ack && prev_win.is_none() {
            end.emitted_handshake_ack = true;
            return Kind::HandshakeAck;
        }
        if prev_ack == Some(t.ack) && prev_win.is_some() && prev_win != Some(t.window) {
            return Kind::WindowUpdate;
        }
        Kind::PureAck
    }

    /// Account for a packet that is about to be handed to its destination.
    pub fn on_deliver(&mut self, rec: &PktRec) {
        let Some(t) = &rec.tcp else { return };
        // state of the *destination* end
        let Some((c, e_src)) = self.lookup(rec.src, rec.dst) else { return };
        let dst_end = &mut self.conns[c].ends[1 - e_src];
        if t.rst {
            dst_end.rst_delivered = true;
            if let Some(a) = dst_end.max_ack_emitted {
                if a != t.seq && dst_end.emitted_any_ack {
                    dst_end.stale_rst_delivered = true;
                }
            }
            return;
        }
        if dst_end.isn.is_none() && !(t.syn && !t.ackf) {
            // the destination has not sent its SYN-ACK yet: it cannot process this
            return;
        }
        if t.syn || t.fin || t.len > 0 {
            let seg_end = t.seq.wrapping_add(t.len as u32).wrapping_add((t.syn || t.fin) as u32);
            if let Some(a) = dst_end.max_ack_emitted {
                if seq_le(seg_end, a) {
                    dst_end.got_duplicate = true;
                }
            }
        }
        // the stack takes the window from ACK-bearing segments; a SYN only seeds it
        if t.ackf || dst_end.win.is_none() {
            dst_end.win = Some(t.window);
        }
        if t.ackf && dst_end.isn.is_some() {
            let base = dst_end.una.unwrap_or_else(|| dst_end.isn.unwrap());
            if seq_lt(base, t.ack) && seq_le(t.ack, dst_end.max_end) {
                dst_end.una = Some(t.ack);
            }
        }
    }
}

// ---------------------------------------------------------------- wire policy

#[derive(Clone, Debug, Serialize)]
pub struct SockRow {
    pub tcp: bool,
    pub recv_q: usize,
    pub send_q: usize,
    pub local: SocketAddr,
    pub peer: Option<SocketAddr>,
    pub state: Option<&'static str>,
}
pub type NetSnap = Vec<Vec<SockRow>>;

pub fn state_name(s: NetstatState) -> &'static str {
    match s {
        NetstatState::Listen => "LISTEN",
        NetstatState::SynSent => "SYN_SENT",
        NetstatState::SynReceived => "SYN_RCVD",
        NetstatState::Established => "ESTABLISHED",
        NetstatState::FinWait1 => "FIN_WAIT1",
        NetstatState::FinWait2 => "FIN_WAIT2",
        NetstatState::CloseWait => "CLOSE_WAIT",
        NetstatState::LastAck => "LAST_ACK",
        NetstatState::Closing => "CLOSING",
        NetstatState::Closed => "CLOSED",
    }
}

pub fn snapshot(nhosts: usize) -> NetSnap {
    (0..nhosts)
        .map(|h| {
            turmoil_net::netstat(host_ip(h, false))
                .entries
                .iter()
                .map(|e| SockRow {
                    tcp: e.proto == Proto::Tcp,
                    recv_q: e.recv_q,
                    send_q: e.send_q,
                    local: e.local,
                    peer: e.peer,
                    state: e.state.map(state_name),
                })
                .collect()
        })
        .collect()
}

/// The policy and the monitors of a run.  All methods have no-op defaults
/// except `fate`.
pub trait Wire {
    fn fate(&mut self, rec: &PktRec, tr: &Tracker) -> Fate;
    /// reorder the ids released in this round (default: emission order)
    fn order(&mut self, _round: u32, _ids: &mut Vec<usize>, _pkts: &[PktRec]) {}
    fn on_emit(&mut self, _rec: &PktRec, _p: &Packet, _tr: &Tracker) {}
    fn on_deliver(&mut self, _rec: &PktRec, _tr: &Tracker) {}
    fn wants_snapshots(&self) -> bool {
        false
    }
    fn after_tasks(&mut self, _round: u32, _snap: &NetSnap) {}
    fn end_round(&mut self, _round: u32, _snap: &NetSnap, _tr: &Tracker) {}
}

/// Table-driven fates (plain data, part of a scenario).
#[derive(Clone, Debug, Default, Serialize, Deserialize, PartialEq)]
pub struct FatePlan {
    /// fate of packet id i (emission number); ids beyond the table: `Now`
    pub by_id: Vec<Fate>,
    /// (kind, n, fate): fate of the n-th emitted packet of that kind (0-based); wins over `by_id`
    pub by_kind: Vec<(Kind, u32, Fate)>,
    /// delivery priority of packet id i inside one round (lower first, ties by id); default 0
    pub prio: Vec<u8>,
    /// at most this many packets are dropped by `by_id`/`by_kind`; further drops become `Now`
    pub max_drops: u32,
    /// every hold is clamped to this many rounds
    pub max_hold: u32,
    /// (host, from packet id): every packet leaving `host` with id >= from is dropped, outside the budget
    pub blackhole: Option<(usize, u32)>,
}

pub struct TableWire<'a> {
    pub plan: &'a FatePlan,
    pub drops: u32,
    pub kind_seen: BTreeMap<Kind, u32>,
}
impl<'a> TableWire<'a> {
    pub fn new(plan: &'a FatePlan) -> Self {
        TableWire { plan, drops: 0, kind_seen: BTreeMap::new() }
    }
    pub fn decide(&mut self, rec: &PktRec) -> Fate {
        let nth = {
            let c = self.kind_seen.entry(rec.kind).or_default();
            let v = *c;
            *c += 1;
            v
        };
        if let Some((h, from)) = self.plan.blackhole {
            if rec.src_host == Some(h) && rec.id as u32 >= from {
                return Fate::Drop;
            }
        }
        let mut f = self.plan.by_id.get(rec.id).copied().unwrap_or(Fate::Now);
        if let Some((_, _, kf)) = self.plan.by_kind.iter().find(|(k, n, _)| *k == rec.kind && *n == nth) {
            f = *kf;
        }
        match f {
            Fate::Drop => {
                if self.drops < self.plan.max_drops {
                    self.drops += 1;
                    Fate::Drop
                } else {
                    Fate::Now
                }
            }
            Fate::Hold(k) => {
                let k = k.min(self.plan.max_hold);
                if k == 0 {
                    Fate::Now
                } else {
                    Fate::Hold(k)
                }
            }
            Fate::Now => Fate::Now,
        }
    }
    /// Like `decide`, but a `Drop` from the tables becomes `Now` and does not
    /// use up the budget (black-holing still applies).
    pub fn decide_no_drop(&mut self, rec: &PktRec) -> Fate {
        let saved = self.drops;
        self.drops = self.plan.max_drops;
        let f = self.decide(rec);
        self.drops = saved;
        f
    }
    pub fn reorder(&self, ids: &mut [usize]) {
        ids.sort_by_key(|id| (self.plan.prio.get(*id).copied().unwrap_or(0), *id));
    }
}
impl Wire for TableWire<'_> {
    fn fate(&mut self, rec: &PktRec, _tr: &Tracker) -> Fate {
        self.decide(rec)
    }
    fn order(&mut self, _round: u32, ids: &mut Vec<usize>, _pkts: &[PktRec]) {
        self.reorder(ids);
    }
}

// ---------------------------------------------------------------- executor + round loop

struct Flag(AtomicBool);
impl Wake for Flag {
    fn wake(self: Arc<Self>) {
        self.0.store(true, Ordering::Relaxed);
    }
    fn wake_by_ref(self: &Arc<Self>) {
        self.0.store(true, Ordering::Relaxed);
    }
}

struct Task {
    host: usize,
    fut: Option<Pin<Box<dyn Future<Output = ()>>>>,
    flag: Arc<Flag>,
    waker: Waker,
}

/// Owns everything that touches the installed Net, and tears it down with the
/// right host pinned even when unwinding.
struct Machine {
    ids: Vec<HostId>,
    tasks: Vec<Task>,
    shared: Rc<Shared>,
    guard: Option<turmoil_net::EnterGuard>,
}
impl Drop for Machine {
    fn drop(&mut self) {
        for t in self.tasks.iter_mut() {
            if let Some(f) = t.fut.take() {
                turmoil_net::set_current(self.ids[t.host]);
                drop(f);
            }
        }
        for h in 0..self.ids.len() {
            turmoil_net::set_current(self.ids[h]);
            self.shared.clear_host(h);
        }
        self.guard.take();
    }
}

#[derive(Clone, Copy, Debug, PartialEq, Eq, Serialize)]
pub enum End {
    /// every task finished and the wire settled
    Finished,
    /// nothing can happen any more but some task is still parked
    Stalled,
    /// `max_rounds` reached while things were still moving
    Bound,
}

#[derive(Debug, Serialize)]
pub struct RunLog {
    pub obs: Vec<Obs>,
    pub pkts: Vec<PktRec>,
    pub end: End,
    pub rounds: u32,
    /// round in which the last task finished (if all did)
    pub all_done_round: Option<u32>,
    /// (task, index of the op it is parked in) for tasks still parked at the end
    pub blocked: Vec<(usize, usize)>,
    /// a forced poll of the parked tasks after a stall made progress => a wake-up was lost
    pub lost_wakeup: bool,
    #[serde(skip)]
    pub tracker: Tracker,
    pub final_snap: NetSnap,
}

pub struct Limits {
    pub max_rounds: u32,
    /// idle rounds after which nothing can happen any more
    pub quiet_rounds: u32,
    /// rounds to keep going after all tasks finished (lingering closes), bounded by quietness
    pub settle: u32,
}

pub fn run(cfg: &Cfg, nhosts: usize, scripts: &[Script], wire: &mut dyn Wire, lim: &Limits) -> RunLog {
    let mut net = Net::with_config(cfg.kernel());
    let mut ids = Vec::new();
    for h in 0..nhosts {
        ids.push(net.add_host([host_ip(h, false), host_ip(h, true)]));
    }
    let round = Rc::new(Cell::new(0u32));
    let timers: Rc<RefCell<Vec<(u32, Waker)>>> = Rc::new(RefCell::new(Vec::new()));
    let shared = Shared::new(Clock::Rounds(round.clone(), timers.clone()), nhosts, scripts.len());
    let guard = net.enter();
    let mut m = Machine { ids, tasks: Vec::new(), shared: shared.clone(), guard: Some(guard) };
    for (i, sc) in scripts.iter().enumerate() {
        let flag = Arc::new(Flag(AtomicBool::new(true)));
        let waker = Waker::from(flag.clone());
        m.tasks.push(Task { host: sc.host % nhosts, fut: Some(Box::pin(interpret(shared.clone(), i, sc.clone()))), flag, waker });
    }

    let mut tracker = Tracker::default();
    let mut pkts: Vec<PktRec> = Vec::new();
    let mut raw: Vec<Option<Packet>> = Vec::new();
    let mut held: Vec<(u32, usize)> = Vec::new(); // (due round, id)
    let mut out: Vec<Packet> = Vec::new();
    let mut idle = 0u32;
    let mut all_done_round: Option<u32> = None;
    let mut settle_left = lim.settle;
    let mut delivered_count = 0u32;
    let want_snap = wire.wants_snapshots();
    let end;

    let run_tasks = |m: &mut Machine, force: bool| -> bool {
        let mut progressed = false;
        loop {
            let mut any = false;
            for t in m.tasks.iter_mut() {
                if t.fut.is_none() {
                    continue;
                }
                let woken = t.flag.0.swap(false, Ordering::Relaxed);
                if !(woken || force) {
                    continue;
                }
                any = true;
                turmoil_net::set_current(m.ids[t.host]);
                let mut cx = Context::from_waker(&t.waker);
                let before = m.shared.obs.borrow().len();
                let r = t.fut.as_mut().unwrap().as_mut().poll(&mut cx);
                if m.shared.obs.borrow().len() != before {
                    progressed = true;
                }
                if r.is_ready() {
                    progressed = true;
                    let f = t.fut.take();
                    drop(f);
                }
            }
            if !any || force {
                break;
            }
        }
        progressed
    };

    loop {
        let r = round.get();
        // 1. timers + tasks
        {
            let mut ts = timers.borrow_mut();
            let mut i = 0;
            while i < ts.len() {
                if ts[i].0 <= r {
                    let (_, w) = ts.swap_remove(i);
                    w.wake();
                } else {
                    i += 1;
                }
            }
        }
        let ran = run_tasks(&mut m, false);
        if all_done_round.is_none() && shared.all_done() {
            all_done_round = Some(r);
        }
        if want_snap {
            let snap = snapshot(nhosts);
            wire.after_tasks(r, &snap);
        }
        // 3. egress
        out.clear();
        m.guard.as_ref().unwrap().egress_all(&mut out);
        let emitted = out.len();
        let mut release: Vec<usize> = Vec::new();
        // packets held earlier and due now come first in the default order
        held.retain(|(due, id)| {
            if *due <= r {
                release.push(*id);
                false
            } else {
                true
            }
        });
        release.sort();
        for p in out.drain(..) {
            let id = pkts.len();
            let (kind, src, dst, tcp, len) = tracker.on_emit(&p);
            let mut rec = PktRec {
                id,
                round: r,
                src,
                dst,
                src_host: ip_host(src.ip()),
                dst_host: ip_host(dst.ip()),
                kind,
                tcp,
                len,
                fate: Fate::Now,
                delivered: None,
                overtaken_by: 0,
            };
            wire.on_emit(&rec, &p, &tracker);
            rec.fate = wire.fate(&rec, &tracker);
            match rec.fate {
                Fate::Now | Fate::Hold(0) => {
                    rec.fate = Fate::Now;
                    release.push(id);
                    raw.push(Some(p));
                }
                Fate::Hold(k) => {
                    held.push((r + k, id));
                    raw.push(Some(p));
                }
                Fate::Drop => raw.push(None),
            }
            pkts.push(rec);
        }
        // 4. deliveries
        wire.order(r, &mut release, &pkts);
        let n_rel = release.len();
        let rel_copy = release.clone();
        for (pos, id) in release.into_iter().enumerate() {
            if let Some(p) = raw[id].take() {
                pkts[id].delivered = Some(r);
                // overtaking: older packets of the same direction that are still held
                let (sa, da) = (pkts[id].src, pkts[id].dst);
                for (_, hid) in held.iter() {
                    if *hid < id && pkts[*hid].src == sa && pkts[*hid].dst == da {
                        pkts[*hid].overtaken_by += 1;
                    }
                }
                for q in rel_copy[pos + 1..].iter() {
                    if *q < id && raw[*q].is_some() && pkts[*q].src == sa && pkts[*q].dst == da {
                        pkts[*q].overtaken_by += 1;
                    }
                }
                tracker.on_deliver(&pkts[id]);
                wire.on_deliver(&pkts[id], &tracker);
                m.guard.as_ref().unwrap().deliver(p);
                delivered_count += 1;
            }
        }
        // 5. end of round
        if want_snap {
            let snap = snapshot(nhosts);
            wire.end_round(r, &snap, &tracker);
        }
        // termination
        let timers_pending = !timers.borrow().is_empty();
        let any_woken = m.tasks.iter().any(|t| t.fut.is_some() && t.flag.0.load(Ordering::Relaxed));
        let active = ran || emitted > 0 || n_rel > 0 || !held.is_empty() || timers_pending || any_woken;
        if active {
            idle = 0;
        } else {
            idle += 1;
        }
        if all_done_round.is_some() {
            if idle >= lim.quiet_rounds || settle_left == 0 {
                end = End::Finished;
                break;
            }
            settle_left = settle_left.saturating_sub(1);
        } else if idle >= lim.quiet_rounds {
            end = End::Stalled;
            break;
        }
        if r + 1 >= lim.max_rounds {
            end = if all_done_round.is_some() { End::Finished } else { End::Bound };
            break;
        }
        round.set(r + 1);
    }
    let _ = delivered_count;
    let final_snap = snapshot(nhosts);
    let blocked: Vec<(usize, usize)> = m.tasks.iter().enumerate().filter(|(_, t)| t.fut.is_some()).map(|(i, _)| (i, shared.current_op(i))).collect();
    let mut lost_wakeup = false;
    if end == End::Stalled {
        // diagnostic only: would a spurious poll have made progress?
        lost_wakeup = run_tasks(&mut m, true);
    }
    let obs = shared.take_obs();
    drop(m);
    RunLog { obs, pkts, end, rounds: round.get() + 1, all_done_round, blocked, lost_wakeup, tracker, final_snap }
}

// ---------------------------------------------------------------- fixture support

/// All tasks of one host as a single future (for `fixture::ClientServer`,
/// which pins the host once per poll of the host future).
pub struct JoinAll {
    futs: Vec<Option<Pin<Box<dyn Future<Output = ()>>>>>,
}
impl Future for JoinAll {
    type Output = ();
    fn poll(mut self: Pin<&mut Self>, cx: &mut Context<'_>) -> Poll<()> {
        let mut pending;
        // a task finishing may unblock a sibling (WaitTask/WaitConn): sweep until stable
        loop {
            let mut finished_one = false;
            pending = false;
            for f in self.futs.iter_mut() {
                if let Some(fut) = f {
                    match fut.as_mut().poll(cx) {
                        Poll::Ready(()) => {
                            *f = None;
                            finished_one = true;
                        }
                        Poll::Pending => pending = true,
                    }
                }
            }
            if !finished_one || !pending {
                break;
            }
        }
        if pending {
            Poll::Pending
        } else {
            Poll::Ready(())
        }
    }
}

/// Shared state for a fixture run (round numbers in the log are milliseconds
/// of the fixture's paused tokio clock since the first logged event).
pub fn fixture_shared(nhosts: usize, ntasks: usize) -> Rc<Shared> {
    Shared::new(Clock::Tokio(Cell::new(None)), nhosts, ntasks)
}

/// The tasks of `host` (indices are positions in `scripts`) joined.
pub fn host_future(sh: Rc<Shared>, scripts: &[Script], host: usize) -> JoinAll {
    let futs = scripts
        .iter()
        .enumerate()
        .filter(|(_, s)| s.host == host)
        .map(|(i, s)| Some(Box::pin(interpret(sh.clone(), i, s.clone())) as Pin<Box<dyn Future<Output = ()>>>))
        .collect();
    JoinAll { futs }
}

/// Drop all sockets a host still holds (call from inside that host's future).
pub fn fixture_clear_host(sh: &Shared, host: usize) {
    sh.clear_host(host);
}

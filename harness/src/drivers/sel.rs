//! Host-set selectors: the same set of hosts named by string, IP or regex.

use serde::{Deserialize, Serialize};

#[derive(Clone, Debug, Serialize, Deserialize, PartialEq, Eq)]
pub enum Sel {
    Name(usize),
    Ip(usize),
    /// regex alternation over these host indices
    Regex(Vec<usize>),
}

pub enum SelArg {
    Name(String),
    Ip(std::net::IpAddr),
    Re(regex::Regex),
}

pub fn hosts(s: &Sel, n: usize) -> Vec<usize> {
    match s {
        Sel::Name(i) | Sel::Ip(i) => vec![*i % n],
        Sel::Regex(v) => {
            let mut v: Vec<usize> = v.iter().map(|i| *i % n).collect();
            v.sort();
            v.dedup();
            v
        }
    }
}

/// Ordered pairs (x, y), x != y, in the order `for_pairs` visits them.
pub fn pairs(a: &Sel, b: &Sel, n: usize) -> Vec<(usize, usize)> {
    let mut out = Vec::new();
    for x in hosts(a, n) {
        for y in hosts(b, n) {
            if x != y {
                out.push((x, y));
            }
        }
    }
    out
}

pub fn arg(s: &Sel, n: usize, lookup: &dyn Fn(String) -> std::net::IpAddr) -> SelArg {
    match s {
        Sel::Name(i) => SelArg::Name(format!("h{}", i % n)),
        Sel::Ip(i) => SelArg::Ip(lookup(format!("h{}", i % n))),
        Sel::Regex(_) => {
            let alt: Vec<String> = hosts(s, n).iter().map(|h| format!("h{h}")).collect();
            SelArg::Re(regex::Regex::new(&format!("^({})$", alt.join("|"))).unwrap())
        }
    }
}

/// Expand a call over both selector representations.
#[macro_export]
macro_rules! sel2 {
    ($x:expr, $y:expr, |$a:ident, $b:ident| $body:expr) => {{
        use $crate::drivers::sel::SelArg as SA;
        match ($x, $y) {
            (SA::Name($a), SA::Name($b)) => $body,
            (SA::Name($a), SA::Ip($b)) => $body,
            (SA::Name($a), SA::Re($b)) => $body,
            (SA::Ip($a), SA::Name($b)) => $body,
            (SA::Ip($a), SA::Ip($b)) => $body,
            (SA::Ip($a), SA::Re($b)) => $body,
            (SA::Re($a), SA::Name($b)) => $body,
            (SA::Re($a), SA::Ip($b)) => $body,
            (SA::Re($a), SA::Re($b)) => $body,
        }
    }};
}

pub fn strategy() -> proptest::strategy::BoxedStrategy<Sel> {
    use proptest::prelude::*;
    prop_oneof![
        3 => (0usize..4).prop_map(Sel::Name),
        2 => (0usize..4).prop_map(Sel::Ip),
        2 => proptest::collection::vec(0usize..4, 1..4).prop_map(Sel::Regex),
    ]
    .boxed()
}

/// Poll a future exactly once.
pub async fn poll_once<F: std::future::Future>(f: F) -> Option<F::Output> {
    let mut f = std::pin::pin!(f);
    std::future::poll_fn(|cx| match f.as_mut().poll(cx) {
        std::task::Poll::Ready(v) => std::task::Poll::Ready(Some(v)),
        std::task::Poll::Pending => std::task::Poll::Ready(None),
    })
    .await
}

//! FsDirect driver (DESIGN.md §2.1): drives `turmoil-fs` and
//! `turmoil-io-uring` directly, without a `Sim`.  The harness owns every op and
//! the `now` value the crates see.
//!
//! One [`Host`] = one independent `Fs` + one `IoUringHostState` (+ one ring),
//! exactly what `turmoil::Sim` keeps per host and enters per tick
//! (crates/turmoil/src/sim.rs:466-496).  All three front-ends operate on the
//! same tree:
//!
//! * `Fe::Std`   — `turmoil_fs::shim::std::fs::*`, `File`, `OpenOptions`, the real
//!   `std::os::unix::fs::FileExt` / `std::io::{Read,Write,Seek}` traits;
//! * `Fe::Tokio` — `turmoil_fs::shim::tokio::fs::*`; futures are polled to
//!   completion with a no-op waker (they only pend on `io_latency`, which is
//!   `None` here — a `Pending` is reported as an error of kind `WouldBlock`
//!   with the marker text [`PENDED`]);
//! * `Fe::Uring` — one SQE (`opcode::{Read,Write,Fsync}`) pushed, submitted and
//!   its CQE drained per op (`io_latency` None => it matures at the same `now`).
//!
//! A handle is always stored as the std-shim `File`; the tokio front-end wraps
//! it with `tokio::fs::File::from_std` for the duration of one op and unwraps
//! it again, io_uring uses its raw fd.  So every front-end can be used on every
//! handle.

use std::future::Future;
use std::io::{self, Read, Seek, SeekFrom, Write};
use std::os::fd::AsRawFd;
use std::os::unix::fs::FileExt;
use std::pin::pin;
use std::sync::{Arc, Mutex};
use std::task::{Context, Poll, Waker};
use std::time::Duration;

use serde::{Deserialize, Serialize};
use tokio::io::{AsyncReadExt, AsyncSeekExt, AsyncWriteExt};
use turmoil_fs::shim::std::fs as sfs;
use turmoil_fs::shim::tokio::fs as tfs;
use turmoil_fs::{Fs, FsConfig};
use turmoil_io_uring::host::IoUringHostState;
use turmoil_io_uring::{opcode, types, IoUring};

pub const PENDED: &str = "tvh: tokio-shim future returned Pending although io_latency is None";

#[derive(Clone, Copy, Debug, PartialEq, Eq, Serialize, Deserialize, Hash, PartialOrd, Ord)]
pub enum Fe {
    Std,
    Tokio,
    Uring,
}

impl Fe {
    pub fn name(self) -> &'static str {
        match self {
            Fe::Std => "std",
            Fe::Tokio => "tokio",
            Fe::Uring => "uring",
        }
    }
    /// Front-end to use for ops io_uring has no opcode for.
    pub fn or_std(self) -> Fe {
        if self == Fe::Uring {
            Fe::Std
        } else {
            self
        }
    }
}

#[derive(Clone, Copy, Debug, Default, PartialEq, Eq, Serialize, Deserialize)]
pub struct OpenFlags {
    pub read: bool,
    pub write: bool,
    pub append: bool,
    pub truncate: bool,
    pub create: bool,
    pub create_new: bool,
}

/// Poll a future that must not pend.
pub fn block_on<T>(fut: impl Future<Output = io::Result<T>>) -> io::Result<T> {
    let mut fut = pin!(fut);
    let mut cx = Context::from_waker(Waker::noop());
    match fut.as_mut().poll(&mut cx) {
        Poll::Ready(r) => r,
        Poll::Pending => Err(io::Error::new(io::ErrorKind::WouldBlock, PENDED)),
    }
}

pub struct Host {
    pub fs: Arc<Mutex<Fs>>,
    pub iou: Arc<Mutex<IoUringHostState>>,
    ring: Option<IoUring>,
    pub now: Duration,
    next_ud: u64,
    /// Some(base): this "host" is the real operating system's filesystem
    /// below `base` (used only to validate the reference model against real
    /// POSIX behaviour; never part of a verdict about turmoil).
    os_base: Option<std::path::PathBuf>,
    /// true: the fs / io_uring state is already entered by somebody else (the
    /// running `turmoil::Sim` enters the current host's state for the whole
    /// tick), so `enter` must not enter anything itself.
    ambient: bool,
}

impl Host {
    /// All fault probabilities 0, no latency, no page cache, no capacity.
    pub fn new(seed: u64, now: Duration) -> Host {
        Host::with_config(FsConfig::default(), seed, now)
    }

    pub fn with_config(cfg: FsConfig, seed: u64, now: Duration) -> Host {
        Host {
            fs: Arc::new(Mutex::new(Fs::new(cfg, seed))),
            iou: Arc::new(Mutex::new(IoUringHostState::new())),
            ring: None,
            now,
            next_ud: 1,
            os_base: None,
            ambient: false,
        }
    }

    /// A host for code that runs *inside* the software of a `turmoil::Sim`
    /// host: the Sim has entered that host's `Fs` and io_uring state for the
    /// tick, the shims route there, and this object only carries the ring and
    /// the user_data counter.  `fs` / `iou` are unused dummies; `now`,
    /// `advance` and `crash` have no meaning here.
    pub fn ambient() -> Host {
        let mut h = Host::new(0, Duration::ZERO);
        h.ambient = true;
        h
    }

    /// Crash the host the way `turmoil::Sim::crash` does for its fs and
    /// io_uring state (crates/turmoil/src/sim.rs): `Fs::crash()` then
    /// `IoUringHostState::crash()`.  The ring object of the dead software is
    /// forgotten; callers must also drop every `Handle` they hold (the
    /// software that owned them is gone).
    pub fn crash(&mut self) {
        assert!(!self.ambient && self.os_base.is_none(), "crash() is only meaningful for a directly driven Fs");
        self.fs.lock().unwrap().crash();
        self.iou.lock().unwrap().crash();
        // the ring was removed from the registry by the crash; dropping the
        // handle outside `enter` is a no-op for the registry
        self.ring = None;
    }

    /// The real OS filesystem below `base` (created empty).
    pub fn new_os(base: std::path::PathBuf) -> Host {
        let _ = std::fs::remove_dir_all(&base);
        std::fs::create_dir_all(&base).expect("create os base");
        let mut h = Host::new(0, Duration::ZERO);
        h.os_base = Some(base);
        h
    }

    pub fn advance(&mut self, d: Duration) {
        self.now += d;
    }

    /// Run `f` with this host's fs and io_uring state entered at `self.now`,
    /// the way `Sim` does for one host tick.
    pub fn enter<R>(&mut self, f: impl FnOnce(&mut Entered<'_>) -> R) -> R {
        if self.ambient {
            let mut e = Entered {
                ring: &mut self.ring,
                next_ud: &mut self.next_ud,
                os: None,
            };
            return f(&mut e);
        }
        let fs = self.fs.clone();
        let iou = self.iou.clone();
        let _g1 = turmoil_fs::enter(
            &fs,
            turmoil_fs::EnterCtx {
                now: self.now,
                on_corruption: None,
            },
        );
        let _g2 = turmoil_io_uring::host::enter(&iou, turmoil_io_uring::host::EnterCtx { now: self.now });
        let mut e = Entered {
            ring: &mut self.ring,
            next_ud: &mut self.next_ud,
            os: self.os_base.clone(),
        };
        f(&mut e)
    }

    /// Drop the ring while entered (so it deregisters itself).
    pub fn shutdown(&mut self) {
        self.enter(|e| {
            e.ring.take();
        });
    }
}

/// Operations available while a host is entered.
pub struct Entered<'a> {
    ring: &'a mut Option<IoUring>,
    next_ud: &'a mut u64,
    os: Option<std::path::PathBuf>,
}

fn os_path(base: &std::path::Path, p: &str) -> std::path::PathBuf {
    let rel = p.trim_start_matches('/');
    if rel.is_empty() {
        base.to_path_buf()
    } else {
        base.join(rel)
    }
}

fn cqe_to_result(r: i32) -> io::Result<usize> {
    if r < 0 {
        Err(io::Error::from_raw_os_error(-r))
    } else {
        Ok(r as usize)
    }
}

fn with_tokio<T>(f: &mut Option<sfs::File>, op: impl FnOnce(&mut tfs::File) -> io::Result<T>) -> io::Result<T> {
    let std_file = f.take().expect("handle present");
    let mut t = tfs::File::from_std(std_file);
    let r = op(&mut t);
    *f = Some(t.into_std());
    r
}

/// A file handle slot. Always holds the std-shim file between ops.
pub struct Handle(Option<sfs::File>, Option<std::fs::File>);

impl Handle {
    pub fn file(&self) -> &sfs::File {
        self.0.as_ref().expect("handle present")
    }
    fn os(&mut self) -> &mut std::fs::File {
        self.1.as_mut().expect("os handle present")
    }
    pub fn raw_fd(&self) -> i32 {
        self.file().as_raw_fd()
    }
}

impl Entered<'_> {
    // ----- io_uring plumbing -------------------------------------------------

    fn uring_one(&mut self, entry: turmoil_io_uring::squeue::Entry) -> io::Result<usize> {
        if self.ring.is_none() {
            *self.ring = Some(IoUring::new(8)?);
        }
        let ud = *self.next_ud;
        *self.next_ud += 1;
        let ring = self.ring.as_mut().unwrap();
        let entry = entry.user_data(ud);
        // SAFETY: single writer; buffers outlive the op (drained below).
        unsafe {
            ring.submission()
                .push(&entry)
                .map_err(|e| io::Error::other(format!("tvh: sq push failed: {e}")))?;
        }
        let n = ring.submit()?;
        if n != 1 {
            return Err(io::Error::other(format!("tvh: submit accepted {n} SQEs, expected 1")));
        }
        let mut cq = ring.completion();
        cq.sync();
        let mut got = None;
        let mut extra = 0;
        for cqe in &mut cq {
            if got.is_none() {
                got = Some(cqe);
            } else {
                extra += 1;
            }
        }
        let Some(cqe) = got else {
            return Err(io::Error::other("tvh: no CQE for a submitted SQE at the same `now` (latency None)"));
        };
        if extra != 0 || cqe.user_data() != ud {
            return Err(io::Error::other(format!(
                "tvh: CQE mismatch: user_data {} (expected {ud}), {extra} extra CQEs",
                cqe.user_data()
            )));
        }
        cqe_to_result(cqe.result())
    }

    // ----- handle ops --------------------------------------------------------

    pub fn open(&mut self, fe: Fe, path: &str, o: OpenFlags) -> io::Result<Handle> {
        if let Some(base) = &self.os {
            let mut oo = std::fs::OpenOptions::new();
            oo.read(o.read)
                .write(o.write)
                .append(o.append)
                .truncate(o.truncate)
                .create(o.create)
                .create_new(o.create_new);
            return oo.open(os_path(base, path)).map(|f| Handle(None, Some(f)));
        }

        match fe {
            Fe::Std | Fe::Uring => {
                let mut oo = sfs::OpenOptions::new();
                oo.read(o.read)
                    .write(o.write)
                    .append(o.append)
                    .truncate(o.truncate)
                    .create(o.create)
                    .create_new(o.create_new);
                oo.open(path).map(|f| Handle(Some(f), None))
            }
            Fe::Tokio => {
                let mut oo = tfs::OpenOptions::new();
                oo.read(o.read)
                    .write(o.write)
                    .append(o.append)
                    .truncate(o.truncate)
                    .create(o.create)
                    .create_new(o.create_new);
                block_on(oo.open(path)).map(|f| Handle(Some(f.into_std()), None))
            }
        }
    }

    /// `File::open` / `File::create` convenience constructors.
    pub fn open_simple(&mut self, fe: Fe, path: &str, create: bool) -> io::Result<Handle> {
        match (fe, create) {
            (Fe::Tokio, false) => block_on(tfs::File::open(path)).map(|f| Handle(Some(f.into_std()), None)),
            (Fe::Tokio, true) => block_on(tfs::File::create(path)).map(|f| Handle(Some(f.into_std()), None)),
            (_, false) => sfs::File::open(path).map(|f| Handle(Some(f), None)),
            (_, true) => sfs::File::create(path).map(|f| Handle(Some(f), None)),
        }
    }

    pub fn close(&mut self, h: Handle) {
        drop(h);
    }

    pub fn write_at(&mut self, fe: Fe, h: &mut Handle, data: &[u8], off: u64) -> io::Result<usize> {
        if self.os.is_some() {
            return h.os().write_at(data, off);
        }

        match fe {
            Fe::Std => h.file().write_at(data, off),
            Fe::Tokio => with_tokio(&mut h.0, |t| block_on(t.write_at(data, off))),
            Fe::Uring => {
                let e = opcode::Write::new(types::Fd(h.raw_fd()), data.as_ptr(), data.len() as u32)
                    .offset(off)
                    .build();
                self.uring_one(e)
            }
        }
    }

    pub fn read_at(&mut self, fe: Fe, h: &mut Handle, len: usize, off: u64) -> io::Result<Vec<u8>> {
        if self.os.is_some() {
            let mut buf = vec![0xEEu8; len];
            let n = h.os().read_at(&mut buf, off)?;
            buf.truncate(n);
            return Ok(buf);
        }

        // poison so that bytes the implementation claims to have read but did
        // not write are visible
        let mut buf = vec![0xEEu8; len];
        let n = match fe {
            Fe::Std => h.file().read_at(&mut buf, off)?,
            Fe::Tokio => with_tokio(&mut h.0, |t| block_on(t.read_at(&mut buf, off)))?,
            Fe::Uring => {
                let e = opcode::Read::new(types::Fd(h.raw_fd()), buf.as_mut_ptr(), len as u32)
                    .offset(off)
                    .build();
                self.uring_one(e)?
            }
        };
        if n > len {
            return Err(io::Error::other(format!("tvh: read returned {n} > buffer {len}")));
        }
        buf.truncate(n);
        Ok(buf)
    }

    pub fn write(&mut self, fe: Fe, h: &mut Handle, data: &[u8]) -> io::Result<usize> {
        if self.os.is_some() {
            return h.os().write(data);
        }

        match fe.or_std() {
            Fe::Tokio => with_tokio(&mut h.0, |t| block_on(t.write(data))),
            _ => h.0.as_mut().unwrap().write(data),
        }
    }

    pub fn read(&mut self, fe: Fe, h: &mut Handle, len: usize) -> io::Result<Vec<u8>> {
        if self.os.is_some() {
            let mut buf = vec![0xEEu8; len];
            let n = h.os().read(&mut buf)?;
            buf.truncate(n);
            return Ok(buf);
        }

        let mut buf = vec![0xEEu8; len];
        let n = match fe.or_std() {
            Fe::Tokio => with_tokio(&mut h.0, |t| block_on(t.read(&mut buf)))?,
            _ => h.0.as_mut().unwrap().read(&mut buf)?,
        };
        if n > len {
            return Err(io::Error::other(format!("tvh: read returned {n} > buffer {len}")));
        }
        buf.truncate(n);
        Ok(buf)
    }

    pub fn seek(&mut self, fe: Fe, h: &mut Handle, pos: SeekFrom) -> io::Result<u64> {
        if self.os.is_some() {
            return h.os().seek(pos);
        }

        match fe.or_std() {
            Fe::Tokio => with_tokio(&mut h.0, |t| block_on(t.seek(pos))),
            _ => h.0.as_mut().unwrap().seek(pos),
        }
    }

    pub fn set_len(&mut self, fe: Fe, h: &mut Handle, len: u64) -> io::Result<()> {
        if self.os.is_some() {
            return h.os().set_len(len);
        }

        match fe.or_std() {
            Fe::Tokio => with_tokio(&mut h.0, |t| block_on(t.set_len(len))),
            _ => h.file().set_len(len),
        }
    }

    pub fn handle_len(&mut self, fe: Fe, h: &mut Handle) -> io::Result<u64> {
        if self.os.is_some() {
            return h.os().metadata().map(|m| m.len());
        }

        match fe.or_std() {
            Fe::Tokio => with_tokio(&mut h.0, |t| block_on(t.metadata())).map(|m| m.len()),
            _ => h.file().metadata().map(|m| m.len()),
        }
    }

    pub fn sync_all(&mut self, fe: Fe, h: &mut Handle) -> io::Result<()> {
        if self.os.is_some() {
            return h.os().sync_all();
        }

        match fe {
            Fe::Std => h.file().sync_all(),
            Fe::Tokio => with_tokio(&mut h.0, |t| block_on(t.sync_all())),
            Fe::Uring => {
                let e = opcode::Fsync::new(types::Fd(h.raw_fd())).build();
                self.uring_one(e).map(|_| ())
            }
        }
    }

    pub fn sync_data(&mut self, fe: Fe, h: &mut Handle) -> io::Result<()> {
        if self.os.is_some() {
            return h.os().sync_data();
        }

        match fe {
            Fe::Std => h.file().sync_data(),
            Fe::Tokio => with_tokio(&mut h.0, |t| block_on(t.sync_data())),
            Fe::Uring => {
                let e = opcode::Fsync::new(types::Fd(h.raw_fd())).build();
                self.uring_one(e).map(|_| ())
            }
        }
    }

    // ----- path ops ----------------------------------------------------------

    pub fn sync_dir(&mut self, fe: Fe, p: &str) -> io::Result<()> {
        if let Some(base) = &self.os {
            let m = std::fs::metadata(os_path(base, p))?;
            if !m.is_dir() {
                return Err(io::Error::new(io::ErrorKind::NotADirectory, "not a directory"));
            }
            return std::fs::File::open(os_path(base, p))?.sync_all();
        }

        match fe.or_std() {
            Fe::Tokio => block_on(tfs::sync_dir(p)),
            _ => sfs::sync_dir(p),
        }
    }
    pub fn rename(&mut self, fe: Fe, a: &str, b: &str) -> io::Result<()> {
        if let Some(base) = &self.os {
            return std::fs::rename(os_path(base, a), os_path(base, b));
        }

        match fe.or_std() {
            Fe::Tokio => block_on(tfs::rename(a, b)),
            _ => sfs::rename(a, b),
        }
    }
    pub fn remove_file(&mut self, fe: Fe, p: &str) -> io::Result<()> {
        if let Some(base) = &self.os {
            return std::fs::remove_file(os_path(base, p));
        }

        match fe.or_std() {
            Fe::Tokio => block_on(tfs::remove_file(p)),
            _ => sfs::remove_file(p),
        }
    }
    pub fn create_dir(&mut self, fe: Fe, p: &str) -> io::Result<()> {
        if let Some(base) = &self.os {
            return std::fs::create_dir(os_path(base, p));
        }

        match fe.or_std() {
            Fe::Tokio => block_on(tfs::create_dir(p)),
            _ => sfs::create_dir(p),
        }
    }
    pub fn create_dir_all(&mut self, fe: Fe, p: &str) -> io::Result<()> {
        if let Some(base) = &self.os {
            return std::fs::create_dir_all(os_path(base, p));
        }

        match fe.or_std() {
            Fe::Tokio => block_on(tfs::create_dir_all(p)),
            _ => sfs::create_dir_all(p),
        }
    }
    pub fn remove_dir(&mut self, fe: Fe, p: &str) -> io::Result<()> {
        if let Some(base) = &self.os {
            return std::fs::remove_dir(os_path(base, p));
        }

        match fe.or_std() {
            Fe::Tokio => block_on(tfs::remove_dir(p)),
            _ => sfs::remove_dir(p),
        }
    }
    pub fn remove_dir_all(&mut self, fe: Fe, p: &str) -> io::Result<()> {
        if let Some(base) = &self.os {
            return std::fs::remove_dir_all(os_path(base, p));
        }

        match fe.or_std() {
            Fe::Tokio => block_on(tfs::remove_dir_all(p)),
            _ => sfs::remove_dir_all(p),
        }
    }
    /// Directory listing as sorted full paths.
    pub fn read_dir(&mut self, fe: Fe, p: &str) -> io::Result<Vec<String>> {
        if let Some(base) = &self.os {
            let mut v = Vec::new();
            for e in std::fs::read_dir(os_path(base, p))? {
                let full = e?.path();
                let rel = full.strip_prefix(base).unwrap();
                v.push(format!("/{}", rel.to_string_lossy()));
            }
            v.sort();
            return Ok(v);
        }

        let rd = match fe.or_std() {
            Fe::Tokio => block_on(tfs::read_dir(p))?,
            _ => sfs::read_dir(p)?,
        };
        let mut v = Vec::new();
        for e in rd {
            v.push(e?.path().to_string_lossy().to_string());
        }
        v.sort();
        Ok(v)
    }
    /// (is_file, is_dir, len)
    pub fn metadata(&mut self, fe: Fe, p: &str) -> io::Result<(bool, bool, u64)> {
        if let Some(base) = &self.os {
            let m = std::fs::metadata(os_path(base, p))?;
            return Ok((m.is_file(), m.is_dir(), m.len()));
        }

        let m = match fe.or_std() {
            Fe::Tokio => block_on(tfs::metadata(p))?,
            _ => sfs::metadata(p)?,
        };
        Ok((m.is_file(), m.is_dir(), m.len()))
    }
    pub fn exists(&mut self, fe: Fe, p: &str) -> io::Result<bool> {
        if let Some(base) = &self.os {
            return Ok(os_path(base, p).exists());
        }

        match fe.or_std() {
            Fe::Tokio => block_on(tfs::try_exists(p)),
            _ => Ok(sfs::exists(p)),
        }
    }
    pub fn read_file(&mut self, fe: Fe, p: &str) -> io::Result<Vec<u8>> {
        if let Some(base) = &self.os {
            return std::fs::read(os_path(base, p));
        }

        match fe.or_std() {
            Fe::Tokio => block_on(tfs::read(p)),
            _ => sfs::read(p),
        }
    }
    pub fn write_file(&mut self, fe: Fe, p: &str, data: &[u8]) -> io::Result<()> {
        if let Some(base) = &self.os {
            return std::fs::write(os_path(base, p), data);
        }

        match fe.or_std() {
            Fe::Tokio => block_on(tfs::write(p, data)),
            _ => sfs::write(p, data),
        }
    }
}

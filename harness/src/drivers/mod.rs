pub mod trace;
pub mod sel;

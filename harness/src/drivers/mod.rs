pub mod trace;
pub mod sel;
pub mod linktraffic;
pub mod netwire;
pub mod fsdirect;

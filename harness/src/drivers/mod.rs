pub mod trace;
pub mod sel;
pub mod linktraffic;
pub mod netwire;
pub mod fsdirect;
pub mod fshistory;
pub mod netwire_ext;

pub mod trace;

pub mod trace;
pub mod sel;
pub mod linktraffic;

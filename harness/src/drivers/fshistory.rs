//! The filesystem *history language* shared by the FsDirect properties (C10,
//! and C07/C18 on top of it): ops over a small path universe, their proptest
//! generators, and the two interpreters —
//!
//! * [`exec_real`]: one op against the real crates through
//!   [`crate::drivers::fsdirect`] (std shim / tokio shim / io_uring);
//! * [`exec_model`]: the same op against the POSIX reference model
//!   [`crate::models::posixfs`], returning the result a POSIX tree gives and
//!   side information ([`Last`]) about what the op did.
//!
//! Both take the handle table as a plain slice, so a property can keep them
//! in lock-step (C10) or run the model alone to predict durable state (C07).
//! [`RealHost`] / [`ModelHost`] bundle a host with its handle table for
//! callers that do not need anything finer.
//!
//! Everything here is deterministic; all randomness is in the generated ops.

use crate::drivers::fsdirect::{Entered, Fe, Handle, Host, OpenFlags};
use crate::engine::pick;
use crate::models::posixfs::{self as pm, parent_of, Flags, Ino, MErr, MHandle, Stat, Tree};
use proptest::prelude::*;
use serde::{Deserialize, Serialize};
use std::io::{self, SeekFrom};
use std::time::Duration;

/// The path universe (ancestor-closed). Any path may become a file or a
/// directory.
pub const PATHS: [&str; 13] = [
    "/", "/d0", "/d1", "/d0/s", "/f0", "/f1", "/d0/a", "/d0/b", "/d1/a", "/d1/b", "/d0/s/a", "/d0/s/b", "/d2",
];
/// Handle slots per host.
pub const NSLOTS: usize = 4;

pub fn pth(i: u8) -> &'static str {
    PATHS[(i as usize) % PATHS.len()]
}

/// Payload of the `w`-th write of a host: unique per write, never 0 (holes
/// read as 0) and never 0xEE (the driver's read-buffer poison).
pub fn payload(w: u32, len: usize) -> Vec<u8> {
    (0..len)
        .map(|k| {
            let b = ((w as usize * 13 + k + 1) & 0xff) as u8;
            match b {
                0 => 0xff,
                0xEE => 0xEF,
                b => b,
            }
        })
        .collect()
}

pub fn mflags(f: OpenFlags) -> Flags {
    Flags {
        read: f.read,
        write: f.write,
        append: f.append,
        truncate: f.truncate,
        create: f.create,
        create_new: f.create_new,
    }
}

#[derive(Clone, Copy, Debug, Serialize, Deserialize, PartialEq, Eq)]
pub enum Whence {
    Start,
    Cur,
    End,
}

#[derive(Clone, Debug, Serialize, Deserialize)]
pub enum Op {
    Open { slot: u8, path: u8, fe: Fe, fl: OpenFlags },
    Close { slot: u8 },
    WriteAt { slot: u8, off: u8, len: u8, fe: Fe },
    ReadAt { slot: u8, off: u8, len: u8, fe: Fe },
    Write { slot: u8, len: u8, fe: Fe },
    Read { slot: u8, len: u8, fe: Fe },
    Seek { slot: u8, whence: Whence, off: i8, fe: Fe },
    SetLen { slot: u8, len: u8, fe: Fe },
    HandleLen { slot: u8, fe: Fe },
    SyncAll { slot: u8, fe: Fe },
    SyncData { slot: u8, fe: Fe },
    SyncDir { path: u8, fe: Fe },
    Rename { from: u8, to: u8, fe: Fe },
    RemoveFile { path: u8, fe: Fe },
    CreateDir { path: u8, fe: Fe },
    CreateDirAll { path: u8, fe: Fe },
    RemoveDir { path: u8, fe: Fe },
    RemoveDirAll { path: u8, fe: Fe },
    ReadDir { path: u8, fe: Fe },
    Metadata { path: u8, fe: Fe },
    Exists { path: u8, fe: Fe },
    ReadFile { path: u8, fe: Fe },
    WriteFile { path: u8, len: u8, fe: Fe },
    Advance { ms: u16 },
}

impl Op {
    pub fn name(&self) -> &'static str {
        match self {
            Op::Open { .. } => "open",
            Op::Close { .. } => "close",
            Op::WriteAt { .. } => "write_at",
            Op::ReadAt { .. } => "read_at",
            Op::Write { .. } => "write",
            Op::Read { .. } => "read",
            Op::Seek { .. } => "seek",
            Op::SetLen { .. } => "set_len",
            Op::HandleLen { .. } => "file_metadata",
            Op::SyncAll { .. } => "sync_all",
            Op::SyncData { .. } => "sync_data",
            Op::SyncDir { .. } => "sync_dir",
            Op::Rename { .. } => "rename",
            Op::RemoveFile { .. } => "remove_file",
            Op::CreateDir { .. } => "create_dir",
            Op::CreateDirAll { .. } => "create_dir_all",
            Op::RemoveDir { .. } => "remove_dir",
            Op::RemoveDirAll { .. } => "remove_dir_all",
            Op::ReadDir { .. } => "read_dir",
            Op::Metadata { .. } => "metadata",
            Op::Exists { .. } => "exists",
            Op::ReadFile { .. } => "read",
            Op::WriteFile { .. } => "fs_write",
            Op::Advance { .. } => "advance",
        }
    }
    pub fn is_sync_or_clock(&self) -> bool {
        matches!(
            self,
            Op::SyncAll { .. } | Op::SyncData { .. } | Op::SyncDir { .. } | Op::Advance { .. }
        )
    }
    pub fn fe(&self) -> Option<Fe> {
        Some(match self {
            Op::Open { fe, .. }
            | Op::WriteAt { fe, .. }
            | Op::ReadAt { fe, .. }
            | Op::Write { fe, .. }
            | Op::Read { fe, .. }
            | Op::Seek { fe, .. }
            | Op::SetLen { fe, .. }
            | Op::HandleLen { fe, .. }
            | Op::SyncAll { fe, .. }
            | Op::SyncData { fe, .. }
            | Op::SyncDir { fe, .. }
            | Op::Rename { fe, .. }
            | Op::RemoveFile { fe, .. }
            | Op::CreateDir { fe, .. }
            | Op::CreateDirAll { fe, .. }
            | Op::RemoveDir { fe, .. }
            | Op::RemoveDirAll { fe, .. }
            | Op::ReadDir { fe, .. }
            | Op::Metadata { fe, .. }
            | Op::Exists { fe, .. }
            | Op::ReadFile { fe, .. }
            | Op::WriteFile { fe, .. } => *fe,
            Op::Close { .. } | Op::Advance { .. } => return None,
        })
    }
}

#[derive(Clone, Debug, Serialize, Deserialize)]
pub struct Step {
    pub host: u8,
    pub op: Op,
}


impl Op {
    /// Slot field of an op that works on an already open handle.
    pub fn handle_slot(&self) -> Option<u8> {
        match self {
            Op::WriteAt { slot, .. }
            | Op::ReadAt { slot, .. }
            | Op::Write { slot, .. }
            | Op::Read { slot, .. }
            | Op::Seek { slot, .. }
            | Op::SetLen { slot, .. }
            | Op::HandleLen { slot, .. }
            | Op::SyncAll { slot, .. }
            | Op::SyncData { slot, .. } => Some(*slot),
            _ => None,
        }
    }
    /// Number of payload bytes the op writes, if it writes.
    pub fn write_len(&self) -> Option<usize> {
        match self {
            Op::WriteAt { len, .. } | Op::Write { len, .. } | Op::WriteFile { len, .. } => Some(*len as usize),
            _ => None,
        }
    }
    /// Path fields (already concretised indices).
    pub fn paths(&self) -> Vec<&'static str> {
        match self {
            Op::Open { path, .. }
            | Op::SyncDir { path, .. }
            | Op::RemoveFile { path, .. }
            | Op::CreateDir { path, .. }
            | Op::CreateDirAll { path, .. }
            | Op::RemoveDir { path, .. }
            | Op::RemoveDirAll { path, .. }
            | Op::ReadDir { path, .. }
            | Op::Metadata { path, .. }
            | Op::Exists { path, .. }
            | Op::ReadFile { path, .. }
            | Op::WriteFile { path, .. } => vec![pth(*path)],
            Op::Rename { from, to, .. } => vec![pth(*from), pth(*to)],
            _ => vec![],
        }
    }
}

/// Human-readable op with concrete paths.
pub fn describe(op: &Op) -> String {
    let mut t = format!("{op:?}");
    for (i, p) in PATHS.iter().enumerate().rev() {
        for key in ["path", "from", "to"] {
            t = t.replace(&format!("{key}: {i},"), &format!("{key}: {p:?},"));
        }
    }
    t
}

/// Path selectors >= 13 are resolved against the model state: k-th existing
/// file / existing directory / free name under an existing directory (falls
/// back to a fixed path if there is none).  Returns the op with absolute
/// path indices.
pub fn concretize(m: &Tree, op: &Op) -> Op {
    let sel = |v: u8| -> u8 {
        if (v as usize) < PATHS.len() {
            return v;
        }
        let k = v as usize - PATHS.len();
        let (kind, idx) = (k % 3, k / 3);
        let cands: Vec<usize> = (1..PATHS.len())
            .filter(|i| {
                let q = PATHS[*i];
                match (kind, m.lookup(q)) {
                    (0, Some(ino)) => !m.is_dir(ino),
                    (1, Some(ino)) => m.is_dir(ino),
                    (2, None) => m.lookup(&parent_of(q)).map(|pi| m.is_dir(pi)).unwrap_or(false),
                    _ => false,
                }
            })
            .collect();
        if cands.is_empty() {
            (idx % PATHS.len()) as u8
        } else {
            cands[idx % cands.len()] as u8
        }
    };
    let mut op = op.clone();
    match &mut op {
        Op::Open { path, .. }
        | Op::SyncDir { path, .. }
        | Op::RemoveFile { path, .. }
        | Op::CreateDir { path, .. }
        | Op::CreateDirAll { path, .. }
        | Op::RemoveDir { path, .. }
        | Op::RemoveDirAll { path, .. }
        | Op::ReadDir { path, .. }
        | Op::Metadata { path, .. }
        | Op::Exists { path, .. }
        | Op::ReadFile { path, .. }
        | Op::WriteFile { path, .. } => *path = sel(*path),
        Op::Rename { from, to, .. } => {
            *from = sel(*from);
            *to = sel(*to);
        }
        _ => {}
    }
    op
}

/// Slots whose handle is *usable*: its path still names the inode it was
/// opened on (the sound-first restriction of C10/C07).
pub fn usable_slots(m: &Tree, handles: &[Option<MHandle>]) -> Vec<usize> {
    (0..handles.len())
        .filter(|s| {
            handles[*s]
                .as_ref()
                .map(|mh| m.lookup(&mh.path) == Some(mh.ino))
                .unwrap_or(false)
        })
        .collect()
}

/// Handle ops address the k-th usable handle (so generated slot numbers
/// rarely hit an empty slot); with no usable handle the raw slot is used.
pub fn resolve_slot(m: &Tree, handles: &[Option<MHandle>], slot: u8) -> usize {
    let usable = usable_slots(m, handles);
    if usable.is_empty() {
        (slot as usize) % handles.len().max(1)
    } else {
        usable[(slot as usize) % usable.len()]
    }
}

// ---------------------------------------------------------------------------
// results and scans

#[derive(Clone, Debug, PartialEq, Eq)]
pub enum Res {
    Unit,
    Count(usize),
    Data(Vec<u8>),
    Pos(u64),
    Len(u64),
    Names(Vec<String>),
    Stat(Stat),
    Bool(bool),
}


/// Side information about the op just executed on the model.
#[derive(Clone, Debug, Default)]
pub struct Last {
    pub ino: Option<Ino>,
    pub created: bool,
    pub old_len: u64,
    pub new_len: u64,
    /// write offset (for hole detection)
    pub off: u64,
    pub replaced: Option<Ino>,
}

/// What a scan sees for one path.
#[derive(Clone, Debug, PartialEq, Eq)]
pub enum Seen {
    Absent,
    File { len: u64, content: Option<Vec<u8>> },
    Dir { entries: Option<Vec<String>> },
    /// something inconsistent (both/neither kind bits, read failed, ...)
    Odd(String),
}

pub fn scan_real(e: &mut Entered<'_>) -> Vec<(bool, Seen)> {
    PATHS
        .iter()
        .map(|p| {
            let ex = e.exists(Fe::Std, p).unwrap_or(false);
            let seen = match e.metadata(Fe::Std, p) {
                Err(_) => Seen::Absent,
                Ok((true, false, len)) => match e.read_file(Fe::Std, p) {
                    Ok(c) => Seen::File { len, content: Some(c) },
                    Err(er) => Seen::Odd(format!("metadata says file len {len} but read failed: {er}")),
                },
                Ok((false, true, _)) => match e.read_dir(Fe::Std, p) {
                    Ok(n) => Seen::Dir { entries: Some(n) },
                    Err(er) => Seen::Odd(format!("metadata says dir but read_dir failed: {er}")),
                },
                Ok((f, d, l)) => Seen::Odd(format!("metadata is_file={f} is_dir={d} len={l}")),
            };
            (ex, seen)
        })
        .collect()
}

pub fn scan_model(t: &Tree) -> Vec<(bool, Seen)> {
    PATHS
        .iter()
        .map(|p| match t.stat(p) {
            Err(_) => (false, Seen::Absent),
            Ok(Stat::File(len)) => {
                let i = t.lookup(p).unwrap();
                (
                    true,
                    Seen::File {
                        len,
                        content: Some(t.file(i).clone()),
                    },
                )
            }
            Ok(Stat::Dir) => (
                true,
                Seen::Dir {
                    entries: Some(t.readdir(p).unwrap()),
                },
            ),
        })
        .collect()
}


// ---------------------------------------------------------------------------
// interpreters

fn not_writable() -> MErr {
    MErr {
        situation: "handle-not-writable",
        kind: None,
    }
}
fn not_readable() -> MErr {
    MErr {
        situation: "handle-not-readable",
        kind: None,
    }
}

/// Execute one (concretised) op on the real crates.  `cur` is the resolved
/// handle slot for handle ops, `data` the payload for writing ops.  `Open`
/// closes whatever is in its slot and stores the new handle on success;
/// `Advance` moves the host's `now`.
pub fn exec_real(host: &mut Host, handles: &mut [Option<Handle>], op: &Op, cur: usize, data: &[u8]) -> io::Result<Res> {
    let nslots = handles.len().max(1);
    let slot_of = |s: u8| (s as usize) % nslots;
    match op {
        Op::Open { slot, path, fe, fl } => {
            let s = slot_of(*slot);
            if let Some(rh) = handles[s].take() {
                host.enter(|e| e.close(rh));
            }
            let rh = host.enter(|e| e.open(*fe, pth(*path), *fl))?;
            handles[s] = Some(rh);
            Ok(Res::Unit)
        }
        Op::Close { slot } => {
            if let Some(rh) = handles[slot_of(*slot)].take() {
                host.enter(|e| e.close(rh));
            }
            Ok(Res::Unit)
        }
        Op::WriteAt { off, fe, .. } => {
            let rh = handles[cur].as_mut().expect("real handle");
            host.enter(|e| e.write_at(*fe, rh, data, *off as u64)).map(Res::Count)
        }
        Op::ReadAt { off, len, fe, .. } => {
            let rh = handles[cur].as_mut().expect("real handle");
            host.enter(|e| e.read_at(*fe, rh, *len as usize, *off as u64)).map(Res::Data)
        }
        Op::Write { fe, .. } => {
            let rh = handles[cur].as_mut().expect("real handle");
            host.enter(|e| e.write(*fe, rh, data)).map(Res::Count)
        }
        Op::Read { len, fe, .. } => {
            let rh = handles[cur].as_mut().expect("real handle");
            host.enter(|e| e.read(*fe, rh, *len as usize)).map(Res::Data)
        }
        Op::Seek { whence, off, fe, .. } => {
            let rh = handles[cur].as_mut().expect("real handle");
            let pos = match whence {
                Whence::Start => SeekFrom::Start(off.unsigned_abs() as u64),
                Whence::Cur => SeekFrom::Current(*off as i64),
                Whence::End => SeekFrom::End(*off as i64),
            };
            host.enter(|e| e.seek(*fe, rh, pos)).map(Res::Pos)
        }
        Op::SetLen { len, fe, .. } => {
            let rh = handles[cur].as_mut().expect("real handle");
            host.enter(|e| e.set_len(*fe, rh, *len as u64)).map(|_| Res::Unit)
        }
        Op::HandleLen { fe, .. } => {
            let rh = handles[cur].as_mut().expect("real handle");
            host.enter(|e| e.handle_len(*fe, rh)).map(Res::Len)
        }
        Op::SyncAll { fe, .. } => {
            let rh = handles[cur].as_mut().expect("real handle");
            host.enter(|e| e.sync_all(*fe, rh)).map(|_| Res::Unit)
        }
        Op::SyncData { fe, .. } => {
            let rh = handles[cur].as_mut().expect("real handle");
            host.enter(|e| e.sync_data(*fe, rh)).map(|_| Res::Unit)
        }
        Op::SyncDir { path, fe } => host.enter(|e| e.sync_dir(*fe, pth(*path))).map(|_| Res::Unit),
        Op::Rename { from, to, fe } => host.enter(|e| e.rename(*fe, pth(*from), pth(*to))).map(|_| Res::Unit),
        Op::RemoveFile { path, fe } => host.enter(|e| e.remove_file(*fe, pth(*path))).map(|_| Res::Unit),
        Op::CreateDir { path, fe } => host.enter(|e| e.create_dir(*fe, pth(*path))).map(|_| Res::Unit),
        Op::CreateDirAll { path, fe } => host.enter(|e| e.create_dir_all(*fe, pth(*path))).map(|_| Res::Unit),
        Op::RemoveDir { path, fe } => host.enter(|e| e.remove_dir(*fe, pth(*path))).map(|_| Res::Unit),
        Op::RemoveDirAll { path, fe } => host.enter(|e| e.remove_dir_all(*fe, pth(*path))).map(|_| Res::Unit),
        Op::ReadDir { path, fe } => host.enter(|e| e.read_dir(*fe, pth(*path))).map(Res::Names),
        Op::Metadata { path, fe } => host.enter(|e| e.metadata(*fe, pth(*path))).map(|(f, d, len)| match (f, d) {
            (true, false) => Res::Stat(Stat::File(len)),
            (false, true) => Res::Stat(Stat::Dir),
            _ => Res::Names(vec![format!("inconsistent metadata is_file={f} is_dir={d}")]),
        }),
        Op::Exists { path, fe } => host.enter(|e| e.exists(*fe, pth(*path))).map(Res::Bool),
        Op::ReadFile { path, fe } => host.enter(|e| e.read_file(*fe, pth(*path))).map(Res::Data),
        Op::WriteFile { path, fe, .. } => host.enter(|e| e.write_file(*fe, pth(*path), data)).map(|_| Res::Unit),
        Op::Advance { ms } => {
            host.advance(Duration::from_millis(*ms as u64));
            Ok(Res::Unit)
        }
    }
}

fn file_len_at(tree: &Tree, p: &str) -> u64 {
    tree.lookup(p)
        .filter(|i| !tree.is_dir(*i))
        .map(|i| tree.file(i).len() as u64)
        .unwrap_or(0)
}

/// Execute one (concretised) op on the reference model: what a plain POSIX
/// tree returns, plus [`Last`].  Mirrors [`exec_real`]'s handle-table
/// conventions (`Open` replaces the slot on success and empties it otherwise).
pub fn exec_model(tree: &mut Tree, handles: &mut [Option<MHandle>], op: &Op, cur: usize, data: &[u8]) -> (Result<Res, MErr>, Last) {
    let nslots = handles.len().max(1);
    let slot_of = |s: u8| (s as usize) % nslots;
    let mut last = Last::default();
    let res = match op {
        Op::Open { slot, path, fl, .. } => {
            let s = slot_of(*slot);
            let p = pth(*path);
            handles[s] = None;
            let old_len = file_len_at(tree, p);
            match tree.open(p, mflags(*fl)) {
                Ok(o) => {
                    last = Last {
                        ino: Some(o.ino),
                        created: o.created,
                        old_len,
                        new_len: tree.file(o.ino).len() as u64,
                        ..Default::default()
                    };
                    handles[s] = Some(Tree::handle(p, o.ino, mflags(*fl)));
                    Ok(Res::Unit)
                }
                Err(e) => Err(e),
            }
        }
        Op::Close { slot } => {
            handles[slot_of(*slot)] = None;
            Ok(Res::Unit)
        }
        Op::WriteAt { off, .. } => {
            let mh = handles[cur].as_mut().expect("model handle");
            if mh.writable {
                let old_len = tree.file(mh.ino).len() as u64;
                let n = tree.pwrite(mh.ino, *off as u64, data);
                last = Last {
                    ino: Some(mh.ino),
                    old_len,
                    new_len: tree.file(mh.ino).len() as u64,
                    off: *off as u64,
                    ..Default::default()
                };
                Ok(Res::Count(n))
            } else {
                Err(not_writable())
            }
        }
        Op::ReadAt { off, len, .. } => {
            let mh = handles[cur].as_mut().expect("model handle");
            if mh.readable {
                Ok(Res::Data(tree.pread(mh.ino, *off as u64, *len as usize)))
            } else {
                Err(not_readable())
            }
        }
        Op::Write { .. } => {
            let mh = handles[cur].as_mut().expect("model handle");
            if mh.writable {
                let off = if mh.append {
                    tree.file(mh.ino).len() as u64
                } else {
                    mh.cursor
                };
                let old_len = tree.file(mh.ino).len() as u64;
                let n = tree.pwrite(mh.ino, off, data);
                last = Last {
                    ino: Some(mh.ino),
                    old_len,
                    new_len: tree.file(mh.ino).len() as u64,
                    off,
                    ..Default::default()
                };
                // POSIX: a zero-length write has no effect (cursor included;
                // with O_APPEND the offset is only moved by an actual write)
                if n > 0 {
                    mh.cursor = off + n as u64;
                }
                Ok(Res::Count(n))
            } else {
                Err(not_writable())
            }
        }
        Op::Read { len, .. } => {
            let mh = handles[cur].as_mut().expect("model handle");
            if mh.readable {
                let d = tree.pread(mh.ino, mh.cursor, *len as usize);
                mh.cursor += d.len() as u64;
                Ok(Res::Data(d))
            } else {
                Err(not_readable())
            }
        }
        Op::Seek { whence, off, .. } => {
            let mh = handles[cur].as_mut().expect("model handle");
            let target: i64 = match whence {
                Whence::Start => off.unsigned_abs() as i64,
                Whence::Cur => mh.cursor as i64 + *off as i64,
                Whence::End => tree.file(mh.ino).len() as i64 + *off as i64,
            };
            if target < 0 {
                Err(MErr {
                    situation: "seek-before-start",
                    kind: pm::EINVAL,
                })
            } else {
                mh.cursor = target as u64;
                Ok(Res::Pos(target as u64))
            }
        }
        Op::SetLen { len, .. } => {
            let mh = handles[cur].as_mut().expect("model handle");
            if mh.writable {
                let old_len = tree.file(mh.ino).len() as u64;
                tree.truncate(mh.ino, *len as u64);
                last = Last {
                    ino: Some(mh.ino),
                    old_len,
                    new_len: *len as u64,
                    off: old_len,
                    ..Default::default()
                };
                Ok(Res::Unit)
            } else {
                Err(not_writable())
            }
        }
        Op::HandleLen { .. } => {
            let mh = handles[cur].as_ref().expect("model handle");
            Ok(Res::Len(tree.file(mh.ino).len() as u64))
        }
        Op::SyncAll { .. } | Op::SyncData { .. } => Ok(Res::Unit),
        Op::SyncDir { path, .. } => {
            // turmoil-specific call (= open(dir) + fsync): Ok on a directory,
            // error otherwise; no std-documented kind
            match tree.stat(pth(*path)) {
                Ok(Stat::Dir) => Ok(Res::Unit),
                Ok(Stat::File(_)) => Err(MErr {
                    situation: "not-a-directory",
                    kind: None,
                }),
                Err(e) => Err(MErr {
                    situation: e.situation,
                    kind: None,
                }),
            }
        }
        Op::Rename { from, to, .. } => tree.rename(pth(*from), pth(*to)).map(|rep| {
            last.replaced = rep;
            Res::Unit
        }),
        Op::RemoveFile { path, .. } => tree.unlink(pth(*path)).map(|_| Res::Unit),
        Op::CreateDir { path, .. } => tree.mkdir(pth(*path)).map(|_| Res::Unit),
        Op::CreateDirAll { path, .. } => tree.mkdir_all(pth(*path)).map(|_| Res::Unit),
        Op::RemoveDir { path, .. } => tree.rmdir(pth(*path)).map(|_| Res::Unit),
        Op::RemoveDirAll { path, .. } => tree.rmdir_all(pth(*path)).map(|_| Res::Unit),
        Op::ReadDir { path, .. } => tree.readdir(pth(*path)).map(Res::Names),
        Op::Metadata { path, .. } => tree.stat(pth(*path)).map(Res::Stat),
        Op::Exists { path, .. } => Ok(Res::Bool(tree.lookup(pth(*path)).is_some())),
        Op::ReadFile { path, .. } => match tree.resolve(pth(*path)) {
            Err(e) => Err(e),
            Ok(i) if tree.is_dir(i) => Err(MErr {
                situation: "read-on-directory",
                kind: None,
            }),
            Ok(i) => Ok(Res::Data(tree.file(i).clone())),
        },
        Op::WriteFile { path, .. } => {
            let p = pth(*path);
            let fl = Flags {
                write: true,
                create: true,
                truncate: true,
                ..Default::default()
            };
            let old_len = file_len_at(tree, p);
            tree.open(p, fl).map(|o| {
                tree.pwrite(o.ino, 0, data);
                last = Last {
                    ino: Some(o.ino),
                    created: o.created,
                    old_len,
                    new_len: data.len() as u64,
                    ..Default::default()
                };
                Res::Unit
            })
        }
        Op::Advance { .. } => Ok(Res::Unit),
    };
    (res, last)
}

/// After an `Open` was executed on both sides: a slot is only kept if both
/// sides opened it.
pub fn reconcile_open(host: &mut Host, rh: &mut [Option<Handle>], mh: &mut [Option<MHandle>], slot: u8) {
    let s = (slot as usize) % rh.len().max(1);
    if rh[s].is_some() != mh[s].is_some() {
        if let Some(h) = rh[s].take() {
            host.enter(|e| e.close(h));
        }
        mh[s] = None;
    }
}

/// What a lock-step interpreter needs from "the real side" of one host.  The
/// direct implementation is [`RealHost`]; the Sim-mode implementation of C07
/// forwards every call to the software running inside a `turmoil::Sim` host.
pub trait RealBackend {
    /// Execute one concretised op (see [`exec_real`]).
    fn exec(&mut self, op: &Op, cur: usize, data: &[u8]) -> io::Result<Res>;
    /// Scan the whole universe through the std shim.
    fn scan(&mut self) -> Vec<(bool, Seen)>;
    fn has_slot(&self, slot: usize) -> bool;
    fn close_slot(&mut self, slot: usize);
    /// Seek the handle in `slot` to an absolute position (cursor resync).
    fn seek_slot(&mut self, slot: usize, pos: u64);
    /// Crash the host: all handles of the dead software are gone, the
    /// filesystem keeps its durable image.  After this call the backend is
    /// ready for more ops (Sim mode: the host has been bounced).
    fn crash(&mut self);
    /// Close everything (end of the case).
    fn shutdown(&mut self);
}

/// [`reconcile_open`] for a [`RealBackend`].
pub fn reconcile_open_backend(real: &mut dyn RealBackend, mh: &mut [Option<MHandle>], slot: u8) {
    let s = (slot as usize) % mh.len().max(1);
    if real.has_slot(s) != mh[s].is_some() {
        real.close_slot(s);
        mh[s] = None;
    }
}

impl RealBackend for RealHost {
    fn exec(&mut self, op: &Op, cur: usize, data: &[u8]) -> io::Result<Res> {
        exec_real(&mut self.host, &mut self.handles, op, cur, data)
    }
    fn scan(&mut self) -> Vec<(bool, Seen)> {
        self.host.enter(scan_real)
    }
    fn has_slot(&self, slot: usize) -> bool {
        self.handles[slot].is_some()
    }
    fn close_slot(&mut self, slot: usize) {
        if let Some(h) = self.handles[slot].take() {
            self.host.enter(|e| e.close(h));
        }
    }
    fn seek_slot(&mut self, slot: usize, pos: u64) {
        if let Some(rh) = self.handles[slot].as_mut() {
            let _ = self.host.enter(|e| e.seek(Fe::Std, rh, SeekFrom::Start(pos)));
        }
    }
    fn crash(&mut self) {
        self.host.crash();
        // the software that held the handles is dead; dropping a File after
        // the crash only removes its fd from the open-handle table
        let hs: Vec<Handle> = self.handles.iter_mut().filter_map(|s| s.take()).collect();
        self.host.enter(|e| {
            for h in hs {
                e.close(h);
            }
        });
    }
    fn shutdown(&mut self) {
        RealHost::shutdown(self)
    }
}

/// A real host (one `Fs` + io_uring state) with its handle table.
pub struct RealHost {
    pub host: Host,
    pub handles: Vec<Option<Handle>>,
}

impl RealHost {
    pub fn new(host: Host) -> Self {
        RealHost {
            host,
            handles: (0..NSLOTS).map(|_| None).collect(),
        }
    }
    pub fn exec(&mut self, op: &Op, cur: usize, data: &[u8]) -> io::Result<Res> {
        exec_real(&mut self.host, &mut self.handles, op, cur, data)
    }
    pub fn scan(&mut self) -> Vec<(bool, Seen)> {
        self.host.enter(scan_real)
    }
    /// Close every handle and the ring while entered.
    pub fn shutdown(&mut self) {
        let hs: Vec<Handle> = self.handles.iter_mut().filter_map(|s| s.take()).collect();
        self.host.enter(|e| {
            for h in hs {
                e.close(h);
            }
        });
        self.host.shutdown();
    }
}

/// The reference model of one host with its handle table and write counter.
#[derive(Clone, Debug, Default)]
pub struct ModelHost {
    pub tree: Tree,
    pub handles: Vec<Option<MHandle>>,
    /// number of writing ops so far (payload seed)
    pub writes: u32,
}

impl ModelHost {
    pub fn new() -> Self {
        ModelHost {
            tree: Tree::new(),
            handles: (0..NSLOTS).map(|_| None).collect(),
            writes: 0,
        }
    }
    pub fn concretize(&self, op: &Op) -> Op {
        concretize(&self.tree, op)
    }
    /// Resolved slot of a handle op, `None` if the op is not a handle op, the
    /// slot is empty or the handle outlived its path.
    pub fn usable_slot(&self, op: &Op) -> Option<Option<usize>> {
        let raw = op.handle_slot()?;
        let s = resolve_slot(&self.tree, &self.handles, raw);
        match &self.handles[s] {
            Some(mh) if self.tree.lookup(&mh.path) == Some(mh.ino) => Some(Some(s)),
            _ => Some(None),
        }
    }
    /// Next payload for a writing op (advances the write counter).
    pub fn next_payload(&mut self, op: &Op) -> Vec<u8> {
        match op.write_len() {
            Some(n) => {
                self.writes += 1;
                payload(self.writes, n)
            }
            None => Vec::new(),
        }
    }
    pub fn apply(&mut self, op: &Op, cur: usize, data: &[u8]) -> (Result<Res, MErr>, Last) {
        exec_model(&mut self.tree, &mut self.handles, op, cur, data)
    }
    pub fn scan(&self) -> Vec<(bool, Seen)> {
        scan_model(&self.tree)
    }
}

// ---------------------------------------------------------------------------
// generators

pub fn fe_strategy() -> impl Strategy<Value = Fe> {
    prop_oneof![5 => Just(Fe::Std), 3 => Just(Fe::Tokio), 3 => Just(Fe::Uring)]
}

pub const SEL_FILE: u8 = 0;
pub const SEL_DIR: u8 = 1;
pub const SEL_FREE: u8 = 2;
/// state-relative selector: k-th existing file / dir / free name
pub fn sel(kind: u8) -> impl Strategy<Value = u8> {
    (0u8..8).prop_map(move |i| 13 + i * 3 + kind)
}
/// paths for file ops
pub fn file_path() -> impl Strategy<Value = u8> {
    prop_oneof![
        8 => sel(SEL_FILE),
        4 => sel(SEL_FREE),
        3 => (0u16..u16::MAX).prop_map(|i| [4u8, 5, 6, 7, 8, 9, 10, 11][pick(i, 8)]),
        1 => 0u8..13,
    ]
}
pub fn rename_target() -> impl Strategy<Value = u8> {
    prop_oneof![
        6 => sel(SEL_FREE),
        3 => sel(SEL_FILE),
        3 => (0u16..u16::MAX).prop_map(|i| [4u8, 5, 6, 7, 8, 9, 10, 11][pick(i, 8)]),
        1 => 0u8..13,
    ]
}
/// existing file most of the time
pub fn existing_file() -> impl Strategy<Value = u8> {
    prop_oneof![
        10 => sel(SEL_FILE),
        2 => (0u16..u16::MAX).prop_map(|i| [4u8, 5, 6, 7, 8, 9, 10, 11][pick(i, 8)]),
        1 => 0u8..13,
    ]
}
/// paths that are usually directories
pub fn dir_path() -> impl Strategy<Value = u8> {
    prop_oneof![
        6 => sel(SEL_DIR),
        2 => Just(0u8),
        3 => (0u16..u16::MAX).prop_map(|i| [1u8, 2, 3, 12][pick(i, 4)]),
        1 => 0u8..13,
    ]
}
pub fn new_dir_path() -> impl Strategy<Value = u8> {
    prop_oneof![
        6 => (0u16..u16::MAX).prop_map(|i| [1u8, 2, 3, 12][pick(i, 4)]),
        2 => sel(SEL_FREE),
        1 => 0u8..13,
    ]
}
pub fn any_path() -> impl Strategy<Value = u8> {
    prop_oneof![2 => 0u8..13, 1 => sel(SEL_FILE), 1 => sel(SEL_DIR)]
}

pub fn flags_strategy() -> impl Strategy<Value = OpenFlags> {
    prop_oneof![
        // common, valid shapes
        6 => Just(OpenFlags { read: true, write: true, create: true, ..Default::default() }),
        2 => Just(OpenFlags { write: true, create: true, truncate: true, ..Default::default() }),
        2 => Just(OpenFlags { read: true, ..Default::default() }),
        2 => Just(OpenFlags { read: true, write: true, ..Default::default() }),
        2 => Just(OpenFlags { read: true, append: true, create: true, ..Default::default() }),
        1 => Just(OpenFlags { read: true, write: true, create_new: true, ..Default::default() }),
        1 => Just(OpenFlags { read: true, write: true, truncate: true, ..Default::default() }),
        // every combination
        4 => (any::<bool>(), any::<bool>(), any::<bool>(), any::<bool>(), any::<bool>(), any::<bool>())
            .prop_map(|(read, write, append, truncate, create, create_new)| OpenFlags { read, write, append, truncate, create, create_new }),
    ]
}

pub fn op_strategy() -> impl Strategy<Value = Op> {
    let slot = 0u8..NSLOTS as u8;
    let small = 0u8..12;
    let len = prop_oneof![1 => Just(0u8), 10 => 1u8..9];
    prop_oneof![
        18 => (slot.clone(), file_path(), fe_strategy(), flags_strategy()).prop_map(|(slot, path, fe, fl)| Op::Open { slot, path, fe, fl }),
        1 => slot.clone().prop_map(|slot| Op::Close { slot }),
        12 => (slot.clone(), small.clone(), len.clone(), fe_strategy()).prop_map(|(slot, off, len, fe)| Op::WriteAt { slot, off, len, fe }),
        6 => (slot.clone(), small.clone(), 0u8..16, fe_strategy()).prop_map(|(slot, off, len, fe)| Op::ReadAt { slot, off, len, fe }),
        6 => (slot.clone(), len.clone(), fe_strategy()).prop_map(|(slot, len, fe)| Op::Write { slot, len, fe }),
        4 => (slot.clone(), 0u8..16, fe_strategy()).prop_map(|(slot, len, fe)| Op::Read { slot, len, fe }),
        3 => (slot.clone(), prop_oneof![Just(Whence::Start), Just(Whence::Cur), Just(Whence::End)], -6i8..10, fe_strategy())
            .prop_map(|(slot, whence, off, fe)| Op::Seek { slot, whence, off, fe }),
        6 => (slot.clone(), 0u8..14, fe_strategy()).prop_map(|(slot, len, fe)| Op::SetLen { slot, len, fe }),
        1 => (slot.clone(), fe_strategy()).prop_map(|(slot, fe)| Op::HandleLen { slot, fe }),
        7 => (slot.clone(), fe_strategy()).prop_map(|(slot, fe)| Op::SyncAll { slot, fe }),
        3 => (slot.clone(), fe_strategy()).prop_map(|(slot, fe)| Op::SyncData { slot, fe }),
        8 => (dir_path(), fe_strategy()).prop_map(|(path, fe)| Op::SyncDir { path, fe }),
        10 => (existing_file(), rename_target(), fe_strategy()).prop_map(|(from, to, fe)| Op::Rename { from, to, fe }),
        2 => (any_path(), any_path(), fe_strategy()).prop_map(|(from, to, fe)| Op::Rename { from, to, fe }),
        5 => (existing_file(), fe_strategy()).prop_map(|(path, fe)| Op::RemoveFile { path, fe }),
        3 => (new_dir_path(), fe_strategy()).prop_map(|(path, fe)| Op::CreateDir { path, fe }),
        2 => (new_dir_path(), fe_strategy()).prop_map(|(path, fe)| Op::CreateDirAll { path, fe }),
        2 => (dir_path(), fe_strategy()).prop_map(|(path, fe)| Op::RemoveDir { path, fe }),
        1 => (dir_path(), fe_strategy()).prop_map(|(path, fe)| Op::RemoveDirAll { path, fe }),
        2 => (dir_path(), fe_strategy()).prop_map(|(path, fe)| Op::ReadDir { path, fe }),
        2 => (any_path(), fe_strategy()).prop_map(|(path, fe)| Op::Metadata { path, fe }),
        1 => (any_path(), fe_strategy()).prop_map(|(path, fe)| Op::Exists { path, fe }),
        2 => (existing_file(), fe_strategy()).prop_map(|(path, fe)| Op::ReadFile { path, fe }),
        4 => (file_path(), len, fe_strategy()).prop_map(|(path, len, fe)| Op::WriteFile { path, len, fe }),
        2 => (0u16..5000).prop_map(|ms| Op::Advance { ms }),
    ]
}

/// One op on host 0 (80 %) or host 1.
pub fn step_strategy() -> impl Strategy<Value = Step> {
    (prop_oneof![4 => Just(0u8), 1 => Just(1u8)], op_strategy()).prop_map(|(host, op)| Step { host, op })
}


/// Clamp a byte-decoded step into the domain of `step_strategy` (used by the
/// coverage-guided fuzz targets of C07 / C10).
pub fn sanitize_step(st: &mut Step) {
    st.host %= 2;
    let sl = |s: &mut u8| *s %= NSLOTS as u8;
    let pa = |p: &mut u8| *p %= 13 + 8 * 3;
    let wl = |l: &mut u8| *l %= 9;
    match &mut st.op {
        Op::Open { slot, path, .. } => {
            sl(slot);
            pa(path);
        }
        Op::Close { slot } => sl(slot),
        Op::WriteAt { slot, off, len, .. } => {
            sl(slot);
            *off %= 12;
            wl(len);
        }
        Op::ReadAt { slot, off, len, .. } => {
            sl(slot);
            *off %= 12;
            *len %= 16;
        }
        Op::Write { slot, len, .. } => {
            sl(slot);
            wl(len);
        }
        Op::Read { slot, len, .. } => {
            sl(slot);
            *len %= 16;
        }
        Op::Seek { slot, off, .. } => {
            sl(slot);
            *off = (*off as i16).rem_euclid(16) as i8 - 6;
        }
        Op::SetLen { slot, len, .. } => {
            sl(slot);
            *len %= 14;
        }
        Op::HandleLen { slot, .. } | Op::SyncAll { slot, .. } | Op::SyncData { slot, .. } => sl(slot),
        Op::Rename { from, to, .. } => {
            pa(from);
            pa(to);
        }
        Op::SyncDir { path, .. }
        | Op::RemoveFile { path, .. }
        | Op::CreateDir { path, .. }
        | Op::CreateDirAll { path, .. }
        | Op::RemoveDir { path, .. }
        | Op::RemoveDirAll { path, .. }
        | Op::ReadDir { path, .. }
        | Op::Metadata { path, .. }
        | Op::Exists { path, .. }
        | Op::ReadFile { path, .. } => pa(path),
        Op::WriteFile { path, len, .. } => {
            pa(path);
            wl(len);
        }
        Op::Advance { ms } => *ms %= 5000,
    }
}

//! NetWire, controller flavour (used by C13 and C17).
//!
//! `netwire::run` drives *script tasks*; C13/C17 need something else: the
//! check itself holds every socket object and decides, action by action and
//! round by round, what happens next (poll a pending connect once, drop it,
//! poll `accept` once, run one wire round with a fate per packet ...), so that
//! an action can be placed while the other end is in a chosen TCP state.
//!
//! `World` installs a `turmoil_net::Net` with arbitrary address lists per
//! host and offers:
//!
//! * `pin(h)` / `Held<T>` — every socket call must run with the owning host
//!   pinned (`turmoil_net::set_current`), **including `Drop`**; `Held<T>`
//!   pins its host before dropping the wrapped value;
//! * `step(policy)` — one round = one `egress_all` (= one retransmit tick on
//!   every host), every packet classified by `netwire::Tracker`, recorded as a
//!   `netwire::PktRec`, given a `Fate` by the policy, then the packets due in
//!   this round are delivered in the policy's order.  Returns the ids
//!   delivered, in order;
//! * `counts(h)` (hook H2), `set_eph(h, range)` (hook H3), `rows(h)` (netstat).
//!
//! No tokio runtime, no clock, no RNG: all futures are polled by hand with a
//! no-op waker.

use super::netwire::{state_name, Fate, PktRec, SockRow, Tracker};
use std::cell::Cell;
use std::collections::BTreeMap;
use std::future::Future;
use std::net::IpAddr;
use std::pin::Pin;
use std::task::{Context, Poll, Waker};
use turmoil_net::{EnterGuard, HostId, KernelConfig, Net, Packet, Proto};

thread_local! {
    static NET_ALIVE: Cell<bool> = const { Cell::new(false) };
}

/// A value that belongs to a host: dropped with that host pinned.
pub struct Held<T> {
    host: HostId,
    pub h: usize,
    val: Option<T>,
}
impl<T> Held<T> {
    pub fn get(&self) -> &T {
        turmoil_net::set_current(self.host);
        self.val.as_ref().unwrap()
    }
    pub fn get_mut(&mut self) -> &mut T {
        turmoil_net::set_current(self.host);
        self.val.as_mut().unwrap()
    }
    /// Take the value out (the caller is responsible for pinning when it drops it).
    pub fn into_inner(mut self) -> T {
        self.val.take().unwrap()
    }
}
impl<T> Drop for Held<T> {
    fn drop(&mut self) {
        if let Some(v) = self.val.take() {
            if NET_ALIVE.with(|a| a.get()) {
                turmoil_net::set_current(self.host);
                drop(v);
            } else {
                // the Net is gone (teardown out of order while unwinding): the
                // socket's Drop would panic inside a Drop; leak it instead
                std::mem::forget(v);
            }
        }
    }
}

pub trait Policy {
    fn fate(&mut self, rec: &PktRec, tr: &Tracker) -> Fate;
    fn order(&mut self, _ids: &mut Vec<usize>, _pkts: &[PktRec]) {}
}

/// Deliver everything at once, in emission order.
pub struct AllNow;
impl Policy for AllNow {
    fn fate(&mut self, _rec: &PktRec, _tr: &Tracker) -> Fate {
        Fate::Now
    }
}

#[derive(Clone, Copy, Debug, Default)]
pub struct StepStat {
    pub emitted: usize,
    pub delivered: usize,
    pub held: usize,
}

pub struct World {
    pub nhosts: usize,
    ids: Vec<HostId>,
    pub addrs: Vec<Vec<IpAddr>>,
    ipmap: BTreeMap<IpAddr, usize>,
    pub tracker: Tracker,
    pub pkts: Vec<PktRec>,
    raw: Vec<Option<Packet>>,
    held: Vec<(u32, usize)>,
    /// number of completed rounds (= index of the next round)
    pub round: u32,
    out: Vec<Packet>,
    guard: Option<EnterGuard>,
}

impl Drop for World {
    fn drop(&mut self) {
        self.raw.clear();
        NET_ALIVE.with(|a| a.set(false));
        self.guard.take();
    }
}

impl World {
    /// `hosts[h]` = the addresses of host `h` (at least one; loopback is implicit).
    pub fn new(k: KernelConfig, hosts: &[Vec<IpAddr>]) -> World {
        let mut net = Net::with_config(k);
        let mut ids = Vec::new();
        let mut ipmap = BTreeMap::new();
        for (h, a) in hosts.iter().enumerate() {
            ids.push(net.add_host(a.clone()));
            for ip in a {
                ipmap.insert(*ip, h);
            }
        }
        let guard = net.enter();
        NET_ALIVE.with(|a| a.set(true));
        World {
            nhosts: hosts.len(),
            ids,
            addrs: hosts.to_vec(),
            ipmap,
            tracker: Tracker::default(),
            pkts: Vec::new(),
            raw: Vec::new(),
            held: Vec::new(),
            round: 0,
            out: Vec::new(),
            guard: Some(guard),
        }
    }
    pub fn pin(&self, h: usize) {
        turmoil_net::set_current(self.ids[h]);
    }
    pub fn hold<T>(&self, h: usize, v: T) -> Held<T> {
        Held { host: self.ids[h], h, val: Some(v) }
    }
    /// Host owning `ip` (None: loopback or unknown).
    pub fn owner(&self, ip: IpAddr) -> Option<usize> {
        self.ipmap.get(&ip).copied()
    }
    pub fn in_flight(&self) -> usize {
        self.held.len()
    }
    pub fn counts(&self, h: usize) -> (usize, usize, usize) {
        turmoil_net::verif::table_counts(self.addrs[h][0])
    }
    pub fn set_eph(&self, h: usize, range: std::ops::RangeInclusive<u16>) {
        turmoil_net::verif::set_ephemeral_range(self.addrs[h][0], range);
    }
    pub fn rows(&self, h: usize) -> Vec<SockRow> {
        turmoil_net::netstat(self.addrs[h][0])
            .entries
            .iter()
            .map(|e| SockRow {
                tcp: e.proto == Proto::Tcp,
                recv_q: e.recv_q,
                send_q: e.send_q,
                local: e.local,
                peer: e.peer,
                state: e.state.map(state_name),
            })
            .collect()
    }

    /// One round.  Returns the ids delivered (in order) and counters.
    pub fn step(&mut self, pol: &mut dyn Policy) -> (Vec<usize>, StepStat) {
        let r = self.round;
        self.out.clear();
        self.guard.as_ref().unwrap().egress_all(&mut self.out);
        let emitted = self.out.len();
        let mut release: Vec<usize> = Vec::new();
        self.held.retain(|(due, id)| {
            if *due <= r {
                release.push(*id);
                false
            } else {
                true
            }
        });
        release.sort();
        let out = std::mem::take(&mut self.out);
        for p in out {
            let id = self.pkts.len();
            let (kind, src, dst, tcp, len) = self.tracker.on_emit(&p);
            let mut rec = PktRec {
                id,
                round: r,
                src,
                dst,
                src_host: self.owner(src.ip()),
                dst_host: self.owner(dst.ip()),
                kind,
                tcp,
                len,
                fate: Fate::Now,
                delivered: None,
                overtaken_by: 0,
            };
            rec.fate = pol.fate(&rec, &self.tracker);
            match rec.fate {
                Fate::Now | Fate::Hold(0) => {
                    rec.fate = Fate::Now;
                    release.push(id);
                    self.raw.push(Some(p));
                }
                Fate::Hold(k) => {
                    self.held.push((r + k, id));
                    self.raw.push(Some(p));
                }
                Fate::Drop => self.raw.push(None),
            }
            self.pkts.push(rec);
        }
        pol.order(&mut release, &self.pkts);
        let mut delivered = Vec::new();
        for id in release {
            if let Some(p) = self.raw[id].take() {
                self.pkts[id].delivered = Some(r);
                let (sa, da) = (self.pkts[id].src, self.pkts[id].dst);
                for (_, hid) in self.held.iter() {
                    if *hid < id && self.pkts[*hid].src == sa && self.pkts[*hid].dst == da {
                        self.pkts[*hid].overtaken_by += 1;
                    }
                }
                self.tracker.on_deliver(&self.pkts[id]);
                self.guard.as_ref().unwrap().deliver(p);
                delivered.push(id);
            }
        }
        self.round = r + 1;
        let st = StepStat { emitted, delivered: delivered.len(), held: self.held.len() };
        (delivered, st)
    }
}

/// Poll a future once with a no-op waker.
pub fn poll_once<F: Future + ?Sized>(f: Pin<&mut F>) -> Poll<F::Output> {
    let mut cx = Context::from_waker(Waker::noop());
    f.poll(&mut cx)
}

/// Drive a future that is expected to be ready at once (bind, UDP send ...).
pub fn now_or_never<F: Future>(f: F) -> Option<F::Output> {
    let mut f = std::pin::pin!(f);
    match poll_once(f.as_mut()) {
        Poll::Ready(v) => Some(v),
        Poll::Pending => None,
    }
}

//! Shared traffic harness for the link-state properties (C03, C08): every
//! host sends numbered UDP datagrams (and optional TCP chunks / connect
//! probes) to every peer each step, controller calls are issued from the Sim
//! handle or from host code, and everything is appended to one global event
//! log in execution order.

use crate::drivers::sel::{self, poll_once, Sel};
use crate::sel2;
use serde::{Deserialize, Serialize};
use std::cell::{Cell, RefCell};
use std::collections::BTreeMap;
use std::rc::Rc;
use std::time::Duration;
use tokio::io::{AsyncReadExt, AsyncWriteExt};
use turmoil::{Datagram, Protocol, Segment};

#[derive(Clone, Copy, Debug, Serialize, Deserialize, PartialEq, Eq, PartialOrd, Ord)]
pub enum Kind {
    Partition,
    PartitionOneway,
    Repair,
    RepairOneway,
    Hold,
    Release,
}

#[derive(Clone, Debug, Serialize, Deserialize)]
pub struct CtlEv {
    /// offset (in steps) after the warm-up
    pub step: u32,
    /// None = from the Sim handle between steps; Some(h) = from host h's code
    pub by: Option<usize>,
    pub kind: Kind,
    pub a: Sel,
    pub b: Sel,
}

#[derive(Clone, Copy, Debug, PartialEq, Eq, PartialOrd, Ord, Hash)]
pub enum P {
    Udp,
    Tcp,
    Syn,
}

/// (proto, src, dst, seq)
pub type MsgId = (P, usize, usize, u32);

#[derive(Clone, Debug)]
pub enum Ev {
    Send { id: MsgId, step: u64 },
    Recv { id: MsgId },
    Ctl { kind: Kind, pairs: Vec<(usize, usize)>, step: u64, by_host: bool, snapshot: Option<Vec<MsgId>> },
    ProbeResult { id: MsgId, ok: bool, kind: String },
    /// the test delivered this message by hand through the links iterator
    Manual { id: MsgId, step: u64 },
}

#[derive(Clone, Default)]
pub struct Shared {
    pub step: Rc<Cell<u64>>,
    pub log: Rc<RefCell<Vec<Ev>>>,
    pub errors: Rc<RefCell<Vec<String>>>,
    pub ready: Rc<Cell<usize>>,
}

pub const UDP_PORT: u16 = 9000;
pub const TCP_PORT: u16 = 9001;
pub const PROBE_PORT: u16 = 9002;

pub fn enc(p: P, src: usize, dst: usize, seq: u32) -> [u8; 12] {
    let mut b = [0u8; 12];
    b[0] = match p {
        P::Udp => 1,
        P::Tcp => 2,
        P::Syn => 3,
    };
    b[1] = src as u8;
    b[2] = dst as u8;
    b[4..8].copy_from_slice(&seq.to_le_bytes());
    b[8..12].copy_from_slice(&(seq ^ 0xA5A5_5A5A).to_le_bytes());
    b
}
pub fn dec(b: &[u8]) -> Option<MsgId> {
    if b.len() != 12 {
        return None;
    }
    let p = match b[0] {
        1 => P::Udp,
        2 => P::Tcp,
        _ => return None,
    };
    let seq = u32::from_le_bytes(b[4..8].try_into().unwrap());
    if u32::from_le_bytes(b[8..12].try_into().unwrap()) != seq ^ 0xA5A5_5A5A {
        return None;
    }
    Some((p, b[1] as usize, b[2] as usize, seq))
}

#[derive(Clone)]
pub struct HostPlan {
    pub me: usize,
    pub n: usize,
    pub v6: bool,
    pub warm: u64,
    pub traffic_end: u64,
    pub tcp: bool,
    /// absolute step -> host-issued controller calls
    pub ctl: BTreeMap<u64, Vec<CtlEv>>,
    /// absolute step -> probe targets
    pub probes: BTreeMap<u64, Vec<usize>>,
    /// None: send to every peer every step; Some: absolute step -> peers
    pub sends: Option<BTreeMap<u64, Vec<usize>>>,
}

pub fn host_ctl(c: &CtlEv, n: usize) {
    let lookup = |name: String| turmoil::lookup(name);
    let a = sel::arg(&c.a, n, &lookup);
    let b = sel::arg(&c.b, n, &lookup);
    match c.kind {
        Kind::Partition => sel2!(a, b, |x, y| turmoil::partition(x, y)),
        Kind::PartitionOneway => sel2!(a, b, |x, y| turmoil::partition_oneway(x, y)),
        Kind::Repair => sel2!(a, b, |x, y| turmoil::repair(x, y)),
        Kind::RepairOneway => sel2!(a, b, |x, y| turmoil::repair_oneway(x, y)),
        Kind::Hold => sel2!(a, b, |x, y| turmoil::hold(x, y)),
        Kind::Release => sel2!(a, b, |x, y| turmoil::release(x, y)),
    }
}

pub async fn host_software(sh: Shared, plan: HostPlan) -> turmoil::Result {
    let me = plan.me;
    let any = if plan.v6 { "::" } else { "0.0.0.0" };
    let udp = Rc::new(turmoil::net::UdpSocket::bind((any, UDP_PORT)).await?);
    let lis = turmoil::net::TcpListener::bind((any, TCP_PORT)).await?;
    let probe_lis = turmoil::net::TcpListener::bind((any, PROBE_PORT)).await?;
    sh.ready.set(sh.ready.get() + 1);

    // UDP receiver
    {
        let (sh, udp) = (sh.clone(), udp.clone());
        tokio::task::spawn_local(async move {
            let mut buf = [0u8; 64];
            loop {
                match udp.recv_from(&mut buf).await {
                    Ok((n, _)) => match dec(&buf[..n]) {
                        Some(id) if id.2 == me => sh.log.borrow_mut().push(Ev::Recv { id }),
                        other => sh.errors.borrow_mut().push(format!("h{me}: bad datagram {other:?}")),
                    },
                    Err(e) => sh.errors.borrow_mut().push(format!("h{me}: recv_from {e}")),
                }
            }
        });
    }
    // probe acceptor: accept and drop
    tokio::task::spawn_local(async move {
        loop {
            if probe_lis.accept().await.is_err() {
                break;
            }
        }
    });
    // persistent TCP: writers keyed by peer
    let writers: Rc<RefCell<BTreeMap<usize, turmoil::net::tcp::OwnedWriteHalf>>> = Default::default();
    let spawn_reader = move |sh: Shared, mut r: turmoil::net::tcp::OwnedReadHalf| {
        tokio::task::spawn_local(async move {
            let mut buf = [0u8; 12];
            loop {
                match r.read_exact(&mut buf).await {
                    Ok(_) => match dec(&buf) {
                        Some(id) if id.2 == me => sh.log.borrow_mut().push(Ev::Recv { id }),
                        other => {
                            sh.errors.borrow_mut().push(format!("h{me}: bad tcp chunk {other:?}"));
                            break;
                        }
                    },
                    Err(_) => break,
                }
            }
            std::future::pending::<()>().await;
        });
    };
    if plan.tcp {
        // accept from lower-numbered hosts, connect to higher-numbered ones
        let (sh2, w2) = (sh.clone(), writers.clone());
        let lookup_peer = move |a: std::net::SocketAddr| -> Option<usize> {
            (0..plan.n).find(|h| turmoil::lookup(format!("h{h}")) == a.ip())
        };
        tokio::task::spawn_local(async move {
            loop {
                match lis.accept().await {
                    Ok((s, from)) => {
                        let Some(peer) = lookup_peer(from) else { continue };
                        let (r, w) = s.into_split();
                        w2.borrow_mut().insert(peer, w);
                        spawn_reader(sh2.clone(), r);
                    }
                    Err(_) => break,
                }
            }
        });
    } else {
        drop(lis);
    }

    // wait until every host has bound
    while sh.ready.get() < plan.n {
        tokio::time::sleep(Duration::from_millis(1)).await;
    }
    if plan.tcp {
        for peer in (me + 1)..plan.n {
            match turmoil::net::TcpStream::connect((format!("h{peer}").as_str(), TCP_PORT)).await {
                Ok(s) => {
                    let (r, w) = s.into_split();
                    writers.borrow_mut().insert(peer, w);
                    let sh3 = sh.clone();
                    let mut r = r;
                    tokio::task::spawn_local(async move {
                        let mut buf = [0u8; 12];
                        loop {
                            match r.read_exact(&mut buf).await {
                                Ok(_) => match dec(&buf) {
                                    Some(id) if id.2 == me => sh3.log.borrow_mut().push(Ev::Recv { id }),
                                    other => {
                                        sh3.errors.borrow_mut().push(format!("h{me}: bad tcp chunk {other:?}"));
                                        break;
                                    }
                                },
                                Err(_) => break,
                            }
                        }
                        std::future::pending::<()>().await;
                    });
                }
                Err(e) => sh.errors.borrow_mut().push(format!("h{me}: warm-up connect to h{peer}: {e}")),
            }
        }
    }

    // main per-step driver
    let mut last = 0u64;
    let mut seq = 0u32;
    let mut probe_seq = 0u32;
    loop {
        let k = sh.step.get();
        if k != last {
            last = k;
            if k > plan.warm {
                if let Some(cs) = plan.ctl.get(&k) {
                    for c in cs {
                        let pairs = sel::pairs(&c.a, &c.b, plan.n);
                        sh.log.borrow_mut().push(Ev::Ctl {
                            kind: c.kind,
                            pairs,
                            step: k,
                            by_host: true,
                            snapshot: None,
                        });
                        host_ctl(c, plan.n);
                    }
                }
                if k <= plan.traffic_end {
                    for peer in 0..plan.n {
                        if peer == me {
                            continue;
                        }
                        if let Some(m) = &plan.sends {
                            if !m.get(&k).map(|v| v.contains(&peer)).unwrap_or(false) {
                                continue;
                            }
                        }
                        let id = (P::Udp, me, peer, seq);
                        sh.log.borrow_mut().push(Ev::Send { id, step: k });
                        if let Err(e) = udp
                            .send_to(&enc(P::Udp, me, peer, seq), (format!("h{peer}").as_str(), UDP_PORT))
                            .await
                        {
                            sh.errors.borrow_mut().push(format!("h{me}: send_to {e}"));
                        }
                        if plan.tcp {
                            let mut ws = writers.borrow_mut();
                            if let Some(w) = ws.get_mut(&peer) {
                                let id = (P::Tcp, me, peer, seq);
                                let chunk = enc(P::Tcp, me, peer, seq);
                                match poll_once(w.write_all(&chunk)).await {
                                    Some(Ok(())) => sh.log.borrow_mut().push(Ev::Send { id, step: k }),
                                    Some(Err(_)) | None => {
                                        // refused by flow control or broken: nothing was sent
                                        ws.remove(&peer);
                                    }
                                }
                            }
                        }
                    }
                    seq += 1;
                    if let Some(ps) = plan.probes.get(&k) {
                        for peer in ps {
                            let id = (P::Syn, me, *peer, probe_seq);
                            probe_seq += 1;
                            sh.log.borrow_mut().push(Ev::Send { id, step: k });
                            let sh4 = sh.clone();
                            let dst = format!("h{peer}");
                            tokio::task::spawn_local(async move {
                                let r = turmoil::net::TcpStream::connect((dst.as_str(), PROBE_PORT)).await;
                                sh4.log.borrow_mut().push(Ev::ProbeResult {
                                    id,
                                    ok: r.is_ok(),
                                    kind: r.as_ref().err().map(|e| format!("{:?}", e.kind())).unwrap_or_default(),
                                });
                            });
                        }
                    }
                }
            }
        }
        tokio::time::sleep(Duration::from_millis(1)).await;
    }
}

pub fn sim_ctl(sim: &turmoil::Sim<'_>, c: &CtlEv, n: usize) {
    let lookup = |name: String| sim.lookup(name);
    let a = sel::arg(&c.a, n, &lookup);
    let b = sel::arg(&c.b, n, &lookup);
    match c.kind {
        Kind::Partition => sel2!(a, b, |x, y| sim.partition(x, y)),
        Kind::PartitionOneway => sel2!(a, b, |x, y| sim.partition_oneway(x, y)),
        Kind::Repair => sel2!(a, b, |x, y| sim.repair(x, y)),
        Kind::RepairOneway => sel2!(a, b, |x, y| sim.repair_oneway(x, y)),
        Kind::Hold => sel2!(a, b, |x, y| sim.hold(x, y)),
        Kind::Release => sel2!(a, b, |x, y| sim.release(x, y)),
    }
}

pub fn snapshot(sim: &turmoil::Sim<'_>, ip2h: &BTreeMap<std::net::IpAddr, usize>) -> Vec<MsgId> {
    let mut out = Vec::new();
    sim.links(|links| {
        for link in links {
            for sent in link {
                let (s, d) = sent.pair();
                match sent.protocol() {
                    Protocol::Udp(Datagram(b)) => {
                        if let Some(id) = dec(b) {
                            out.push(id);
                        }
                    }
                    Protocol::Tcp(Segment::Data(_, b)) => {
                        if let Some(id) = dec(b) {
                            out.push(id);
                        }
                    }
                    Protocol::Tcp(Segment::Syn(_)) if d.port() == PROBE_PORT => {
                        if let (Some(a), Some(b)) = (ip2h.get(&s.ip()), ip2h.get(&d.ip())) {
                            // at most one probe per ordered pair
                            out.push((P::Syn, *a, *b, u32::MAX));
                        }
                    }
                    _ => {}
                }
            }
        }
    });
    out
}


//! A minimal `tracing` subscriber that records every event whose target is
//! `turmoil` (the crate's packet-level trace) as a plain string: no span ids,
//! no wall-clock time, fields in declaration order.

use std::cell::RefCell;
use std::fmt::Write;
use std::rc::Rc;
use std::sync::atomic::{AtomicU64, Ordering};
use tracing::field::{Field, Visit};
use tracing::span::{Attributes, Id, Record};
use tracing::{Event, Metadata, Subscriber};

thread_local! {
    static SINK: RefCell<Option<Rc<RefCell<Vec<String>>>>> = const { RefCell::new(None) };
}

struct Rec;
static NEXT: AtomicU64 = AtomicU64::new(1);

struct V<'a>(&'a mut String);
impl Visit for V<'_> {
    fn record_debug(&mut self, field: &Field, value: &dyn std::fmt::Debug) {
        if field.name() == "message" {
            let _ = write!(self.0, "{value:?} ");
        } else {
            let _ = write!(self.0, "{}={value:?} ", field.name());
        }
    }
}

impl Subscriber for Rec {
    fn enabled(&self, m: &Metadata<'_>) -> bool {
        m.target() == "turmoil"
    }
    fn new_span(&self, _: &Attributes<'_>) -> Id {
        Id::from_u64(NEXT.fetch_add(1, Ordering::Relaxed))
    }
    fn record(&self, _: &Id, _: &Record<'_>) {}
    fn record_follows_from(&self, _: &Id, _: &Id) {}
    fn event(&self, e: &Event<'_>) {
        let mut s = String::new();
        e.record(&mut V(&mut s));
        SINK.with(|k| {
            if let Some(v) = k.borrow().as_ref() {
                v.borrow_mut().push(s.trim_end().to_string());
            }
        });
    }
    fn enter(&self, _: &Id) {}
    fn exit(&self, _: &Id) {}
}

/// Run `f` with the recorder installed on this thread; returns f's result and
/// the recorded events. Events can also be read *during* the run through
/// `snapshot_len`/`with_events`.
pub fn capture<R>(f: impl FnOnce() -> R) -> (R, Vec<String>) {
    let sink = Rc::new(RefCell::new(Vec::new()));
    SINK.with(|k| *k.borrow_mut() = Some(sink.clone()));
    let r = tracing::subscriber::with_default(Rec, f);
    SINK.with(|k| *k.borrow_mut() = None);
    let v = std::mem::take(&mut *sink.borrow_mut());
    (r, v)
}

/// Number of events recorded so far in the active capture.
#[allow(dead_code)]
pub fn len() -> usize {
    SINK.with(|k| k.borrow().as_ref().map(|v| v.borrow().len()).unwrap_or(0))
}

/// Copy of the events recorded since index `from`.
#[allow(dead_code)]
pub fn since(from: usize) -> Vec<String> {
    SINK.with(|k| {
        k.borrow()
            .as_ref()
            .map(|v| v.borrow()[from..].to_vec())
            .unwrap_or_default()
    })
}

pub mod posixfs;

pub mod posixfs;
pub mod durable;

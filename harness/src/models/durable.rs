//! Two-level durability model for C07, taken from the turmoil-fs crate
//! documentation (crate docs "Durability Model", `shim::std::fs` module docs,
//! `File::sync_all`, `sync_dir`, `FsConfig::{sync_probability, block_size}`,
//! `Fs::crash`):
//!
//! * every file inode has a *current* content (kept by the POSIX model
//!   [`crate::models::posixfs::Tree`]) and a *data-durable* content, advanced
//!   to the current content by `sync_all` / `sync_data` / an io_uring fsync on
//!   a handle of that inode;
//! * every directory has a current entry map (the `Tree`) and a *durable*
//!   entry map, advanced to the current one by `sync_dir(dir)`, which also makes
//!   the directory's own creation durable (its name in the parent's durable
//!   map);
//! * after a crash an entry exists iff it is in the durable map of a directory
//!   that itself exists durably, and a file's content is its data-durable
//!   content.  Paths below a directory that does not exist durably are
//!   *unasserted* (the crate's model leaves dangling subtrees unspecified).
//!
//! With `sync_probability > 0` a background sync may fire right after a
//! write / set_len: the post-crash content may be any snapshot taken after
//! such an op since the last explicit sync.  With `block_size = b` each write
//! that is still pending at the crash may survive as a prefix of
//! `min(k*b, len)` bytes, `k = 0..=ceil(len/b)`, applied in order over the
//! durable content.  [`FileDur::admissible`] enumerates that set.
//!
//! Nothing in here looks at turmoil-fs internals.

use crate::models::posixfs::{components, Ino, Node, Tree, ROOT};
use std::collections::BTreeMap;

/// One data mutation of a file since its last explicit sync.
#[derive(Clone, Debug)]
pub struct Mut {
    /// `Some((offset, data))` for a write, `None` for a length change
    pub write: Option<(u64, Vec<u8>)>,
    /// content right after the op
    pub after: Vec<u8>,
    /// a background sync may fire right after this op (write / set_len; not
    /// the truncation done by open)
    pub bg_roll: bool,
}

#[derive(Clone, Debug, Default)]
pub struct FileDur {
    /// content at the last explicit data sync (empty if never synced)
    pub durable: Vec<u8>,
    pub muts: Vec<Mut>,
    /// an explicit sync made at least one mutation durable
    pub had_durable_mut: bool,
}

#[derive(Clone, Debug, Default)]
pub struct DirDur {
    /// durable entry map: name -> inode
    pub entries: BTreeMap<String, Ino>,
    /// a sync_dir made at least one entry change durable
    pub had_durable_change: bool,
}

/// What the model expects for one path after a crash.
#[derive(Clone, Debug, PartialEq, Eq)]
pub enum Expect {
    /// a proper ancestor does not exist durably: dangling, not asserted
    Unasserted,
    Absent,
    Dir { ino: Ino, entries: Vec<String> },
    File { ino: Ino },
}

#[derive(Clone, Debug)]
pub struct Durable {
    pub files: BTreeMap<Ino, FileDur>,
    pub dirs: BTreeMap<Ino, DirDur>,
}

impl Default for Durable {
    fn default() -> Self {
        let mut dirs = BTreeMap::new();
        dirs.insert(ROOT, DirDur::default());
        Durable {
            files: BTreeMap::new(),
            dirs,
        }
    }
}

fn apply_write(content: &mut Vec<u8>, off: u64, data: &[u8]) {
    if data.is_empty() {
        return;
    }
    let end = off as usize + data.len();
    if content.len() < end {
        content.resize(end, 0);
    }
    content[off as usize..end].copy_from_slice(data);
}

impl FileDur {
    /// The set of contents the crate's model permits after a crash.
    /// `bg`: sync_probability > 0; `block`: torn-write block size (0 = atomic).
    /// Returns `None` if the set is too large to enumerate (`cap`).
    pub fn admissible(&self, bg: bool, block: u64, cap: usize) -> Option<Vec<Vec<u8>>> {
        // (base content, index of the first mutation that is still pending)
        let mut bases: Vec<(Vec<u8>, usize)> = vec![(self.durable.clone(), 0)];
        if bg {
            for (j, m) in self.muts.iter().enumerate() {
                if m.bg_roll {
                    bases.push((m.after.clone(), j + 1));
                }
            }
        }
        let mut out: Vec<Vec<u8>> = Vec::new();
        for (base, start) in bases {
            if block == 0 {
                out.push(base);
                continue;
            }
            let writes: Vec<&(u64, Vec<u8>)> = self.muts[start..].iter().filter_map(|m| m.write.as_ref()).collect();
            // surviving byte counts per write: min(k*block, len), k = 0..=ceil(len/block)
            let choices: Vec<Vec<usize>> = writes
                .iter()
                .map(|(_, d)| {
                    let blocks = (d.len() as u64).div_ceil(block);
                    (0..=blocks).map(|k| ((k * block) as usize).min(d.len())).collect()
                })
                .collect();
            let total: usize = choices.iter().map(|c| c.len()).product();
            if total > cap || out.len() + total > cap {
                return None;
            }
            let mut idx = vec![0usize; writes.len()];
            loop {
                let mut c = base.clone();
                for (w, (off, data)) in writes.iter().enumerate() {
                    let n = choices[w][idx[w]];
                    apply_write(&mut c, *off, &data[..n]);
                }
                out.push(c);
                // next index vector
                let mut k = 0;
                loop {
                    if k == idx.len() {
                        break;
                    }
                    idx[k] += 1;
                    if idx[k] < choices[k].len() {
                        break;
                    }
                    idx[k] = 0;
                    k += 1;
                }
                if k == idx.len() {
                    break;
                }
            }
        }
        out.sort();
        out.dedup();
        Some(out)
    }
}

impl Durable {
    pub fn new() -> Self {
        Self::default()
    }

    /// Everything in `tree` is durable (the state right after a crash).
    pub fn all_durable(tree: &Tree) -> Self {
        let mut d = Durable::default();
        for ino in tree.subtree(ROOT) {
            match &tree.nodes[ino] {
                Node::Dir(m) => {
                    d.dirs.entry(ino).or_default().entries = m.clone();
                }
                Node::File(c) => {
                    d.files.entry(ino).or_default().durable = c.clone();
                }
            }
        }
        d
    }

    pub fn file(&mut self, ino: Ino) -> &mut FileDur {
        self.files.entry(ino).or_default()
    }

    /// A data mutation took effect on `ino`.
    pub fn data_mut(&mut self, ino: Ino, write: Option<(u64, Vec<u8>)>, after: &[u8], bg_roll: bool) {
        self.file(ino).muts.push(Mut {
            write,
            after: after.to_vec(),
            bg_roll,
        });
    }

    /// An explicit data sync (sync_all / sync_data / io_uring fsync) on a
    /// handle of `ino` succeeded.
    pub fn file_synced(&mut self, ino: Ino, current: &[u8]) {
        let f = self.file(ino);
        if !f.muts.is_empty() {
            f.had_durable_mut = true;
        }
        f.durable = current.to_vec();
        f.muts.clear();
    }

    /// `sync_dir(path)` succeeded: the directory's current entries become its
    /// durable entries and its own name becomes durable in its parent.
    pub fn dir_synced(&mut self, tree: &Tree, path: &str) {
        let Some(ino) = tree.lookup(path) else { return };
        let Node::Dir(cur) = &tree.nodes[ino] else { return };
        let d = self.dirs.entry(ino).or_default();
        if d.entries != *cur {
            d.had_durable_change = true;
        }
        d.entries = cur.clone();
        let comps = components(path);
        if let Some((leaf, _)) = comps.split_last() {
            let parent = crate::models::posixfs::parent_of(path);
            if let Some(pi) = tree.lookup(&parent) {
                let pd = self.dirs.entry(pi).or_default();
                if pd.entries.get(*leaf) != Some(&ino) {
                    pd.had_durable_change = true;
                }
                pd.entries.insert(leaf.to_string(), ino);
            }
        }
    }

    /// Walk the durable maps from the root.
    pub fn expect(&self, tree: &Tree, path: &str) -> Expect {
        let comps = components(path);
        let mut cur = ROOT;
        for (k, c) in comps.iter().enumerate() {
            let last = k + 1 == comps.len();
            // `cur` exists durably; it must be a directory to have children
            if !matches!(tree.nodes[cur], Node::Dir(_)) {
                return if last { Expect::Absent } else { Expect::Unasserted };
            }
            let empty = DirDur::default();
            let d = self.dirs.get(&cur).unwrap_or(&empty);
            match d.entries.get(*c) {
                Some(&i) => cur = i,
                None => return if last { Expect::Absent } else { Expect::Unasserted },
            }
        }
        match &tree.nodes[cur] {
            Node::File(_) => Expect::File { ino: cur },
            Node::Dir(_) => {
                let base = if comps.is_empty() {
                    String::new()
                } else {
                    format!("/{}", comps.join("/"))
                };
                let entries = self
                    .dirs
                    .get(&cur)
                    .map(|d| d.entries.keys().map(|k| format!("{base}/{k}")).collect())
                    .unwrap_or_default();
                Expect::Dir { ino: cur, entries }
            }
        }
    }

    /// The tree the model expects after a crash, as a fresh [`Tree`] (only the
    /// durably reachable part), with a content chooser for files.
    pub fn durable_tree(&self, tree: &Tree, content: &dyn Fn(Ino) -> Vec<u8>) -> Tree {
        let mut out = Tree::new();
        self.copy_dir(tree, ROOT, ROOT, &mut out, content);
        out
    }

    fn copy_dir(&self, tree: &Tree, src: Ino, dst: Ino, out: &mut Tree, content: &dyn Fn(Ino) -> Vec<u8>) {
        let Some(d) = self.dirs.get(&src) else { return };
        for (name, &i) in &d.entries {
            let ni = out.nodes.len();
            match &tree.nodes[i] {
                Node::File(_) => {
                    out.nodes.push(Node::File(content(i)));
                    if let Node::Dir(m) = &mut out.nodes[dst] {
                        m.insert(name.clone(), ni);
                    }
                }
                Node::Dir(_) => {
                    out.nodes.push(Node::Dir(BTreeMap::new()));
                    if let Node::Dir(m) = &mut out.nodes[dst] {
                        m.insert(name.clone(), ni);
                    }
                    self.copy_dir(tree, i, ni, out, content);
                }
            }
        }
    }
}

//! Reference model for C10 (and the no-crash half of C07): a straightforward
//! in-memory POSIX file tree — an inode arena, `BTreeMap<name, inode>` per
//! directory, `Vec<u8>` per file, open handles -> inode + cursor + flags.
//! Nothing in here knows how turmoil-fs is implemented.
//!
//! Errors are POSIX errnos reduced to the `std::io::ErrorKind` that std's own
//! errno mapping yields on Linux (ENOENT -> NotFound, EEXIST -> AlreadyExists,
//! ENOTDIR -> NotADirectory, EISDIR -> IsADirectory, ENOTEMPTY ->
//! DirectoryNotEmpty, EINVAL -> InvalidInput).  Where POSIX and Linux (or std's
//! documentation) disagree or the kind is not a documented one, `kind` is
//! `None`: only Ok/Err is then compared.

use std::collections::BTreeMap;
use std::io::ErrorKind;

pub type Ino = usize;

#[derive(Clone, Debug, PartialEq, Eq)]
pub struct MErr {
    /// What the situation is (stable, used in signatures / finding tables).
    pub situation: &'static str,
    /// The error kind std would report, if it is unambiguous.
    pub kind: Option<ErrorKind>,
}

fn err<T>(situation: &'static str, kind: Option<ErrorKind>) -> Result<T, MErr> {
    Err(MErr { situation, kind })
}

pub const ENOENT: Option<ErrorKind> = Some(ErrorKind::NotFound);
pub const EEXIST: Option<ErrorKind> = Some(ErrorKind::AlreadyExists);
pub const ENOTDIR: Option<ErrorKind> = Some(ErrorKind::NotADirectory);
pub const EISDIR: Option<ErrorKind> = Some(ErrorKind::IsADirectory);
pub const ENOTEMPTY: Option<ErrorKind> = Some(ErrorKind::DirectoryNotEmpty);
pub const EINVAL: Option<ErrorKind> = Some(ErrorKind::InvalidInput);

#[derive(Clone, Debug)]
pub enum Node {
    File(Vec<u8>),
    Dir(BTreeMap<String, Ino>),
}

#[derive(Clone, Copy, Debug, Default, PartialEq, Eq)]
pub struct Flags {
    pub read: bool,
    pub write: bool,
    pub append: bool,
    pub truncate: bool,
    pub create: bool,
    pub create_new: bool,
}

#[derive(Clone, Debug)]
pub struct MHandle {
    pub ino: Ino,
    pub cursor: u64,
    pub readable: bool,
    pub writable: bool,
    pub append: bool,
    /// path the handle was opened with
    pub path: String,
}

#[derive(Clone, Debug, PartialEq, Eq)]
pub enum Stat {
    File(u64),
    Dir,
}

#[derive(Clone, Debug)]
pub struct Tree {
    /// arena; inodes are never reused, an unlinked inode stays (handles may
    /// still refer to it)
    pub nodes: Vec<Node>,
}

pub const ROOT: Ino = 0;

pub fn components(path: &str) -> Vec<&str> {
    path.split('/').filter(|c| !c.is_empty()).collect()
}

pub fn parent_of(path: &str) -> String {
    let c = components(path);
    if c.len() <= 1 {
        "/".to_string()
    } else {
        format!("/{}", c[..c.len() - 1].join("/"))
    }
}

/// `a` is `b` or an ancestor of `b`.
pub fn is_prefix(a: &str, b: &str) -> bool {
    let (ca, cb) = (components(a), components(b));
    ca.len() <= cb.len() && ca.iter().zip(cb.iter()).all(|(x, y)| x == y)
}

impl Default for Tree {
    fn default() -> Self {
        Tree {
            nodes: vec![Node::Dir(BTreeMap::new())],
        }
    }
}

/// Outcome of `open`, before a handle is made.
pub struct Opened {
    pub ino: Ino,
    pub created: bool,
    pub truncated: bool,
}

impl Tree {
    pub fn new() -> Self {
        Self::default()
    }

    fn dir(&self, ino: Ino) -> Option<&BTreeMap<String, Ino>> {
        match &self.nodes[ino] {
            Node::Dir(m) => Some(m),
            _ => None,
        }
    }
    fn dir_mut(&mut self, ino: Ino) -> &mut BTreeMap<String, Ino> {
        match &mut self.nodes[ino] {
            Node::Dir(m) => m,
            _ => panic!("model: not a dir"),
        }
    }
    pub fn is_dir(&self, ino: Ino) -> bool {
        matches!(self.nodes[ino], Node::Dir(_))
    }
    pub fn file(&self, ino: Ino) -> &Vec<u8> {
        match &self.nodes[ino] {
            Node::File(v) => v,
            _ => panic!("model: not a file"),
        }
    }
    pub fn file_mut(&mut self, ino: Ino) -> &mut Vec<u8> {
        match &mut self.nodes[ino] {
            Node::File(v) => v,
            _ => panic!("model: not a file"),
        }
    }

    /// Full resolution. ENOENT if a component is missing, ENOTDIR if an
    /// intermediate component is a file.
    pub fn resolve(&self, path: &str) -> Result<Ino, MErr> {
        let mut cur = ROOT;
        for c in components(path) {
            match self.dir(cur) {
                None => return err("path-component-is-a-file", ENOTDIR),
                Some(m) => match m.get(c) {
                    None => return err("missing", ENOENT),
                    Some(&i) => cur = i,
                },
            }
        }
        Ok(cur)
    }

    pub fn lookup(&self, path: &str) -> Option<Ino> {
        self.resolve(path).ok()
    }

    /// Resolve the parent directory of `path`; returns (parent ino, leaf name).
    fn resolve_parent<'a>(&self, path: &'a str) -> Result<(Ino, &'a str), MErr> {
        let c = components(path);
        let Some((leaf, _)) = c.split_last() else {
            return err("root-has-no-parent", None);
        };
        let p = match self.resolve(&parent_of(path)) {
            Ok(p) => p,
            Err(e) if e.situation == "missing" => return err("parent-missing", ENOENT),
            Err(e) => return Err(e),
        };
        if !self.is_dir(p) {
            return err("path-component-is-a-file", ENOTDIR);
        }
        Ok((p, leaf))
    }

    pub fn stat(&self, path: &str) -> Result<Stat, MErr> {
        let i = self.resolve(path)?;
        Ok(match &self.nodes[i] {
            Node::File(v) => Stat::File(v.len() as u64),
            Node::Dir(_) => Stat::Dir,
        })
    }

    /// std's `OpenOptions` validation (library/std/src/sys/fs/unix.rs
    /// `get_access_mode` / `get_creation_mode`): these combinations fail with
    /// EINVAL before any syscall.
    pub fn flags_valid(f: Flags) -> bool {
        if !f.read && !f.write && !f.append {
            return false;
        }
        match (f.write, f.append) {
            (true, false) => {}
            (false, false) => {
                if f.truncate || f.create || f.create_new {
                    return false;
                }
            }
            (_, true) => {
                if f.truncate && !f.create_new {
                    return false;
                }
            }
        }
        true
    }

    pub fn open(&mut self, path: &str, f: Flags) -> Result<Opened, MErr> {
        if !Self::flags_valid(f) {
            return err("invalid-open-options", EINVAL);
        }
        if components(path).is_empty() {
            // "/" itself
            if f.create_new {
                return err("create_new-on-existing", EEXIST);
            }
            return err("open-for-write-on-directory", EISDIR);
        }
        let (p, leaf) = self.resolve_parent(path)?;
        let existing = self.dir(p).unwrap().get(leaf).copied();
        let wants_write = f.write || f.append;
        match existing {
            Some(i) => {
                if f.create_new {
                    return err("create_new-on-existing", EEXIST);
                }
                if self.is_dir(i) {
                    if wants_write || f.create {
                        return err("open-for-write-on-directory", EISDIR);
                    }
                    // read-only open of a directory succeeds on Linux but the
                    // shim documents handles as regular files only; callers
                    // do not generate this.
                    return err("open-readonly-on-directory", None);
                }
                let mut truncated = false;
                // O_TRUNC (creation mode (_, true, false))
                if f.truncate && !f.create_new {
                    truncated = !self.file(i).is_empty();
                    self.file_mut(i).clear();
                }
                Ok(Opened {
                    ino: i,
                    created: false,
                    truncated,
                })
            }
            None => {
                if f.create || f.create_new {
                    let i = self.nodes.len();
                    self.nodes.push(Node::File(Vec::new()));
                    self.dir_mut(p).insert(leaf.to_string(), i);
                    Ok(Opened {
                        ino: i,
                        created: true,
                        truncated: false,
                    })
                } else {
                    err("missing", ENOENT)
                }
            }
        }
    }

    pub fn handle(path: &str, ino: Ino, f: Flags) -> MHandle {
        MHandle {
            ino,
            cursor: 0,
            readable: f.read,
            writable: f.write || f.append,
            append: f.append,
            path: path.to_string(),
        }
    }

    pub fn pwrite(&mut self, ino: Ino, off: u64, data: &[u8]) -> usize {
        if data.is_empty() {
            return 0;
        }
        let v = self.file_mut(ino);
        let end = off as usize + data.len();
        if v.len() < end {
            v.resize(end, 0);
        }
        v[off as usize..end].copy_from_slice(data);
        data.len()
    }

    pub fn pread(&self, ino: Ino, off: u64, len: usize) -> Vec<u8> {
        let v = self.file(ino);
        let off = off as usize;
        if off >= v.len() {
            return Vec::new();
        }
        v[off..(off + len).min(v.len())].to_vec()
    }

    pub fn truncate(&mut self, ino: Ino, len: u64) {
        self.file_mut(ino).resize(len as usize, 0);
    }

    pub fn unlink(&mut self, path: &str) -> Result<Ino, MErr> {
        if components(path).is_empty() {
            return err("unlink-on-directory", None);
        }
        let (p, leaf) = self.resolve_parent(path)?;
        let Some(&i) = self.dir(p).unwrap().get(leaf) else {
            return err("missing", ENOENT);
        };
        if self.is_dir(i) {
            // POSIX: EPERM, Linux: EISDIR
            return err("unlink-on-directory", None);
        }
        self.dir_mut(p).remove(leaf);
        Ok(i)
    }

    pub fn mkdir(&mut self, path: &str) -> Result<Ino, MErr> {
        if components(path).is_empty() {
            return err("exists", EEXIST);
        }
        let (p, leaf) = self.resolve_parent(path)?;
        if self.dir(p).unwrap().contains_key(leaf) {
            return err("exists", EEXIST);
        }
        let i = self.nodes.len();
        self.nodes.push(Node::Dir(BTreeMap::new()));
        self.dir_mut(p).insert(leaf.to_string(), i);
        Ok(i)
    }

    /// std::fs::create_dir_all: Ok if the path is (or becomes) a directory.
    pub fn mkdir_all(&mut self, path: &str) -> Result<(), MErr> {
        let comps = components(path);
        let mut cur = String::new();
        for (k, c) in comps.iter().enumerate() {
            cur.push('/');
            cur.push_str(c);
            match self.resolve(&cur) {
                Ok(i) => {
                    if !self.is_dir(i) {
                        return if k + 1 == comps.len() {
                            err("exists-as-file", EEXIST)
                        } else {
                            err("path-component-is-a-file", ENOTDIR)
                        };
                    }
                }
                Err(_) => {
                    self.mkdir(&cur)?;
                }
            }
        }
        Ok(())
    }

    pub fn rmdir(&mut self, path: &str) -> Result<Ino, MErr> {
        if components(path).is_empty() {
            return err("rmdir-root", None);
        }
        let (p, leaf) = self.resolve_parent(path)?;
        let Some(&i) = self.dir(p).unwrap().get(leaf) else {
            return err("missing", ENOENT);
        };
        match self.dir(i) {
            None => return err("not-a-directory", ENOTDIR),
            Some(m) if !m.is_empty() => return err("directory-not-empty", ENOTEMPTY),
            _ => {}
        }
        self.dir_mut(p).remove(leaf);
        Ok(i)
    }

    pub fn rmdir_all(&mut self, path: &str) -> Result<Ino, MErr> {
        if components(path).is_empty() {
            return err("rmdir-root", None);
        }
        let (p, leaf) = self.resolve_parent(path)?;
        let Some(&i) = self.dir(p).unwrap().get(leaf) else {
            return err("missing", ENOENT);
        };
        if !self.is_dir(i) {
            return err("not-a-directory", ENOTDIR);
        }
        self.dir_mut(p).remove(leaf);
        Ok(i)
    }

    pub fn readdir(&self, path: &str) -> Result<Vec<String>, MErr> {
        let i = self.resolve(path)?;
        let Some(m) = self.dir(i) else {
            return err("not-a-directory", ENOTDIR);
        };
        let base = if components(path).is_empty() {
            String::new()
        } else {
            format!("/{}", components(path).join("/"))
        };
        Ok(m.keys().map(|k| format!("{base}/{k}")).collect())
    }

    /// POSIX rename(2). Returns the inode that was replaced at `to`, if any.
    pub fn rename(&mut self, from: &str, to: &str) -> Result<Option<Ino>, MErr> {
        if components(from).is_empty() || components(to).is_empty() {
            return err("rename-root", None);
        }
        // Linux resolves both parent directories before it looks up either leaf
        let (fp, fleaf) = self.resolve_parent(from)?;
        let (tp, tleaf) = match self.resolve_parent(to) {
            Ok(x) => x,
            Err(e) if e.situation == "parent-missing" => return err("destination-parent-missing", ENOENT),
            Err(e) => return Err(e),
        };
        let Some(&fi) = self.dir(fp).unwrap().get(fleaf) else {
            return err("source-missing", ENOENT);
        };
        let ti = self.dir(tp).unwrap().get(tleaf).copied();
        if ti == Some(fi) {
            return Ok(None); // same file: no-op
        }
        if from != to && is_prefix(to, from) {
            // the destination is an ancestor of the source (Linux checks this
            // before looking at the kinds): it necessarily is a non-empty directory
            return err("destination-is-ancestor-of-source", ENOTEMPTY);
        }
        if self.is_dir(fi) {
            if from != to && is_prefix(from, to) {
                return err("directory-into-itself", EINVAL);
            }
            if let Some(t) = ti {
                match self.dir(t) {
                    None => return err("directory-onto-file", ENOTDIR),
                    Some(m) if !m.is_empty() => return err("directory-onto-nonempty-directory", ENOTEMPTY),
                    _ => {}
                }
            }
        } else if let Some(t) = ti {
            if self.is_dir(t) {
                return err("file-onto-directory", EISDIR);
            }
        }
        let fleaf = fleaf.to_string();
        let tleaf = tleaf.to_string();
        self.dir_mut(fp).remove(&fleaf);
        self.dir_mut(tp).insert(tleaf, fi);
        Ok(ti)
    }

    /// All inodes reachable below (and including) `ino`.
    pub fn subtree(&self, ino: Ino) -> Vec<Ino> {
        let mut out = vec![ino];
        let mut k = 0;
        while k < out.len() {
            if let Some(m) = self.dir(out[k]) {
                out.extend(m.values().copied());
            }
            k += 1;
        }
        out
    }
}

#!/usr/bin/env bash
# Entry point for every MANIFEST command:  ./check.sh <ID> [quick|thorough]
# exit 0 = held on everything explored (KNOWN-FINDING lines possible)
# exit 1 = at least one "VIOLATION property=<id> replay=<path>" line
# exit 2 = infrastructure trouble / watchdog (inconclusive, never a violation)
set -u
ID="${1:?usage: check.sh <ID> [quick|thorough]}"
TIER="${2:-${VERIF_TIER:-quick}}"
HERE="$(cd "$(dirname "$0")" && pwd)"
export VERIF_ROOT="$HERE"
export CARGO_NET_OFFLINE=true
export VERIF_SEED="${VERIF_SEED:-0}"
cd "$HERE/harness" || exit 2
mkdir -p "$HERE/harness/target"
# Path dependencies on /repo/crates/*: cargo rebuilds from /repo's working tree.
if ! cargo build --release --offline >"$HERE/harness/target/.build.log" 2>&1; then
  tail -40 "$HERE/harness/target/.build.log"
  echo "INFRA property=$ID build of harness against /repo failed (exit 2: inconclusive)"
  exit 2
fi
# ---- coverage-guided tier (thorough only, selected properties): libFuzzer campaign through
# /verif/fuzz; its statistics are handed to tvh, which records them in the evidence file.
FUZZ_RC=0
unset VERIF_FUZZ_STATS
case "$ID" in C02|C03|C04|C05|C06|C07|C08|C09|C10|C11|C12|C13|C14|C15|C16|C17|C19|C20) FT="$(echo "$ID" | tr 'C' 'c')" ;; *) FT="" ;; esac
if [ "$TIER" = "thorough" ] && [ -n "$FT" ] && [ "${VERIF_NO_FUZZ:-0}" != "1" ]; then
  cd "$HERE/fuzz" || exit 2
  if RUSTFLAGS="--cfg tokio_unstable --cfg turmoil_verif" cargo +nightly fuzz build --fuzz-dir . -s none "$FT" >"$HERE/harness/target/.fuzzbuild.log" 2>&1; then
    CORP="$HERE/fuzz/corpus/$FT"; rm -rf "$CORP"; mkdir -p "$CORP"
    # deterministic starting corpus: an empty-ish input and a few fixed pseudo-random ones
    python3 - "$CORP" <<'PY'
import sys, hashlib
d = sys.argv[1]
open(d + "/zero", "wb").write(b"\0" * 8)
for i in range(6):
    b = b"".join(hashlib.sha256(b"tvh-corpus-%d-%d" % (i, j)).digest() for j in range(6))
    open(d + "/seed%d" % i, "wb").write(b[: 48 + 24 * i])
PY
    FLOG="$HERE/harness/target/.fuzzrun-$FT.log"
    RUSTFLAGS="--cfg tokio_unstable --cfg turmoil_verif" timeout --signal=KILL 900 \
      cargo +nightly fuzz run --fuzz-dir . -s none "$FT" -- -runs="${VERIF_FUZZ_RUNS:-150000}" -max_total_time=240 \
      -seed="$((VERIF_SEED + 1))" -len_control=0 -max_len=512 -print_final_stats=1 >"$FLOG" 2>&1
    frc=$?
    grep -E "^VIOLATION|^  detail" "$FLOG" | cut -c1-2000
    if grep -q "^VIOLATION" "$FLOG"; then FUZZ_RC=1; fi
    DONE_LINE="$(grep -E "DONE|stat::number_of_executed_units" "$FLOG" | tr '\n' ' ')"
    RUNS="$(grep -oE "stat::number_of_executed_units: *[0-9]+" "$FLOG" | grep -oE "[0-9]+$" | tail -1)"
    COV="$(grep -oE "cov: [0-9]+" "$FLOG" | tail -1 | grep -oE "[0-9]+")"
    FTS="$(grep -oE "ft: [0-9]+" "$FLOG" | tail -1 | grep -oE "[0-9]+")"
    CORPN="$(ls "$CORP" | wc -l)"
    export VERIF_FUZZ_STATS="{\"engine\":\"libFuzzer (cargo-fuzz, no sanitizer)\",\"target\":\"$FT\",\"executions\":${RUNS:-0},\"edge_coverage\":${COV:-0},\"features\":${FTS:-0},\"corpus_files\":${CORPN:-0},\"exit_code\":$frc,\"violations\":$FUZZ_RC}"
    if [ $frc -ne 0 ] && [ $FUZZ_RC -eq 0 ]; then
      echo "NOTE property=$ID fuzz campaign ended with exit $frc without a VIOLATION line (timeout or libFuzzer error); see $FLOG"
    fi
  else
    echo "NOTE property=$ID coverage-guided tier unavailable (cargo +nightly fuzz build failed); random and exhaustive tiers still run"
    export VERIF_FUZZ_STATS="{\"engine\":\"libFuzzer\",\"target\":\"$FT\",\"unavailable\":true}"
  fi
  cd "$HERE/harness" || exit 2
fi

LIMIT="${VERIF_TIMEOUT_S:-}"
if [ -z "$LIMIT" ]; then
  if [ "$TIER" = "thorough" ]; then LIMIT=7200; else LIMIT=1500; fi
fi
timeout --signal=KILL "$LIMIT" "$HERE/harness/target/release/tvh" check "$ID" "$TIER"
rc=$?
if [ $rc -eq 137 ] || [ $rc -eq 124 ]; then
  echo "INFRA property=$ID watchdog: check exceeded ${LIMIT}s (exit 2: inconclusive)"
  exit 2
fi
if [ $rc -ne 0 ] && [ $rc -ne 1 ]; then
  echo "INFRA property=$ID tvh exited with $rc (exit 2: inconclusive)"
  exit 2
fi
if [ $FUZZ_RC -ne 0 ]; then exit 1; fi
exit $rc

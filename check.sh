#!/usr/bin/env bash
# Entry point for every MANIFEST command:  ./check.sh <ID> [quick|thorough]
# exit 0 = held on everything explored (KNOWN-FINDING lines possible)
# exit 1 = at least one "VIOLATION property=<id> replay=<path>" line
# exit 2 = infrastructure trouble / watchdog (inconclusive, never a violation)
set -u
ID="${1:?usage: check.sh <ID> [quick|thorough]}"
TIER="${2:-${VERIF_TIER:-quick}}"
HERE="$(cd "$(dirname "$0")" && pwd)"
export VERIF_ROOT="$HERE"
export CARGO_NET_OFFLINE=true
export VERIF_SEED="${VERIF_SEED:-0}"
cd "$HERE/harness" || exit 2
mkdir -p "$HERE/harness/target"
# Path dependencies on /repo/crates/*: cargo rebuilds from /repo's working tree.
if ! cargo build --release --offline >"$HERE/harness/target/.build.log" 2>&1; then
  tail -40 "$HERE/harness/target/.build.log"
  echo "INFRA property=$ID build of harness against /repo failed (exit 2: inconclusive)"
  exit 2
fi
LIMIT="${VERIF_TIMEOUT_S:-}"
if [ -z "$LIMIT" ]; then
  if [ "$TIER" = "thorough" ]; then LIMIT=7200; else LIMIT=1500; fi
fi
timeout --signal=KILL "$LIMIT" "$HERE/harness/target/release/tvh" check "$ID" "$TIER"
rc=$?
if [ $rc -eq 137 ] || [ $rc -eq 124 ]; then
  echo "INFRA property=$ID watchdog: check exceeded ${LIMIT}s (exit 2: inconclusive)"
  exit 2
fi
if [ $rc -ne 0 ] && [ $rc -ne 1 ]; then
  echo "INFRA property=$ID tvh exited with $rc (exit 2: inconclusive)"
  exit 2
fi
exit $rc

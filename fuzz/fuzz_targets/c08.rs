#![no_main]
// Coverage-guided tier for C08: the fuzzer's bytes drive the property's proptest
// strategy (PassThrough rng), the oracle runs inside the target (tvh::props::fuzz_entry).
use libfuzzer_sys::fuzz_target;

fuzz_target!(init: { tvh::engine::install_panic_hook(); }, |data: &[u8]| {
    tvh::props::fuzz_entry("c08", data);
});

#![no_main]
// Coverage-guided tier for C20: libFuzzer bytes are decoded structurally into the property's
// Scenario type, clamped into the generator's domain, and run through the same interpreter and
// oracle as the random tier (tvh::props::fuzz_entry).
use libfuzzer_sys::fuzz_target;

fuzz_target!(init: { tvh::engine::install_panic_hook(); }, |data: &[u8]| {
    tvh::props::fuzz_entry("c20", data);
});

#!/usr/bin/env bash
# tools/without_fix.sh <commit> <ID>... — temporarily reverse-apply a fix: commit in /repo's
# working tree, run the quick checks (expected: VIOLATION via the committed replay), restore.
set -u
C="$1"; shift
cd /repo || exit 2
git diff --quiet || { echo "refusing: /repo dirty"; exit 2; }
trap 'git -C /repo checkout -- . ; echo "[without_fix] restored /repo"' EXIT
git show "$C" | git apply -R || exit 2
for ID in "$@"; do
  /verif/check.sh "$ID" quick | grep -E "^(VIOLATION|KNOWN-FINDING|SUMMARY|INFRA)" | cut -c1-400 | head -8
  echo "[without_fix] $ID rc=${PIPESTATUS[0]}"
done

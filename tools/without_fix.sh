#!/usr/bin/env bash
# tools/without_fix.sh <commit> <ID>... — in a SCRATCH copy of /repo, reverse-apply a fix: commit
# and run the quick checks (expected: VIOLATION via the committed replay). /repo is not touched.
set -u
C="$1"; shift
git -C /repo show "$C" > /tmp/mut-fix-$C.diff
/verif/tools/mut.py --patch-reverse /tmp/mut-fix-$C.diff -- "$@"
rm -f /tmp/mut-fix-$C.diff

#!/usr/bin/env python3
"""tools/seed5_prep.py <worktree> — round-5 seeds are delivered as <wt>/seed/{patch.diff,demo.rs,meta.json}
with the demo location/command in meta.json; re-shape them into <wt>/seed/A5/ with the header
tools/seed_eval.py expects, so `tools/seed_eval.py <wt> <ID> A5` confirms and evaluates them."""
import sys, os, json, shutil
wt = sys.argv[1]; s = wt + '/seed'; d = s + '/A5'
os.makedirs(d, exist_ok=True)
meta = json.load(open(s + '/meta.json'))
loc, cmd = meta['demo_location'], meta['demo_command']
cmd = cmd[cmd.index('cargo test'):]
body = open(s + '/demo.rs').read()
open(d + '/demo.rs', 'w').write(f'// {loc}\n// {cmd}\n' + body)
shutil.copy(s + '/patch.diff', d + '/patch.diff'); shutil.copy(s + '/meta.json', d + '/meta.json')
print('prepared', d, loc, cmd)
